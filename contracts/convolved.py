"""Contracts for sedfitter/convolved_fluxes/convolved_fluxes.py: interpolate (C13, C02), sort_to_match (C07)."""
from sedvc import units
from sedvc.contractlib import Contract, contract
from sedvc.sym import Sc, compare, band, bor, bnot, implies, ite, arith, smin
from sedvc.values import Quantity, Opaque
from .integrate import strictly_increasing

CF = 'sedfitter.convolved_fluxes.convolved_fluxes.ConvolvedFluxes'
U = units.BASE


def make_cf(c, ap_unit, n_ap=None, prefix='cf'):
    M = c.int(prefix + '_n_models')
    c.assume(M >= 0)
    cw = c.real(prefix + '_cw')
    # object invariant: `_wavelength` is only ever stored by the validating setter (validate_scalar, 'strictly-positive')
    c.assume(cw > 0)
    attrs = dict(_model_names=c.array(prefix + '_names', (M,), 'int'), _wavelength=Quantity(cw, U['micron']))
    if n_ap == 1:
        attrs['_apertures'] = None
        A = 1
    else:
        A = c.int(prefix + '_n_ap')
        c.assume(A >= 2)
        attrs['_apertures'] = Quantity(c.array(prefix + '_ap', (A,)), ap_unit)
    attrs['_flux'] = Quantity(c.array(prefix + '_flux', (M, A)), U['mJy'])
    attrs['_error'] = Quantity(c.array(prefix + '_err', (M, A)), U['mJy'])
    return c.obj(CF, **attrs)


@contract
class Interpolate(Contract):
    """ConvolvedFluxes.interpolate(apertures): exact at tabulated radii and linear between them
    (the interpolant of every tabulated segment containing the radius), the largest-aperture
    value beyond the table, refusal (an exception) iff some radius is below the smallest one;
    model names, wavelength and model order untouched; a single-aperture table is repeated.
    Requests may be in another length unit than the table.  (The caller's request array is
    clamped in place, as the code has always done; nothing is claimed about that.)"""
    name = CF + '.interpolate'
    properties = ('C13', 'C02')
    variants = ('au<-au', 'au<-pc', 'pc<-au', 'single')
    modifies = ('apertures',)

    def setup(self, c, variant):
        if variant == 'single':
            cf = make_cf(c, None, n_ap=1)
            ru = U['au']
        else:
            tu, ru = variant.split('<-')
            cf = make_cf(c, U[tu])
            ru = U[ru]
        R = c.int('n_req')
        c.assume(R >= 0)
        return dict(self=cf, apertures=Quantity(c.array('req', (R,)), ru))

    def _table(self, c, a, ctx=None):
        ctx = ctx or c
        ap = ctx.attr(a.self, '_apertures')
        return ap

    def requires(self, c, a):
        ap = self._table(c, a)
        req = {'request_is_length': isinstance(a.apertures, Quantity) and a.apertures.unit.dims == {'m': 1}}
        if ap is not None:
            A = c.A(ap)
            req['table_increasing'] = strictly_increasing(c, A)
            req['shapes'] = band(compare('==', c.A(c.attr(a.self, '_flux')).shape[1], A.n), compare('==', c.A(c.attr(a.self, '_error')).shape[1], A.n))
        return req

    def _factor(self, c, a):
        from sedvc.units import _sdiv
        ap = self._table(c, a)
        return _sdiv(a.apertures.unit.scale, ap.unit.scale)

    def raises(self, c, a):
        ap = self._table(c, a)
        if ap is None:
            return {'Exception': False}
        A, Rq = c.A(ap), c.A(a.apertures)
        f = self._factor(c, a)
        return {'Exception': c.Any(Rq.n, lambda q: Rq[q] * f < A[0])}

    def result(self, c, a):
        M = c.A(c.attr(a.self, '_flux')).shape[0]
        R = c.A(a.apertures).n
        return c.obj(CF, _model_names=c.attr(a.self, '_model_names'), _wavelength=c.attr(a.self, '_wavelength'), _apertures=a.apertures,
                     _flux=Quantity(c.fresh_array('ifl', (M, R)), U['mJy']), _error=Quantity(c.fresh_array('ier', (M, R)), U['mJy']))

    def havoc(self, c, a):
        # the request array may be clamped in place
        R = c.A(a.apertures).n
        a.apertures  # (left as is at call sites: callers only read the clamped values through the result)

    def ensures(self, c, a, result, old):
        ap = old.attr(a.self, '_apertures')
        Rq = old.A(a.apertures)             # the request as passed in
        out = {
            'names_untouched': c.attr(result, '_model_names') is old.attr(a.self, '_model_names') or getattr(c.attr(result, '_model_names'), 'addr', 0) == getattr(old.attr(a.self, '_model_names'), 'addr', 1),
            'wavelength_untouched': c.attr(result, '_wavelength') is old.attr(a.self, '_wavelength'),
        }
        for nm in ('_flux', '_error'):
            T = old.A(old.attr(a.self, nm))
            Q = c.attr(result, nm)
            G = c.A(Q)
            sc = 1
            if isinstance(Q, Quantity):
                from sedvc.units import _sdiv
                sc = _sdiv(Q.unit.scale, old.attr(a.self, nm).unit.scale)
            out['shape(%s)' % nm] = band(compare('==', G.shape[0], T.shape[0]), compare('==', G.shape[1], Rq.n))
            if ap is None:
                out['repeated(%s)' % nm] = c.forall([T.shape[0], Rq.n], (lambda G, T, sc: lambda i, q: G[i, q] * sc == T[i, 0])(G, T, sc), 'repeated')
                continue
            A = old.A(ap)
            f = self._factor(old, a)
            n = A.n
            from sedvc.extmodels import row_interpolant
            PL = row_interpolant(c.st, ap.value, old.attr(a.self, nm).value)

            def rc(q):
                return smin(Rq[q] * f, A[n - 1])
            out['interpolant_clamped_above(%s)' % nm] = c.forall([T.shape[0], Rq.n], (lambda G, sc, PL: lambda i, q: G[i, q] * sc == PL(i, rc(q)))(G, sc, PL), 'clamped interpolant')
            # every tabulated radius is an end point of some segment k (0 <= k < n-1): stated per segment
            out['exact_at_tabulated_radii(%s)' % nm] = c.forall([T.shape[0], Rq.n, n - 1], (lambda G, sc, T: lambda i, q, k: band(implies(rc(q) == A[k], G[i, q] * sc == T[i, k]),
                                                                                                                             implies(rc(q) == A[k + 1], G[i, q] * sc == T[i, k + 1])))(G, sc, T), 'exact at nodes')
            out['linear_between(%s)' % nm] = c.forall([T.shape[0], Rq.n, n - 1],
                                                    (lambda G, sc, T: lambda i, q, k: implies(band(A[k] <= rc(q), rc(q) <= A[k + 1]),
                                                                                              G[i, q] * sc == T[i, k] + (rc(q) - A[k]) * (T[i, k + 1] - T[i, k]) / (A[k + 1] - A[k])))(G, sc, T), 'linear')
            out['largest_beyond_table(%s)' % nm] = c.forall([T.shape[0], Rq.n], (lambda G, sc, T: lambda i, q: implies(Rq[q] * f >= A[n - 1], G[i, q] * sc == T[i, n - 1]))(G, sc, T), 'largest beyond')
        return out


@contract
class SortToMatch(Contract):
    """ConvolvedFluxes.sort_to_match(requested): on normal return row r is labelled requested[r]
    (stripped) and holds the name, the fluxes and the errors of ONE row of the input -- the same row
    for all three (row integrity); apertures and central wavelength untouched.  Anything else is an
    exception.  (That a permutation of unique names never raises is decided by the bounded run.)"""
    name = CF + '.sort_to_match'
    properties = ('C07', 'C16')
    variants = ('multi', 'single')
    modifies = ('self._model_names', 'self._flux', 'self._error')

    def setup(self, c, variant):
        cf = make_cf(c, U['au'], n_ap=1 if variant == 'single' else None)
        M = c.A(c.attr(cf, '_model_names')).n
        return dict(self=cf, requested_model_names=c.array('requested', (M,), 'int'))

    def requires(self, c, a):
        names = c.A(c.attr(a.self, '_model_names'))
        F, E = c.A(c.attr(a.self, '_flux')), c.A(c.attr(a.self, '_error'))
        return {'lengths': band(compare('==', c.A(a.requested_model_names).n, names.n), band(compare('==', F.shape[0], names.n), compare('==', E.shape[0], names.n)))}

    def raises(self, c, a):
        return {'Exception': ('may', True)}        # allowed whenever the code's own check fails; never silently wrong

    def ensures(self, c, a, result, old):
        from sedvc.extmodels import strip_code
        oc = old
        n0, F0, E0 = oc.A(oc.attr(a.self, '_model_names')), oc.A(oc.attr(a.self, '_flux')), oc.A(oc.attr(a.self, '_error'))
        n1, F1, E1 = c.A(c.attr(a.self, '_model_names')), c.A(c.attr(a.self, '_flux')), c.A(c.attr(a.self, '_error'))
        req = c.A(a.requested_model_names)
        M, A = n0.n, F0.shape[1]
        O = c.A(c.witness('order', (M,), 'int'))
        return {'shapes': [compare('==', n1.n, M), compare('==', F1.shape[0], M), compare('==', F1.shape[1], A), compare('==', E1.shape[0], M), compare('==', E1.shape[1], A)],
                'labelled_as_requested': c.forall(M, lambda r: n1[r] == strip_code(req[r]), 'label'),
                'source_row_exists': c.forall(M, lambda r: band(O[r] >= 0, O[r] < M), 'order in range'),
                'row_integrity': c.forall([M, A], lambda r, i: band(n1[r] == n0[O[r]], band(F1[r, i] == F0[O[r], i], E1[r, i] == E0[O[r], i])), 'row'),
                'units_kept': c.attr(a.self, '_flux').unit is oc.attr(a.self, '_flux').unit or c.attr(a.self, '_flux').unit.name == oc.attr(a.self, '_flux').unit.name}
