"""Bounded (E2) checks of the pipeline-level properties on the real code through real files:
C02 (distance grid + scaling from packages), C07 (convolved-flux files), C08 (planted model),
C09 (parameter listings), C10 (fit() output and post-processing), C16 (monochromatic),
C17 (plot), C18 (filter_output)."""
import glob
import itertools
import math
import os
import pickle

import numpy as np
from astropy import units as u
from astropy.table import Table

from . import pkg
from .core import Recorder, close, jsonable, unjson_floats
from .fitcommon import transform, chi2_of, constrained_ls, scaling_ls, random_source
from .fit_props import check_fit_3d, check_fit_2d, run_c02_fit, REPLAY as FIT_REPLAY
from .conv_props import expected_bins, pl_integral, make_filter

AU_PER_PC_ARCSEC = 1.0      # theta[arcsec] * d[pc] = r[AU] (small-angle definition of the parsec)


def _quiet_log():
    from astropy import log
    log.setLevel('ERROR')


def _box_filter(name, wav_lo, wav_hi, cw, n=5, desc=False):
    """A filter whose response is a smooth bump between two wavelengths."""
    from sedfitter.filter import Filter
    w = np.linspace(wav_lo, wav_hi, n)
    r = np.concatenate([[0.], np.ones(n - 2), [0.]]) if n >= 3 else np.ones(n)
    if desc:
        w, r = w[::-1], r[::-1]
    f = Filter()
    f.name = name
    f.central_wavelength = cw * u.micron
    f.nu = (w * u.micron).to(u.Hz, equivalencies=u.spectral())
    f.response = r
    f.normalize()
    return f


def expected_convolved(spec, f):
    """(flux, error) [n_models, n_ap] the statement prescribes for filter f (independent oracle)."""
    fnu = f.nu.to(u.Hz).value
    flux = np.zeros(spec.flux.shape[:2])
    err = np.zeros(spec.flux.shape[:2])
    for i in range(spec.n_models):
        nu = (spec.wav_of(i) * u.micron).to(u.Hz, equivalencies=u.spectral()).value
        order = np.argsort(nu)
        R = expected_bins(fnu, np.asarray(f.response), nu[order])
        flux[i] = spec.flux[i][:, order] @ R
        err[i] = np.sqrt((spec.error[i][:, order] ** 2) @ (R ** 2))
    return flux, err


# ---------------------------------------------------------------------------
# C07
# ---------------------------------------------------------------------------

def c07_one(rec, case):
    from sedfitter.convolve import convolve_model_dir
    from sedfitter.convolved_fluxes import ConvolvedFluxes
    from sedfitter import Fitter
    _quiet_log()
    c = unjson_floats(case)
    rng = np.random.default_rng(c['pseed'])
    spec = pkg.random_spec(rng, n_models=c['n_models'], n_ap=c['n_ap'], n_wav=c['n_wav'], wav_desc=c['wav_desc'], permute=True,
                           name_fmt=c.get('name_fmt', 'model_{0:04d}'))
    if c.get('sorted_names_reversed'):
        spec.par_order = list(np.argsort(spec.names)[::-1])
    versions = (1, 2)
    if c.get('mixed_grids'):
        # SED files on two different wavelength grids with the same size and the same end points, in the
        # order A B B A A... (per-file format only)
        w = np.sort(spec.wav)
        t_ = np.linspace(0., 1., len(w))
        wb = w[0] * (w[-1] / w[0]) ** (t_ ** 1.3)
        wb[0], wb[-1] = w[0], w[-1]
        if c['wav_desc']:
            w, wb = w[::-1], wb[::-1]
        pat = [0, 1, 1, 0, 0, 1, 0, 1]
        spec.wavs = [(w if pat[i % 8] == 0 else wb) for i in range(spec.n_models)]
        versions = (1,)
    filters = [_box_filter('FA', 1., 3., 2., n=int(c['nf']), desc=c['f_desc']), _box_filter('FB', 8., 30., 15., n=4, desc=not c['f_desc']),
               _box_filter('FC', 40., 90., 60., n=3)]
    filters = filters[:c['n_filters']]
    res = {}
    ok = True
    with pkg.scratch() as d:
        for ver in versions:
            md = os.path.join(d, 'v%d' % ver)
            os.makedirs(md)
            # the same SEDs stored in another flux-density unit (the convolved fluxes are in mJy whatever the package holds)
            stored = getattr(u, c.get('stored_unit', 'mJy'))
            if stored is u.mJy:
                spec_w = spec
            else:
                import copy as _copy
                k_ = (1. * u.mJy).to(stored).value
                spec_w = _copy.copy(spec)
                spec_w.flux, spec_w.error = spec.flux * k_, spec.error * k_
            if ver == 2 and c.get('cube_flags'):
                pkg.write_v2(md, spec_w, unit=stored, valid=[(i % 2 == 0) for i in range(spec.n_models)])
            else:
                (pkg.write_v1 if ver == 1 else pkg.write_v2)(md, spec_w, unit=stored)
            try:
                with pkg.quiet():
                    if c.get('two_calls') and len(filters) > 1:
                        convolve_model_dir(md, filters[:1], memmap=c['memmap'])
                        if c.get('postprocess_between'):
                            # a fit and a parameter listing in the same process between two convolve calls
                            from sedfitter import write_parameters
                            ft0 = Fitter([filters[0].name], [2.] * u.arcsec, md, extinction_law=pkg.simple_extinction(), av_range=(0., 10.),
                                         distance_range=[0.8, 1.6] * u.kpc, use_memmap=False)
                            write_parameters(ft0.fit(pkg.make_source('s', [1], [1.], [0.1])), os.path.join(d, 'pp.txt'), select_format=('A', 0))
                        convolve_model_dir(md, filters[1:], memmap=c['memmap'])
                    else:
                        convolve_model_dir(md, filters, memmap=c['memmap'])
            except Exception as e:
                rec.fail('convolve_crash', 'convolve_model_dir (format %d) raised %s: %s' % (ver, type(e).__name__, e), case)
                return False
            for f in filters:
                cf = ConvolvedFluxes.read(os.path.join(md, 'convolved', f.name + '.fits'))
                names = [str(x).strip() for x in cf.model_names]
                ok &= rec.expect(names == spec.par_names(), 'rows_follow_parameter_table', 'format %d filter %s: rows are not in parameter-table/cube order' % (ver, f.name), case)
                ef, ee = expected_convolved(spec, f)
                idx = [spec.names.index(nm) for nm in names] if set(names) == set(spec.names) else None
                if idx is None:
                    ok = rec.expect(False, 'row_labels', 'format %d: unknown model names in the file' % ver, case)
                    continue
                got_f, got_e = cf.flux.to(u.mJy).value, cf.error.to(u.mJy).value
                ok &= rec.expect(close(got_f, ef[idx], 2e-5), 'row_holds_own_flux', 'format %d filter %s: the row labelled X does not hold the flux computed from SED X' % (ver, f.name), case)
                ok &= rec.expect(close(got_e, ee[idx], 2e-5), 'row_holds_own_error', 'format %d filter %s: the row labelled X does not hold the error computed from SED X' % (ver, f.name), case)
                ok &= rec.expect(abs(cf.central_wavelength.to(u.micron).value - f.central_wavelength.to(u.micron).value) < 1e-6, 'central_wavelength',
                                 'format %d: central wavelength of filter %s not carried over' % (ver, f.name), case)
                if spec.apertures is not None:
                    ok &= rec.expect(close(cf.apertures.to(u.au).value, spec.apertures, 2e-6), 'apertures_carried', 'format %d: SED apertures not carried over' % ver, case)
                res[(ver, f.name)] = (got_f, got_e)
            # fits from either format agree
            if ok and c.get('fit'):
                ext = pkg.simple_extinction()
                n = len(filters)
                src = pkg.make_source('s', [1] * n, list(1. + np.arange(n)), [0.1] * n)
                with pkg.quiet():
                    ft = Fitter([f.name for f in filters], np.full(n, 2.) * u.arcsec, md, extinction_law=ext, av_range=(0., 10.),
                                distance_range=[0.8, 1.6] * u.kpc, use_memmap=c['memmap'])
                info = ft.fit(src)
                res[('fit', ver)] = dict((str(nm).strip(), (float(a), float(s), float(ch))) for nm, a, s, ch in zip(info.model_name, info.av, info.sc, info.chi2))
        for f in filters:
            if (1, f.name) in res and (2, f.name) in res:
                ok &= rec.expect(close(res[(1, f.name)][0], res[(2, f.name)][0], 2e-5) and close(res[(1, f.name)][1], res[(2, f.name)][1], 2e-5), 'formats_agree',
                                 'per-file and cube packages built from the same SEDs give different fluxes/errors for %s' % f.name, case)
        if ('fit', 1) in res and ('fit', 2) in res:
            a, b = res[('fit', 1)], res[('fit', 2)]
            ok &= rec.expect(set(a) == set(b) and all(close(a[k], b[k], 5e-4, 1e-4) for k in a), 'fits_agree', 'fits made from the per-file and the cube package disagree', case)
    return ok


def run_c07(tier, seed):
    rec = Recorder('C07', 'packages with 1..8 models, 1..5 apertures, permuted parameter tables, SEDs stored in either spectral order, 1..3 filters (one or two '
                          'convolve calls), both formats, memmap on/off; every row of every convolved-flux file compared with an independent convolution of the '
                          'SED it is labelled with; per-file vs cube; fits from either; packages stored in mJy or in Jy; distinct = configuration tuple')
    rng = np.random.default_rng(seed + 7)
    n = 24 if tier == 'quick' else 200
    for t in range(n):
        case = dict(seed=seed, tag='c07', pseed=int(rng.integers(1, 10 ** 6)), n_models=int(rng.integers(1, 9)), n_ap=int(rng.integers(1, 6)), n_wav=int(rng.integers(12, 40)),
                    wav_desc=bool(t % 2), f_desc=bool((t // 2) % 2), nf=int(rng.integers(3, 9)), n_filters=1 + t % 3, memmap=bool((t // 3) % 2), two_calls=bool(t % 4 == 1),
                    fit=bool(t % 3 == 2), sorted_names_reversed=bool(t % 5 == 3), mixed_grids=bool(t % 4 == 2), postprocess_between=bool(t % 8 == 1),
                    stored_unit=('Jy' if t % 6 == 4 else 'mJy'), cube_flags=bool(t % 5 == 1))
        try:
            c07_one(rec, case)
        except Exception as e:
            rec.fail('c07_crash', 'raised %s: %s' % (type(e).__name__, e), case)
        rec.case(key=('c07', case['n_ap'] > 1, case['wav_desc'], case['n_filters'], case['memmap'], case['two_calls'], case['stored_unit']), nontrivial=case['n_models'] > 1,
                 sample=case if t < 2 else None)
    return rec, REPLAY


# ---------------------------------------------------------------------------
# C02 (package reading part) -- combined with the fit part
# ---------------------------------------------------------------------------

def expected_distance_grid(dmin, dmax, step):
    if dmin == dmax:
        return np.array([dmin])
    w = math.log10(dmax) - math.log10(dmin)
    n = 2
    while w / (n - 1) > step * (1 + 1e-12):
        n += 1
    return np.logspace(math.log10(dmin), math.log10(dmax), n)


def c02_pkg(rec, case):
    from sedfitter import Fitter
    from .fit_props import _build_conv_package
    from .io_props import _interp_oracle
    _quiet_log()
    c = unjson_floats(case)
    rng = np.random.default_rng(c['pseed'])
    n_ap, n_f = c['n_ap'], c['n_f']
    spec = pkg.random_spec(rng, n_models=c['n_models'], n_ap=n_ap, n_wav=max(n_f, 6), increasing_in_ap=c['increasing'])
    spec.logd_step = c['step']
    spec.aperture_dependent = True
    widx = sorted(rng.choice(len(spec.wav), size=n_f, replace=False).tolist())
    names = ['F%d' % j for j in range(n_f)]
    theta = np.array(c['theta'])
    dmin, dmax = c['dmin'], c['dmax']
    ext = pkg.simple_extinction()
    ok = True
    with pkg.scratch() as d:
        if c['version'] == 1:
            _build_conv_package(d, spec, names, spec.wav[widx], widx, units_=tuple(c.get('cf_units') or ('mJy', 'au', 'micron')), ap_counts=c.get('ap_counts'))
            fn = names
        else:
            pkg.write_v2(d, spec)
            fn = [spec.wav[i] * u.micron for i in widx]
        try:
            with pkg.quiet():
                ft = Fitter(fn, theta * u.arcsec, d, extinction_law=ext, av_range=(c['lo'], c['hi']), distance_range=([dmin, dmax] * u.kpc).to(getattr(u, c.get('range_unit', 'kpc'))), use_memmap=c['memmap'])
        except Exception as e:
            small = bool(np.any(theta * dmin * 1000. < spec.apertures[0] * (1 - 1e-9)))
            if small:
                return True         # theta*dmin below the smallest aperture is outside the property
            rec.fail('fitter_crash', 'Fitter raised %s: %s' % (type(e).__name__, e), case)
            return False
        m = ft.models
        grid = np.asarray(m.distances.to(u.kpc).value)
        exp = expected_distance_grid(dmin, dmax, c['step'])
        if len(grid) == len(exp) + 1 and not c.get('exact'):
            # the width is a multiple of the step only up to rounding: a float ceil may legitimately add one point (A-REAL)
            ratio = (math.log10(dmax) - math.log10(dmin)) / c['step']
            if abs(ratio - round(ratio)) < 1e-9:
                exp = np.logspace(math.log10(dmin), math.log10(dmax), len(exp) + 1)
        ok &= rec.expect(len(grid) == len(exp) and close(grid, exp, 1e-10), 'distance_grid',
                         'distance grid has %d points %s..%s; the fewest log-uniform points including both ends with spacing <= %g is %d' % (len(grid), grid[0], grid[-1], c['step'], len(exp)), case)
        if not ok:
            return False
        # model fluxes at each distance: interpolated to theta*d, times (1kpc/d)^2
        order = spec.par_order
        got = np.asarray(m.fluxes.to(u.mJy).value, dtype=float)
        tol = 2e-5 if (c['memmap'] and c['version'] == 2) else 2e-6
        for j in range(n_f):
            table = spec.flux[order][:, :, widx[j]]          # (n_models, n_ap)
            r_au = theta[j] * grid * 1000.
            ka = None if (c.get('ap_counts') is None or c['version'] != 1) else int(c['ap_counts'][j])
            e = _interp_oracle(spec.apertures[:ka], table[:, :ka], r_au) / grid[None, :] ** 2
            ok &= rec.expect(close(got[:, :, j], e, tol, 0), 'scaled_interpolated_flux',
                             'filter %d: model flux at the trial distances is not the tabulated flux interpolated to theta*d (clamped above) times (1 kpc/d)^2' % j, case)
        ok &= rec.expect([str(x).strip() for x in m.names] == spec.par_names(), 'names_order', 'model names of the package changed order', case)
        if ok:
            k = np.asarray(ft.av_law)
            src = random_source(rng, n_f, np.array(c['flags']), placeholders=False)
            info = ft.fit(src)
            ok &= check_fit_3d(rec, case, m, np.asarray(got, dtype=float), np.log10(grid), k, src, c['lo'], c['hi'], info, ftol=2e-6 if (c['memmap'] and c['version'] == 2) else 1e-9)
    return ok


def run_c02(tier, seed):
    rec = Recorder('C02', 'aperture-dependent packages (2..8 apertures, fluxes increasing or arbitrary in aperture) in both formats (ready-made convolved files / cube + '
                          'monochromatic wavelengths), memmap on/off, distance ranges incl. dmin==dmax, exact multiples of the log step and ranges pushing theta*d '
                          'beyond the largest aperture; grid, scaling and the fit checked against independent oracles; plus Models.fit on random 3-d grids; '
                          'distinct = (format, n_ap, range kind)')
    replay = dict(REPLAY)
    replay.update(run_c02_fit(rec, tier, seed))
    rng = np.random.default_rng(seed + 22)
    n = 12 if tier == 'quick' else 300
    for t in range(n):
        kind = t % 5
        step = float(rng.choice([0.02, 0.05, 0.1, 0.25]))
        dmin = float(10. ** rng.uniform(-1, 0.5))
        if kind == 0:
            dmax = dmin
        elif kind == 1:
            dmax = dmin * 10. ** (step * int(rng.integers(1, 6)))        # exact multiple of the step
        elif kind == 2:
            dmin, dmax, step = [(1., 10., 0.1), (1., 100., 0.5), (1., 1000., 0.25), (10., 100., 0.125)][(t // 5) % 4]   # exactly representable multiples
        else:
            dmax = dmin * 10. ** rng.uniform(0.01, 1.2)
        n_f = int(rng.integers(1, 4))
        n_ap = int(rng.integers(2, 9))
        # apertures are ~10^1.5..10^5 AU: choose theta so that theta*dmin is above the smallest one, and sometimes theta*dmax beyond the largest
        theta = [float(10. ** rng.uniform(1.8, 2.5 if kind != 3 else 3.0) / (dmin * 1000.)) * 10. for _ in range(n_f)]
        flags = [1] * n_f if n_f < 3 else [1, 1, int(rng.choice([1, 2, 3, 0]))]
        case = dict(seed=seed, tag='c02-pkg', pseed=int(rng.integers(1, 10 ** 6)), n_models=int(rng.integers(1, 6)), n_ap=n_ap, n_f=n_f, step=step, dmin=dmin, dmax=float(dmax),
                    theta=theta, version=1 + t % 2, memmap=bool((t // 2) % 2), increasing=bool(t % 3), lo=0., hi=float(rng.uniform(1, 20)), flags=flags, exact=(kind == 2),
                    range_unit=('pc' if (t % 3 == 1 and kind not in (1, 2)) else 'kpc'),     # the range may be given in any length unit
                    cf_units=(['Jy', 'pc', 'AA'] if t % 4 == 2 else ['mJy', 'au', 'micron']))      # ... and the files stored in any units
        try:
            c02_pkg(rec, case)
        except Exception as e:
            rec.fail('c02_crash', 'raised %s: %s' % (type(e).__name__, e), case)
        rec.case(key=('pkg', case['version'], n_ap, kind, case['memmap'], case['range_unit']), nontrivial=kind != 0, sample=case if t < 2 else None)
    for case in shared_aperture_cases(rng, seed, 4 if tier == 'quick' else 60):
        try:
            c02_pkg(rec, case)
        except Exception as e:
            rec.fail('c02_crash', 'raised %s: %s' % (type(e).__name__, e), case)
        rec.case(key=('pkg-shared-aperture', case['n_f'], tuple(case['ap_counts'])), nontrivial=True)
    return rec, replay


def shared_aperture_cases(rng, seed, count):
    """Per-file packages in which several bands are measured in the SAME angular aperture while their files tabulate
    DIFFERENT sets of apertures (the first band the shortest table), and the distance range pushes theta*d beyond the
    shortest table: every band must still be interpolated in its own table."""
    out = []
    for t in range(count):
        n_ap = int(rng.integers(4, 9))
        n_f = 2 + t % 2
        dmin = float(10. ** rng.uniform(-0.5, 0.2))
        theta = float(10. ** rng.uniform(1.8, 2.3) / (dmin * 1000.)) * 10.
        out.append(dict(seed=seed, tag='c02-pkg', pseed=int(rng.integers(1, 10 ** 6)), n_models=int(rng.integers(2, 6)), n_ap=n_ap, n_f=n_f, step=0.1, dmin=dmin,
                        dmax=float(dmin * 10. ** rng.uniform(0.8, 1.2)), theta=[theta] * n_f, version=1, memmap=False, increasing=True, lo=0., hi=float(rng.uniform(2, 10)),
                        flags=[1] * n_f, exact=False, range_unit='kpc', cf_units=None, ap_counts=[int(rng.integers(2, n_ap - 1))] + [n_ap] * (n_f - 1)))
    return out


# ---------------------------------------------------------------------------
# shared: a small fitted package
# ---------------------------------------------------------------------------

def build_fitted(d, rng, version, n_models=5, n_ap=1, n_wav=8, n_src=3, n_f=3, sel=('N', 3), output_convolved=True, n_data_min=2, permute=True,
                 flags_rows=None, params=None, failed_source=False):
    """Builds a package, a data file and runs the real fit(); returns a dict with everything."""
    from sedfitter import fit
    _quiet_log()
    spec = pkg.random_spec(rng, n_models=n_models, n_ap=n_ap, n_wav=n_wav, permute=permute)
    if params is not None:
        spec.params = params
    (pkg.write_v1 if version == 1 else pkg.write_v2)(d, spec)
    widx = sorted(rng.choice(n_wav, size=n_f, replace=False).tolist())
    if version == 1:
        from sedfitter.convolve import convolve_model_dir
        filters = []
        for j, wi in enumerate(widx):
            w = spec.wav[wi]
            filters.append(_box_filter('F%d' % j, w * 0.9, w * 1.1, w, n=3))
        with pkg.quiet():
            convolve_model_dir(d, filters)
        fnames = ['F%d' % j for j in range(n_f)]
    else:
        fnames = [spec.wav[i] * u.micron for i in widx]
    lines, sources = [], []
    for i in range(n_src):
        flags = flags_rows[i] if flags_rows is not None else rng.choice((1, 1, 1, 4, 2, 3, 0, 9), size=n_f)
        s = random_source(rng, n_f, np.array(flags), placeholders=False)
        s.name = 'src_%02d' % i
        if failed_source and i == n_src - 1 and np.any(s.valid == 1):
            # a measurement that cannot be fitted (negative flux with flag 1): every model gets chi^2 = NaN; the record is
            # still a record, and what is done with it later must leave the NaNs alone
            j_ = int(np.flatnonzero(s.valid == 1)[0])
            s.flux[j_] = -abs(float(s.flux[j_]))
        sources.append(s)
        lines.append(s.to_ascii())
    data = os.path.join(d, 'data.txt')
    with open(data, 'w') as fh:
        fh.write('\n'.join(lines) + '\n')
    out = os.path.join(d, 'out.fitinfo')
    ext = pkg.simple_extinction()
    if int(rng.integers(0, 2)):
        # the law may be tabulated in any length / opacity unit; the file must give back the table AS GIVEN
        from sedfitter.extinction import Extinction
        e2_ = Extinction()
        e2_.wav = ext.wav.to(u.AA)
        e2_.chi = ext.chi.to(u.m ** 2 / u.kg)
        ext = e2_
    kw = dict(extinction_law=ext, av_range=(0., 8.), distance_range=[0.5, 2.] * u.kpc, output_format=sel, output_convolved=output_convolved, n_data_min=n_data_min)
    ap = np.full(n_f, 3.) * u.arcsec
    with pkg.quiet():
        fit(data, fnames, ap, d, out, **kw)
    return dict(spec=spec, fnames=fnames, widx=widx, sources=sources, data=data, out=out, ext=ext, kw=kw, ap=ap, model_dir=d)


def read_all(fn):
    from sedfitter.fit_info import FitInfoFile
    f = FitInfoFile(fn, 'r')
    r = list(f)
    meta = f.meta
    f.close()
    return r, meta


def info_equal(a, b, tol=0.):
    if a.source != b.source:
        return False
    for nm in ('av', 'sc', 'chi2'):
        if not close(getattr(a, nm), getattr(b, nm), tol, tol):
            return False
    if list(a.model_name) != list(b.model_name) or not np.array_equal(np.asarray(a.model_id), np.asarray(b.model_id)):
        return False
    if (a.model_fluxes is None) != (b.model_fluxes is None):
        return False
    return a.model_fluxes is None or close(a.model_fluxes, b.model_fluxes, tol, tol)


# ---------------------------------------------------------------------------
# C10
# ---------------------------------------------------------------------------

def c10_one(rec, case):
    from sedfitter import Fitter, write_parameters, write_parameter_ranges, extract_parameters
    from sedfitter.source import Source
    c = unjson_floats(case)
    rng = np.random.default_rng(c['pseed'])
    sel = tuple(c['sel'])
    ok = True
    with pkg.scratch() as d:
        try:
            fx = build_fitted(d, rng, c['version'], n_models=c['n_models'], n_ap=c['n_ap'], n_src=c['n_src'], n_f=c['n_f'], sel=sel,
                              output_convolved=c['oc'], n_data_min=c['n_data_min'], flags_rows=c['flags_rows'], failed_source=bool(c.get('failed_source')))
        except Exception as e:
            rec.fail('fit_crash', 'fit() raised %s: %s' % (type(e).__name__, e), case)
            return False
        eligible = [s for s in fx['sources'] if int(np.sum((s.valid == 1) | (s.valid == 4))) >= c['n_data_min']]
        if not eligible:
            return True
        try:
            recs, meta = read_all(fx['out'])
        except EOFError:
            recs, meta = [], None
        ok &= rec.expect([r.source.name for r in recs] == [s.name for s in eligible], 'one_record_per_eligible_source',
                         'file has records for %s, expected one record for each of %s (n_data_min=%d, selector=%r)' % ([r.source.name for r in recs], [s.name for s in eligible], c['n_data_min'], sel), case)
        if not ok:
            return False
        with pkg.quiet():
            ft = Fitter(fx['fnames'], fx['ap'], d, extinction_law=fx['ext'], av_range=fx['kw']['av_range'], distance_range=fx['kw']['distance_range'])
        objs = []
        for r, s in zip(recs, eligible):
            s2 = Source.from_ascii(s.to_ascii())
            info = ft.fit(s2)
            if not c['oc']:
                info.model_fluxes = None
            info.keep(sel)
            objs.append(info)
            ok &= rec.expect(info_equal(r, info), 'record_equals_object_interface', 'record of %s differs from Fitter.fit + keep%r' % (s.name, sel), case)
            ok &= rec.expect((r.model_fluxes is not None) == bool(c['oc']), 'fluxes_only_if_requested', 'predicted fluxes present=%s but output_convolved=%s' % (r.model_fluxes is not None, c['oc']), case)
        ok &= rec.expect(meta.model_dir == d and [f.get('name', None) for f in meta.filters] == [(x if isinstance(x, str) else None) for x in fx['fnames']]
                         and close([f['aperture_arcsec'] for f in meta.filters], fx['ap'].value, 0, 0)
                         and close(np.asarray(meta.extinction_law.get_av([1., 10.] * u.micron)), np.asarray(fx['ext'].get_av([1., 10.] * u.micron)), 1e-12)
                         and meta.extinction_law.wav.unit == fx['ext'].wav.unit and meta.extinction_law.chi.unit == fx['ext'].chi.unit
                         and np.array_equal(meta.extinction_law.wav.value, fx['ext'].wav.value) and np.array_equal(meta.extinction_law.chi.value, fx['ext'].chi.value), 'metadata',
                         'shared metadata (model dir, filters, extinction law) not read back unchanged', case)
        # a result exactly as Fitter.fit returned it (not yet cut by any selector, NaN chi^2 of a failed fit included) is left
        # as it was by a post-processing call
        if eligible:
            raw = ft.fit(Source.from_ascii(eligible[-1].to_ascii()))
            before_raw = pickle.dumps((raw.av, raw.sc, raw.chi2, list(raw.model_name), raw.model_id, raw.model_fluxes))
            try:
                with pkg.quiet():
                    write_parameters(raw, os.path.join(d, 'raw.txt'), select_format=sel)
                    write_parameter_ranges([raw], os.path.join(d, 'raw_r.txt'), select_format=sel)
            except Exception as e:
                ok &= rec.fail('postprocess_crash', 'post-processing an unselected result raised %s: %s' % (type(e).__name__, e), case) or False
            ok &= rec.expect(pickle.dumps((raw.av, raw.sc, raw.chi2, list(raw.model_name), raw.model_id, raw.model_fluxes)) == before_raw, 'inputs_unchanged',
                             'a result passed to write_parameters / write_parameter_ranges was modified (chi2 %s)' % (np.asarray(raw.chi2)[:3],), case)
        # reading twice gives the same; three input forms are interchangeable; inputs are left unchanged
        seqs = c['calls']
        outs = {}
        snapshots = [pickle.dumps((o.av, o.sc, o.chi2, list(o.model_name), o.model_id, o.model_fluxes)) for o in objs]
        for form in ('file', 'list', 'object'):
            inp = fx['out'] if form == 'file' else (objs if form == 'list' else objs[0])
            texts = []
            for ci, (fn_name, s_) in enumerate(seqs):
                of = os.path.join(d, 'o_%s_%d.txt' % (form, ci))
                try:
                    with pkg.quiet():
                        if fn_name == 'wp':
                            write_parameters(inp, of, select_format=tuple(s_))
                        elif fn_name == 'wr':
                            write_parameter_ranges(inp, of, select_format=tuple(s_))
                        else:
                            pre = os.path.join(d, 'ex_%s_%d_' % (form, ci))
                            extract_parameters(input=inp, output_prefix=pre, select_format=tuple(s_))
                            of = pre + objs[0].source.name
                    texts.append(open(of).read())
                except Exception as e:
                    rec.fail('postprocess_crash', '%s(%s input, %r) raised %s: %s' % (fn_name, form, s_, type(e).__name__, e), case)
                    return False
            outs[form] = texts
        now = [pickle.dumps((o.av, o.sc, o.chi2, list(o.model_name), o.model_id, o.model_fluxes)) for o in objs]
        ok &= rec.expect(now == snapshots, 'inputs_left_unchanged', 'post-processing functions modified the result objects they were given', case)

        def first_block(txt, form):
            return txt
        ok &= rec.expect(outs['file'] == outs['list'], 'file_equals_list', 'passing the file or the list of results gives different outputs for calls %s' % (seqs,), case)
        if len(objs) == 1:
            ok &= rec.expect(outs['file'] == outs['object'], 'file_equals_object', 'passing the file or the single result object gives different outputs', case)
    return ok


def run_c10(tier, seed):
    rec = Recorder('C10', 'real fit() on data files with 1..6 sources mixing eligible/ineligible lines, n_data_min in 1..3, selectors incl. ones that keep zero fits, '
                          'output_convolved on/off, both formats; records compared with Fitter.fit+keep; metadata; sequences of 1..3 post-processing calls with '
                          'different selectors on file / list / single object, outputs compared and inputs snapshotted; distinct = (format, selector, call sequence)')
    rng = np.random.default_rng(seed + 10)
    n = 16 if tier == 'quick' else 120
    sels = [('N', 3), ('F', 4.), ('C', 40.), ('A', 0), ('N', 0), ('E', 5.), ('D', 2.)]
    callsets = [[('wp', ('N', 1)), ('wr', ('N', 3)), ('wp', ('A', 0))], [('ex', ('N', 2)), ('wp', ('F', 3.))], [('wr', ('A', 0))], [('wp', ('C', 15.)), ('ex', ('A', 0)), ('wr', ('N', 1))]]
    for t in range(n):
        n_f = 3
        n_src = int(rng.integers(1, 7))
        rows = []
        for i in range(n_src):
            k = int(rng.integers(0, 4))
            rows.append([1, 1, 1] if k == 0 else [1, 4, 2] if k == 1 else [1, 0, 9] if k == 2 else [1, 1, 3])
        rows[0] = [1, 1, 1]
        case = dict(seed=seed, tag='c10', pseed=int(rng.integers(1, 10 ** 6)), version=1 + t % 2, n_models=int(rng.integers(2, 7)), n_ap=1 if t % 3 else 3, n_src=n_src, n_f=n_f,
                    sel=list(sels[t % len(sels)]), oc=bool(t % 2), n_data_min=1 + t % 3, flags_rows=rows, calls=[[a, list(b)] for a, b in callsets[t % len(callsets)]], failed_source=bool(t % 4 == 2))
        try:
            c10_one(rec, case)
        except Exception as e:
            import traceback
            rec.fail('c10_crash', 'raised %s: %s' % (type(e).__name__, traceback.format_exc()[-400:]), case)
        rec.case(key=('c10', case['version'], tuple(case['sel']), t % len(callsets), case['oc']), nontrivial=True, sample=case if t < 1 else None)
    return rec, REPLAY


# ---------------------------------------------------------------------------
# C09
# ---------------------------------------------------------------------------

def parse_wp(text):
    """write_parameters output -> {source: (n_data, n_fits, [row dict])}"""
    lines = text.split('\n')
    hdr = lines[1].split()
    out = {}
    cur = None
    for ln in lines[3:]:
        toks = ln.split()
        if not toks:
            continue
        if len(toks) == 3:
            cur = toks[0]
            out[cur] = (int(toks[1]), int(toks[2]), [])
        else:
            out[cur][2].append(dict(zip(hdr, toks)))
    return out


def c09_one(rec, case):
    from sedfitter import write_parameters, write_parameter_ranges, extract_parameters
    c = unjson_floats(case)
    rng = np.random.default_rng(c['pseed'])
    n_models = c['n_models']
    params = dict(('par%d' % (i + 1), 10. ** rng.uniform(-2, 3, n_models) * (1 + np.arange(n_models))) for i in range(c['n_par']))
    ok = True
    with pkg.scratch() as d:
        try:
            fx = build_fitted(d, rng, c['version'], n_models=n_models, n_ap=1, n_src=2, n_f=3, sel=tuple(c['stored']), flags_rows=[[1, 1, 1], [1, 4, 2]], params=params,
                              permute=c['permute'])
        except Exception as e:
            rec.fail('fit_crash', 'fit() raised %s: %s' % (type(e).__name__, e), case)
            return False
        spec = fx['spec']
        recs, meta = read_all(fx['out'])
        sel = tuple(c['sel'])
        additional = {}
        for nm in c['additional']:
            # (users give whatever numbers they have: Python ints for some models, floats for others)
            additional[nm] = dict((spec.names[i], (100 * (ord(nm[0]) % 7) + i) if i % 2 == 0 else float(100 * (ord(nm[0]) % 7) + i) + 0.5) for i in range(n_models))
        forms = {'file': fx['out'], 'list': recs, 'object': recs[0]}
        inp = forms[c['form']]
        shown = recs if c['form'] != 'object' else recs[:1]
        wp, wr, pre = os.path.join(d, 'wp.txt'), os.path.join(d, 'wr.txt'), os.path.join(d, 'ex_')
        try:
            with pkg.quiet():
                write_parameters(inp, wp, select_format=sel, additional=additional)
                write_parameter_ranges(inp, wr, select_format=sel, additional=additional)
                extract_parameters(input=inp, output_prefix=pre, select_format=sel)
        except Exception as e:
            rec.fail('listing_crash', 'listing functions raised %s: %s (parameter file %s)' % (type(e).__name__, e, 'permuted' if c['permute'] else 'in order'), case)
            return False
        par = dict((spec.names[i], dict((k, v[i]) for k, v in params.items())) for i in range(n_models))
        parsed = parse_wp(open(wp).read())
        wr_lines = [ln for ln in open(wr).read().split('\n')[3:] if ln.strip()]
        wr_hdr = [x for x in open(wr).read().split('\n')[0].split()]
        for ri, r in enumerate(shown):
            # expected selection
            import copy
            rr = copy.deepcopy(r)
            rr.keep(sel)
            nd = int(np.sum((r.source.valid == 1) | (r.source.valid == 4)))
            got = parsed.get(r.source.name)
            ok &= rec.expect(got is not None and got[0] == nd and got[1] == len(rr.chi2) and len(got[2]) == len(rr.chi2), 'n_data_n_fits',
                             'write_parameters: n_data/n_fits/rows of %s are %s, expected n_data=%d n_fits=%d' % (r.source.name, None if got is None else (got[0], got[1], len(got[2])), nd, len(rr.chi2)), case)
            if not ok:
                return False
            for i, row in enumerate(got[2]):
                nm = str(rr.model_name[i]).strip()
                ok &= rec.expect(row['model_name'] == nm, 'listing_follows_ranking', 'fit %d of %s lists model %s, the fit names %s' % (i + 1, r.source.name, row['model_name'], nm), case)
                for k in params:
                    ok &= rec.expect(abs(float(row[k]) - par[nm][k]) <= 6e-4 * abs(par[nm][k]), 'parameters_of_named_model',
                                     'write_parameters: %s of fit %d (%s) is %s, the parameter file says %.4g' % (k, i + 1, nm, row[k], par[nm][k]), case)
                for k in additional:
                    ok &= rec.expect(abs(float(row[k.lower()]) - additional[k][nm]) <= 6e-4 * max(1., abs(additional[k][nm])), 'additional_by_name',
                                     'additional parameter %s of fit %d (%s) is %s, expected %g (column under the wrong heading?)' % (k, i + 1, nm, row[k.lower()], additional[k][nm]), case)
            # ranges
            toks = wr_lines[ri].split()
            ok &= rec.expect(toks[0] == r.source.name and int(toks[1]) == nd and int(toks[2]) == len(rr.chi2), 'ranges_header', 'write_parameter_ranges: wrong source/n_data/n_fits', case)
            cols = ['chi2', 'av', 'scale'] + [k for k in params] + [k.lower() for k in additional]
            if len(rr.chi2) > 0 and ok:
                vals = toks[3:]
                for ci, k in enumerate(cols):
                    if k == 'chi2':
                        arr = np.asarray(rr.chi2)
                    elif k == 'av':
                        arr = np.asarray(rr.av)
                    elif k == 'scale':
                        arr = np.asarray(rr.sc)
                    elif k in params:
                        arr = np.array([par[str(nm).strip()][k] for nm in rr.model_name])
                    else:
                        kk = [a for a in additional if a.lower() == k][0]
                        arr = np.array([additional[kk][str(nm).strip()] for nm in rr.model_name])
                    mn, best, mx = [float(x) for x in vals[3 * ci:3 * ci + 3]]
                    e = (np.nanmin(arr), arr[0], np.nanmax(arr))
                    ok &= rec.expect(all(abs(a - b) <= 6e-4 * max(abs(b), 1e-30) + 1e-30 for a, b in zip((mn, best, mx), e)), 'ranges_min_best_max',
                                     'write_parameter_ranges: %s min/best/max = %s, expected %s over the selected fits' % (k, (mn, best, mx), tuple(float(x) for x in e)), case)
            # extract_parameters
            ex = open(pre + r.source.name).read().split('\n')
            hdr = ex[0].split()
            rows = [ln.split() for ln in ex[1:] if ln.strip()]
            ok &= rec.expect(len(rows) == len(rr.chi2), 'extract_rows', 'extract_parameters wrote %d rows, %d fits selected' % (len(rows), len(rr.chi2)), case)
            for i, row in enumerate(rows[:len(rr.chi2)]):
                nm = str(rr.model_name[i]).strip()
                rd = dict(zip(hdr, row))
                ok &= rec.expect(rd['MODEL_NAME'].strip() == nm[:11] or rd['MODEL_NAME'].strip() == nm, 'extract_name', 'extract_parameters row %d names %s, fit names %s' % (i, rd['MODEL_NAME'], nm), case)
                for k in params:
                    ok &= rec.expect(abs(float(rd[k]) - par[nm][k]) <= 6e-4 * abs(par[nm][k]), 'extract_parameters_of_named_model',
                                     'extract_parameters: %s of fit %d (%s) is %s, parameter file says %.4g' % (k, i + 1, nm, rd[k], par[nm][k]), case)
    return ok


def run_c09(tier, seed):
    rec = Recorder('C09', 'real fit() results (2 sources) x parameter files with 1..4 numeric columns in permuted or original row order x selectors keeping 0..all fits '
                          '(stored results themselves trimmed or complete) x 0..2 additional-parameter dictionaries in non-alphabetical insertion order x input as '
                          'file / list / single object; the three text outputs parsed back and compared with the named model\'s row; distinct = configuration')
    rng = np.random.default_rng(seed + 9)
    n = 20 if tier == 'quick' else 160
    sels = [('N', 1), ('A', 0), ('N', 3), ('C', 1e-9), ('F', 3.), ('N', 50)]
    adds = [[], ['zeta', 'alpha'], ['beta'], ['zeta', 'alpha']]
    for t in range(n):
        case = dict(seed=seed, tag='c09', pseed=int(rng.integers(1, 10 ** 6)), version=1 + t % 2, n_models=int(rng.integers(3, 8)), n_par=1 + t % 4, permute=bool(t % 3 != 2),
                    stored=list(('N', 4) if t % 2 else ('A', 0)), sel=list(sels[t % len(sels)]), additional=adds[t % 4], form=('file', 'list', 'object')[t % 3])
        try:
            c09_one(rec, case)
        except Exception as e:
            import traceback
            rec.fail('c09_crash', 'raised %s' % traceback.format_exc()[-500:], case)
        rec.case(key=('c09', case['version'], tuple(case['sel']), case['permute'], len(case['additional']), case['form'], case['n_par']), nontrivial=True, sample=case if t < 1 else None)
    return rec, REPLAY


# ---------------------------------------------------------------------------
# C08
# ---------------------------------------------------------------------------

def c08_one(rec, case):
    from sedfitter import fit, write_parameters
    from sedfitter.convolve import convolve_model_dir
    _quiet_log()
    c = unjson_floats(case)
    rng = np.random.default_rng(c['pseed'])
    n_models, n_ap, version = c['n_models'], c['n_ap'], c['version']
    m_ = c['m'] % n_models
    if c.get('mixed') and version == 1:
        m_ = 1 + c['m'] % (n_models - 1)
    n_f = 4
    # non-degenerate models: different spectral shapes
    n_wav = 30
    wav = np.logspace(-0.5, 2.2, n_wav)
    shapes = np.array([(wav / 10.) ** rng.uniform(-2, 2) * (1 + 0.5 * np.sin(np.log(wav) * rng.uniform(1, 3) + i)) for i in range(n_models)])
    flux = shapes[:, None, :] * (np.cumsum(rng.uniform(0.5, 1.5, n_ap))[None, :, None] if n_ap > 1 else 1.)
    spec = pkg.Spec(['mod_%s' % chr(97 + i) for i in range(n_models)], wav if not c['wav_desc'] else wav[::-1], None if n_ap == 1 else np.logspace(2, 5, n_ap),
                    flux if not c['wav_desc'] else flux[:, :, ::-1], 0.05 * (flux if not c['wav_desc'] else flux[:, :, ::-1]),
                    par_order=list(rng.permutation(n_models)) if (c['permute'] and version == 1) else (list(rng.permutation(n_models)) if c['permute'] else None))
    spec.logd_step = 0.125        # log10(10/1)/0.125 = 8 exactly: the trial distances are exactly 9 points
    if c.get('mixed') and version == 1:
        # per-file package whose SED files alternate between two wavelength grids of the same size and end
        # points but different interior nodes; each model is tabulated on its own grid
        t_ = np.linspace(0., 1., n_wav)
        wb = wav[0] * (wav[-1] / wav[0]) ** (t_ ** 1.5)
        wb[0], wb[-1] = wav[0], wav[-1]
        wavs, fl = [], []
        for i in range(n_models):
            # the planted model is never the first file read, and sits on the other grid than that one
            wi = wb if (i == m_ or (i > 0 and i % 3 == 0)) else wav
            p_ = np.log(shapes[i][-1] / shapes[i][0]) / np.log(wav[-1] / wav[0])
            fi = (wi / 10.) ** p_ * (1.3 + 0.5 * np.sin(np.log(wi) * (1. + 0.37 * i) + i))
            fi = fi[None, :] * (np.cumsum(np.linspace(0.6, 1.4, n_ap))[:, None] if n_ap > 1 else 1.)
            wavs.append(wi if not c['wav_desc'] else wi[::-1])
            fl.append(fi if not c['wav_desc'] else fi[:, ::-1])
        spec.wavs = wavs
        spec.flux = np.array(fl)
        spec.error = 0.05 * spec.flux
    centres = [1.5, 6., 20., 70.]
    filters = [_box_filter('F%d' % j, cw * 0.8, cw * 1.2, cw, n=4, desc=bool(j % 2)) for j, cw in enumerate(centres)]
    m = m_
    av0 = c['av0']
    ext = pkg.simple_extinction()
    k = np.asarray(ext.get_av(np.array(centres) * u.micron))
    ok = True
    with pkg.scratch() as d:
        (pkg.write_v1 if version == 1 else pkg.write_v2)(d, spec)
        with pkg.quiet():
            convolve_model_dir(d, filters, memmap=False)
        ef = [expected_convolved(spec, f)[0] for f in filters]      # each (n_models, n_ap)
        dr = [1., 10.] * u.kpc
        theta = 3.
        if n_ap > 1:
            grid = np.logspace(0, 1, 9)
            d0 = grid[c['d_idx'] % len(grid)]
            from .io_props import _interp_oracle
            mflux = np.array([_interp_oracle(spec.apertures, ef[j][m], [theta * d0 * 1000.])[0] / d0 ** 2 for j in range(n_f)])
            sc0 = math.log10(d0)
        else:
            sc0 = c['sc0']
            mflux = np.array([ef[j][m, 0] for j in range(n_f)]) * 10. ** (-2 * sc0)
        rel = c['rel']
        # the fitter works with log10 F - 0.5 (sigma/F)^2 / ln 10 (data-format page): synthesise the photometry so
        # that THIS quantity is the model's, otherwise a large relative error biases A_V / scale by design
        obs = mflux * 10. ** (av0 * k) * 10. ** (0.5 * rel ** 2 / math.log(10.))
        line = pkg.make_source('planted', [1] * n_f, obs, obs * rel).to_ascii()
        # precision of to_ascii is 4 digits: synthesise from the printed numbers to keep chi2 ~ 0 meaningful
        data, out, txt = os.path.join(d, 'data.txt'), os.path.join(d, 'fits.out'), os.path.join(d, 'pars.txt')
        other = pkg.make_source('other', [1] * n_f, obs[::-1] * 1.3, obs[::-1] * 0.1).to_ascii()
        with open(data, 'w') as fh:
            fh.write((other + '\n' + line + '\n') if c['second'] else (line + '\n'))
        # the planted A_V may sit exactly ON a limit of the allowed range (the rounding of the data file then decides
        # whether the fit is clamped there: either way the planted model must be recovered)
        av_range = {'hi': (0., av0), 'lo': (av0, 10.)}.get(c.get('limit'), (0., 10.))
        try:
            with pkg.quiet():
                fit(data, [f.name for f in filters], np.full(n_f, theta) * u.arcsec, d, out, extinction_law=ext, av_range=av_range, distance_range=dr,
                    output_format=('N', 3), n_data_min=2)
                write_parameters(out, txt, select_format=('N', 1))
        except Exception as e:
            rec.fail('pipeline_crash', 'pipeline raised %s: %s' % (type(e).__name__, e), case)
            return False
        parsed = parse_wp(open(txt).read())
        row = parsed['planted'][2][0]
        nm = spec.names[m]
        ok &= rec.expect(row['model_name'] == nm, 'planted_ranked_first', 'planted %s (A_V=%.2f) but %s is ranked first (chi2=%s)' % (nm, av0, row['model_name'], row['chi2']), case)
        sigma = rel / math.log(10.)
        # the data file carries 4 significant digits: log10 flux is off by up to 2.2e-4
        ok &= rec.expect(float(row['chi2']) <= 2e-3 + n_f * (4e-4 / sigma) ** 2, 'chi2_near_zero', 'planted model has chi2=%s' % row['chi2'], case)
        ok &= rec.expect(abs(float(row['av']) - av0) <= 0.03 + 0.02 * av0, 'av_recovered', 'A_V reported %s, planted %.3f' % (row['av'], av0), case)
        ok &= rec.expect(abs(float(row['scale']) - sc0) <= 0.01, 'scale_recovered', 'scale reported %s, planted %.3f' % (row['scale'], sc0), case)
        for kk, v in spec.params.items():
            ok &= rec.expect(abs(float(row[kk]) - v[m]) <= 6e-4 * abs(v[m]), 'own_parameter_row', 'parameter %s printed next to %s is %s, its own row says %.4g' % (kk, nm, row[kk], v[m]), case)
    return ok


def run_c08(tier, seed):
    rec = Recorder('C08', 'planted (model, A_V, distance/scale) through convolve_model_dir -> fit -> write_parameters on synthetic non-degenerate packages: both formats, '
                          '1 or 3 apertures (distance-dependent), permuted parameter tables, per-file packages mixing two wavelength grids of equal size and end points, SEDs in either spectral order, filters in either storage order, relative '
                          'errors 1e-3..0.3, planted source second in the data file or alone; distinct = (format, mode, m)')
    rng = np.random.default_rng(seed + 8)
    n = 16 if tier == 'quick' else 150
    for t in range(n):
        case = dict(seed=seed, tag='c08', pseed=int(rng.integers(1, 10 ** 6)), version=1 + t % 2, n_models=int(rng.integers(2, 7)), n_ap=1 if (t // 2) % 2 == 0 else 3,
                    m=int(rng.integers(0, 8)), av0=float(rng.uniform(0.2, 6.)), sc0=float(rng.uniform(-0.5, 0.8)), d_idx=int(rng.integers(0, 9)), rel=float(10. ** rng.uniform(-2, -0.5)),
                    permute=bool(t % 3), wav_desc=bool(t % 2), second=bool(t % 4 < 2), mixed=bool(t % 4 == 2 or t % 8 == 0),
                    limit=[None, 'hi', 'lo', None, 'hi'][t % 5])
        try:
            c08_one(rec, case)
        except Exception as e:
            import traceback
            rec.fail('c08_crash', 'raised %s' % traceback.format_exc()[-500:], case)
        rec.case(key=('c08', case['version'], case['n_ap'], case['m'] % case['n_models'], case['permute']), nontrivial=True, sample=case if t < 1 else None)
    return rec, REPLAY


# ---------------------------------------------------------------------------
# C16
# ---------------------------------------------------------------------------

def c16_one(rec, case):
    from sedfitter.convolve import convolve_model_dir_monochromatic
    from sedfitter.convolved_fluxes import ConvolvedFluxes
    _quiet_log()
    c = unjson_floats(case)
    rng = np.random.default_rng(c['pseed'])
    n_wav, n_ap, n_models = c['n_wav'], c['n_ap'], c['n_models']
    spec = pkg.random_spec(rng, n_models=n_models, n_ap=n_ap, n_wav=n_wav, permute=True, wav_desc=c['wav_desc'])
    if c.get('ragged_names'):
        # model names of different lengths, the alphabetically first one the shortest
        spec.names = ['%s%s' % (chr(ord('a') + i), str(i + 1) * (i + 1)) for i in range(n_models)]
    wd = np.sort(spec.wav)[::-1]            # files are numbered in decreasing wavelength (increasing frequency)
    ok = True
    with pkg.scratch() as d:
        pkg.write_v1(d, spec)
        chunk = c['chunk']
        max_ram = chunk * (4. * 2. * n_models * n_ap) / 1024. ** 3 * 1.0000001
        kw = {}
        if c['window'] is not None:
            kw = dict(wav_min=c['window'][0] * u.micron, wav_max=c['window'][1] * u.micron)
            inside = [j for j in range(n_wav) if c['window'][0] < wd[j] < c['window'][1]]
            maybe = [j for j in range(n_wav) if c['window'][0] <= wd[j] <= c['window'][1]]
            if not maybe:
                return True
        else:
            inside = maybe = list(range(n_wav))
        try:
            with pkg.quiet():
                t = convolve_model_dir_monochromatic(d, max_ram=max_ram, **kw)
                if c.get('second_run') and n_models > 1:
                    # the same directory used again after its parameter table was rewritten in another row order
                    spec.par_order = list(spec.par_order[1:]) + [spec.par_order[0]]
                    pkg._write_params(d, spec, spec.par_order)
                    t = convolve_model_dir_monochromatic(d, max_ram=max_ram, overwrite=True, **kw)
        except Exception as e:
            if not inside:
                return True
            rec.fail('mono_crash', 'convolve_model_dir_monochromatic (chunk %d, window %s) raised %s: %s' % (chunk, c['window'], type(e).__name__, e), case)
            return False
        files = sorted(os.path.basename(x)[:-5] for x in glob.glob(os.path.join(d, 'convolved', 'MO*.fits')))
        got = [int(x[2:]) - 1 for x in files]
        ok &= rec.expect(set(inside) <= set(got) <= set(maybe), 'one_file_per_in_window_wavelength',
                         'chunk size %d, window %s: wrote files for wavelength indices %s, expected %s' % (chunk, c['window'], got, inside if inside == maybe else (inside, maybe)), case)
        named = [str(x).strip() for x in t['filter'] if str(x).strip()]
        named = [x.decode() if isinstance(x, bytes) else x for x in named]
        ok &= rec.expect(sorted(named) == files, 'table_names_files', 'returned table names %s, files written %s' % (named, files), case)
        order = spec.par_order
        src_idx = dict((j, int(np.argmin(np.abs(spec.wav - wd[j])))) for j in got)
        for j in got:
            cf = ConvolvedFluxes.read(os.path.join(d, 'convolved', 'MO%03d.fits' % (j + 1)))
            ok &= rec.expect([str(x).strip() for x in cf.model_names] == spec.par_names(), 'mono_rows_order', 'MO%03d: rows not in parameter-table order' % (j + 1), case)
            ok &= rec.expect(close(cf.flux.to(u.mJy).value, spec.flux[order][:, :, src_idx[j]], 2e-6) and close(cf.error.to(u.mJy).value, spec.error[order][:, :, src_idx[j]], 2e-6),
                             'mono_rows_values', 'MO%03d: rows do not hold each model\'s SED flux/error at that wavelength for every aperture' % (j + 1), case)
            ok &= rec.expect(abs(cf.central_wavelength.to(u.micron).value - wd[j]) <= 2e-6 * wd[j], 'mono_wavelength', 'MO%03d: wrong wavelength' % (j + 1), case)
    return ok


def c16_cube(rec, case):
    from sedfitter import Fitter
    _quiet_log()
    c = unjson_floats(case)
    rng = np.random.default_rng(c['pseed'])
    spec = pkg.random_spec(rng, n_models=3, n_ap=1, n_wav=c['n_wav'], permute=False)
    wav = np.array(c['wav'])
    spec.wav = wav
    req = c['req']
    with pkg.scratch() as d:
        pkg.write_v2(d, spec)
        with pkg.quiet():
            ft = Fitter([req * u.micron], [1.] * u.arcsec, d, extinction_law=pkg.simple_extinction(), av_range=(0., 1.), distance_range=[1., 2.] * u.kpc, use_memmap=False)
        got = np.asarray(ft.models.fluxes.to(u.mJy).value)[:, 0]
    near = int(np.argmin(np.abs(wav - req)))
    return rec.expect(close(got, spec.flux[:, 0, near], 2e-6), 'nearest_wavelength_slice',
                      'requested %.4g micron on grid %s: the slice returned is not the one at the nearest tabulated wavelength (%.4g)' % (req, jsonable(wav), wav[near]), case)


def run_c16(tier, seed):
    nmax = 5 if tier == 'quick' else 8
    rec = Recorder('C16', 'EXHAUSTIVE for n_wav=2..%d: every chunk size 1..n_wav (via max_ram) x every window whose ends fall between or on tabulated wavelengths '
                          '(incl. single-wavelength windows and the default) for per-file packages with 1..3 apertures, 1..5 models; files read back; plus cube '
                          'packages with a wavelength instead of a filter name (requests between geometric and arithmetic means of neighbours); '
                          'distinct = (n_wav, chunk, window)' % nmax)
    rng = np.random.default_rng(seed + 16)
    for n_wav in range(2, nmax + 1):
        base = pkg.random_spec(np.random.default_rng(seed + 1600 + n_wav), n_models=2, n_ap=1, n_wav=n_wav)
        ws = np.sort(base.wav)
        cuts = [ws[0] * 0.5] + [math.sqrt(ws[i] * ws[i + 1]) for i in range(n_wav - 1)] + [ws[-1] * 2.]
        windows = [None] + [(cuts[i], cuts[j]) for i in range(len(cuts)) for j in range(i + 1, len(cuts))]
        if tier == 'quick':
            windows = windows[:1] + windows[1::max(1, len(windows) // 6)]
        for chunk in range(1, n_wav + 1):
            for w in windows:
                case = dict(seed=seed, tag='c16', pseed=seed + 1600 + n_wav, n_wav=n_wav, n_ap=1 + (chunk + n_wav) % 3, n_models=1 + (chunk * 2 + n_wav) % 5, chunk=chunk,
                            window=None if w is None else [float(w[0]), float(w[1])], wav_desc=bool(n_wav % 2),
                            ragged_names=bool((chunk + n_wav) % 4 == 1), second_run=bool((chunk + 2 * n_wav) % 5 == 2))
                try:
                    c16_one(rec, case)
                except Exception as e:
                    import traceback
                    rec.fail('c16_crash', 'raised %s' % traceback.format_exc()[-400:], case)
                rec.case(key=('c16', n_wav, chunk, None if w is None else (round(w[0], 6), round(w[1], 6))), nontrivial=chunk < n_wav or w is not None,
                         sample=case if (n_wav, chunk) == (3, 2) and w is None else None)
    rec.exhaustive = tier != 'quick'
    for t in range(6 if tier == 'quick' else 60):
        wav = [0.5, 1., 3., 9., 40.][:int(rng.integers(2, 6))]
        i = int(rng.integers(0, len(wav) - 1))
        gm, am = math.sqrt(wav[i] * wav[i + 1]), 0.5 * (wav[i] + wav[i + 1])
        req = float([rng.uniform(gm * 1.02, am * 0.98), rng.uniform(wav[i] * 1.01, gm * 0.98), rng.uniform(am * 1.02, wav[i + 1] * 0.99), wav[i]][t % 4])
        case = dict(seed=seed, tag='c16-cube', pseed=int(rng.integers(1, 10 ** 6)), n_wav=len(wav), wav=wav, req=req)
        try:
            c16_cube(rec, case)
        except Exception as e:
            rec.fail('c16_cube_crash', 'raised %s: %s' % (type(e).__name__, e), case)
        rec.case(key=('cube', len(wav), t % 4), nontrivial=True)
    return rec, REPLAY


# ---------------------------------------------------------------------------
# C18
# ---------------------------------------------------------------------------

def c18_one(rec, case):
    from sedfitter import filter_output
    from sedfitter.fit_info import FitInfoFile
    from .io_props import _make_records, _fitinfo_equal
    c = unjson_floats(case)
    rng = np.random.default_rng(c['pseed'])
    k = c['k']
    recs = _make_records(rng, k, c['with_fluxes'], sizes=[int(x) for x in rng.integers(1, 5, k)])
    flagsets = ([1, 1], [1, 2], [1, 9], [4, 0], [1, 3])
    for i, r in enumerate(recs):
        r.chi2 = np.sort(np.round(rng.uniform(0.5, 20., len(r.chi2)), 2) + 0.003)
        fl = flagsets[int(rng.integers(0, len(flagsets)))]
        # (sources may share a name: the same object observed at two epochs, or unnamed sources)
        r.source = pkg.make_source('s%02d' % (i // 2 if c.get('dup_names') else i), fl, [1., 2.], [.1, .2])
    crit, thr = c['crit'], c['thr']
    ok = True
    with pkg.scratch() as d:
        relative = bool(c.get('relative')) and c['form'] == 'file' and not c['auto'] and not c.get('stale')
        if relative:
            os.makedirs(os.path.join(d, 'run1'))
        fn = os.path.join(d, 'run1', 'in.fitinfo') if relative else os.path.join(d, 'in.fitinfo')
        f = FitInfoFile(fn, 'w')
        for r in recs:
            f.write(r)
        f.close()
        inp = fn if c['form'] == 'file' else list(read_all(fn)[0])
        kw = {crit: thr}
        good_fn, bad_fn = (fn + '_good', fn + '_bad') if (c['auto'] and c['form'] == 'file') else (os.path.join(d, 'G'), os.path.join(d, 'B'))
        if c.get('stale'):
            # output names reused from an earlier run with another threshold
            filter_output(fn, output_good=good_fn, output_bad=bad_fn, **{crit: 1e9 if c['stale'] == 'allgood' else -1e9}) if not (c['auto'] and c['form'] == 'file') else filter_output(fn, **{crit: 1e9 if c['stale'] == 'allgood' else -1e9})
        try:
            if c['auto'] and c['form'] == 'file':
                filter_output(inp, **kw)
            elif relative:
                # the input named with a directory part, the outputs by bare relative names: they belong where the caller stands
                here = os.getcwd()
                try:
                    os.chdir(d)
                    filter_output(os.path.join('run1', 'in.fitinfo'), output_good='G', output_bad='B', **kw)
                finally:
                    os.chdir(here)
            else:
                filter_output(inp, output_good=good_fn, output_bad=bad_fn, **kw)
        except Exception as e:
            rec.fail('filter_output_crash', 'filter_output(%s input) raised %s: %s' % (c['form'], type(e).__name__, e), case)
            return False

        def rd(p):
            if not os.path.exists(p) or os.path.getsize(p) == 0:
                return []
            return read_all(p)[0]
        good, bad = rd(good_fn), rd(bad_fn)
        exp_good, exp_bad = [], []
        for r in recs:
            nd = int(np.sum((r.source.valid == 1) | (r.source.valid == 4)))
            q = r.chi2[0] if crit == 'chi' else r.chi2[0] / nd
            (exp_good if q < thr else exp_bad).append(r)
        ok &= rec.expect([g.source.name for g in good] == [r.source.name for r in exp_good] and [b.source.name for b in bad] == [r.source.name for r in exp_bad], 'partition',
                         '%s=%g: good file holds %s, bad file holds %s; expected good=%s bad=%s' % (crit, thr, [g.source.name for g in good], [b.source.name for b in bad],
                                                                                              [r.source.name for r in exp_good], [r.source.name for r in exp_bad]), case)
        if ok:
            ok &= rec.expect(all(_fitinfo_equal(a, b) for a, b in zip(good, exp_good)) and all(_fitinfo_equal(a, b) for a, b in zip(bad, exp_bad)), 'records_unchanged',
                             'records were altered on their way to the output files', case)
    return ok


def run_c18(tier, seed):
    rec = Recorder('C18', 'input files with 1..10 sources (written by the real FitInfoFile), best chi2 never equal to the threshold, n_data 1..2 with limit/unused/plot-only '
                          'points, criterion chi / cpd, explicit or automatic output names, file or list input, output names possibly reused from an earlier run in which '
                          'every source was good or bad; outputs read back; distinct = (k, criterion, form, auto, stale)')
    rng = np.random.default_rng(seed + 18)
    n = 40 if tier == 'quick' else 1000
    for t in range(n):
        case = dict(seed=seed, tag='c18', pseed=int(rng.integers(1, 10 ** 6)), k=int(rng.integers(1, 11)), with_fluxes=bool(t % 2), crit=('chi', 'cpd')[(t // 2) % 2],
                    thr=float(np.round(rng.uniform(0., 12.), 1) + 0.05) if t % 7 else float([1e9, -1.][t % 2]), form=('file', 'list')[(t // 4) % 2], auto=bool((t // 8) % 2),
                    stale=[None, 'allgood', 'allbad'][t % 3], dup_names=bool(t % 5 == 2), relative=bool(t % 3 == 0))
        try:
            c18_one(rec, case)
        except Exception as e:
            import traceback
            rec.fail('c18_crash', 'raised %s' % traceback.format_exc()[-400:], case)
        rec.case(key=('c18', case['k'], case['crit'], case['form'], case['auto'], case['stale']), nontrivial=case['k'] > 1, sample=case if t < 2 else None)
    return rec, REPLAY


# ---------------------------------------------------------------------------
# C17
# ---------------------------------------------------------------------------

def c17_one(rec, case):
    import matplotlib
    matplotlib.use('Agg')
    from sedfitter import Fitter, plot
    from sedfitter.fit_info import FitInfoFile
    _quiet_log()
    c = unjson_floats(case)
    rng = np.random.default_rng(c['pseed'])
    n_ap, n_f = c['n_ap'], c['n_f']
    spec = pkg.random_spec(rng, n_models=c['n_models'], n_ap=n_ap, n_wav=c['n_wav'], permute=False, wav_lo=0.3, wav_hi=300.)
    if c.get('names_unsorted'):
        spec.names = list(reversed(spec.names))        # the cube lists its models in non-alphabetical order
    widx = sorted(rng.choice(len(spec.wav), size=n_f, replace=False).tolist())
    if c['filter_order_desc']:
        widx = widx[::-1]
    theta = np.array(c['theta'][:n_f])
    ext = pkg.simple_extinction()
    if c.get('ext_unit') == 'AA':
        from sedfitter.extinction import Extinction
        e2 = Extinction()
        e2.wav = ext.wav.to(u.AA)
        e2.chi = ext.chi
        ext = e2
    ok = True
    with pkg.scratch() as d:
        if c.get('ap_desc') and spec.apertures is not None and len(spec.apertures) > 1:
            # the same cube with its apertures (and the planes that go with them) stored from the largest to the smallest
            import copy as _copy
            sw = _copy.copy(spec)
            sw.apertures = spec.apertures[::-1].copy()
            sw.flux, sw.error = spec.flux[:, ::-1, :].copy(), spec.error[:, ::-1, :].copy()
            pkg.write_v2(d, sw)
        else:
            pkg.write_v2(d, spec)
        with pkg.quiet():
            fu_ = getattr(u, c.get('filt_unit', 'micron'))          # monochromatic filters may be given in any length unit
            ft = Fitter([(spec.wav[i] * u.micron).to(fu_) for i in widx], theta * u.arcsec, d, extinction_law=ext, av_range=(0., 6.), distance_range=[0.3, 3.] * u.kpc, use_memmap=False)
        obs = spec.flux[c['m'] % c['n_models'], -1, widx] * 10. ** (1.5 * np.asarray(ft.av_law))
        src = pkg.make_source('s1', [1] * n_f, obs, obs * 0.1)
        info = ft.fit(src)
        nsel = c['nsel']
        if c['as_file']:
            fn = os.path.join(d, 'o.fitinfo')
            f = FitInfoFile(fn, 'w')
            f.write(info)
            f.close()
            inp = fn
        else:
            inp = info
        for mode in c['modes']:
            try:
                with pkg.quiet():
                    figs = plot(inp, select_format=('N', nsel), sed_type=mode, memmap=False)
            except Exception as e:
                rec.fail('plot_crash', 'plot(sed_type=%r, %d apertures, %s input) raised %s: %s' % (mode, n_ap, 'file' if c['as_file'] else 'object', type(e).__name__, str(e)[:150]), case)
                ok = False
                continue
            segs = figs['s1']['lines'].get_segments()
            n_sel = min(nsel, c['n_models'])
            uniq = len(np.unique(theta))
            shown = {'interp': 1, 'largest': 1, 'largest+smallest': 2, 'all': uniq}[mode]
            ok &= rec.expect(len(segs) == n_sel * shown, 'number_of_curves', 'sed_type=%s: %d curves drawn, expected %d fits x %d apertures' % (mode, len(segs), n_sel, shown), case)
            if len(segs) != n_sel * shown:
                continue
            # best fit drawn last; each curve passes through the stored predicted flux at the fitted wavelengths
            wav_f = spec.wav[widx]
            for r in range(n_sel):
                block = segs[(n_sel - 1 - r) * shown:(n_sel - r) * shown]       # fits are drawn worst first
                pred = 10. ** (np.asarray(info.model_fluxes[r]) - 26. + np.log10(3.e8 / (wav_f * 1.e-6)))
                if mode == 'interp':
                    seg = block[0]
                    for j in range(n_f):
                        k_ = int(np.argmin(np.abs(seg[:, 0] - wav_f[j])))
                        okj = abs(seg[k_, 1] - pred[j]) <= 3e-3 * pred[j]
                        ok &= rec.expect(okj, 'curve_through_predicted', 'sed_type=interp, fit %d: curve at %.4g micron is %.6g, stored predicted flux %.6g' % (r + 1, wav_f[j], seg[k_, 1], pred[j]), case)
                elif n_ap == 1 or mode in ('largest', 'all', 'largest+smallest'):
                    # the curve drawn for a filter's own aperture passes through that filter's predicted flux
                    aps = {'largest': [theta.max()], 'largest+smallest': [theta.min(), theta.max()], 'all': sorted(np.unique(theta))}[mode]
                    for j in range(n_f):
                        if theta[j] in aps:
                            seg = block[aps.index(theta[j])]
                            k_ = int(np.argmin(np.abs(seg[:, 0] - wav_f[j])))
                            ok &= rec.expect(abs(seg[k_, 1] - pred[j]) <= 3e-3 * pred[j], 'curve_through_predicted',
                                             'sed_type=%s, fit %d: curve for aperture %.3g" at %.4g micron is %.6g, stored predicted flux %.6g' % (mode, r + 1, theta[j], wav_f[j], seg[k_, 1], pred[j]), case)
            if n_sel >= 2 and mode == 'interp':
                # last drawn curve belongs to the best fit
                last = segs[-1]
                pred0 = 10. ** (np.asarray(info.model_fluxes[0]) - 26. + np.log10(3.e8 / (wav_f * 1.e-6)))
                k_ = int(np.argmin(np.abs(last[:, 0] - wav_f[0])))
                ok &= rec.expect(abs(last[k_, 1] - pred0[0]) <= 3e-3 * pred0[0], 'best_drawn_last', 'the last curve drawn is not the best fit', case)
    return ok


def run_c17(tier, seed):
    rec = Recorder('C17', 'cube packages (1 or 3-4 apertures) fitted at tabulated wavelengths with filters in either wavelength order and different apertures per filter, '
                          '1..5 selected fits, all four display modes, results passed as object or file, extinction law tabulated in micron or Angstrom; number of '
                          'curves, best fit last, curve through the stored predicted flux within 3e-3; distinct = (n_ap, mode, n_sel, file/object)')
    rng = np.random.default_rng(seed + 17)
    n = 12 if tier == 'quick' else 80
    for t in range(n):
        n_ap = 1 if t % 2 else int(rng.integers(3, 5))
        n_f = 3
        theta = sorted(rng.uniform(1., 6., n_f).tolist(), reverse=bool(t % 3 == 0))
        case = dict(seed=seed, tag='c17', pseed=int(rng.integers(1, 10 ** 6)), n_ap=n_ap, n_f=n_f, n_models=int(rng.integers(2, 7)), n_wav=int(rng.integers(8, 20)),
                    theta=theta, m=int(rng.integers(0, 6)), nsel=1 + t % 5, as_file=bool((t // 2) % 2), modes=['interp', 'largest', 'largest+smallest', 'all'],
                    filter_order_desc=bool(t % 2 == 0), ext_unit='AA' if t % 4 == 3 else 'micron', names_unsorted=bool(t % 3 == 1), ap_desc=bool(t % 4 == 2), filt_unit=('nm' if t % 3 == 2 else 'micron'))
        try:
            c17_one(rec, case)
        except Exception as e:
            import traceback
            rec.fail('c17_crash', 'raised %s' % traceback.format_exc()[-500:], case)
        rec.case(key=('c17', n_ap, case['nsel'], case['as_file'], case['filter_order_desc']), nontrivial=True, sample=case if t < 1 else None)
    return rec, REPLAY


REPLAY = {'c07': c07_one, 'c02-pkg': c02_pkg, 'c10': c10_one, 'c09': c09_one, 'c08': c08_one, 'c16': c16_one, 'c16-cube': c16_cube, 'c18': c18_one, 'c17': c17_one}
REPLAY.update(FIT_REPLAY)
