"""Contracts for sedfitter/fit_info.py: FitInfo.sort (C04), FitInfo.keep (C05)."""
from sedvc.contractlib import Contract, contract
from sedvc.sym import Sc, compare, band, bor, bnot, implies, ite, arith, fresh_int, smin
from sedvc.values import Opaque, Quantity
from .source import make_source, source_arrays, SOURCE

FITINFO = 'sedfitter.fit_info.FitInfo'
META = 'sedfitter.fit_info.FitInfoMeta'
PER_FIT = ('av', 'sc', 'chi2', 'model_name', 'model_id')


def make_fitinfo(c, M, N, with_fluxes=True, with_id=True, prefix='fi', source=None):
    src = source if source is not None else make_source(c)
    attrs = dict(source=src,
                 av=c.array(prefix + '_av', (M,)), sc=c.array(prefix + '_sc', (M,)),
                 chi2=c.array(prefix + '_chi2', (M,)),
                 model_name=c.array(prefix + '_name', (M,), 'int'),
                 model_fluxes=c.array(prefix + '_mf', (M, N)) if with_fluxes else None,
                 model_id=c.array(prefix + '_id', (M,), 'int') if with_id else None,
                 meta=c.obj(META))
    return c.obj(FITINFO, **attrs)


def is_permutation(c, ID, M):
    return [c.forall(M, lambda k: band(ID[k] >= 0, ID[k] < M), 'perm.range'),
            c.forall([M, M], lambda k, l: implies(bnot(k == l), bnot(ID[k] == ID[l])), 'perm.injective')]


def sorted_nondecreasing(c, X, M):
    return c.forall([M, M], lambda k, l: implies(k <= l, X[k] <= X[l]), 'sorted')


@contract
class Sort(Contract):
    """Every per-model array is reordered by ONE permutation that sorts chi^2."""
    name = FITINFO + '.sort'
    properties = ('C04', 'C01', 'C02', 'C08')
    variants = ('with_fluxes', 'no_fluxes')
    modifies = ('self.av', 'self.sc', 'self.chi2', 'self.model_name', 'self.model_fluxes', 'self.model_id')

    def setup(self, c, variant):
        M, N = c.int('M'), c.int('N')
        c.assume([M >= 0, N >= 0])
        return dict(self=make_fitinfo(c, M, N, with_fluxes=(variant == 'with_fluxes'), with_id=False))

    def havoc(self, c, a):
        s = a.self
        M = c.A(c.attr(s, 'chi2')).n
        order = c.fresh_array('order', (M,), 'nat')
        ID = c.A(order)
        # definitional: every array is the old one gathered through the one fresh permutation
        for nm in ('av', 'sc', 'chi2', 'model_name'):
            o = c.A(c.attr(s, nm))
            c.set_attr(s, nm, c.defined_array((M,), (lambda o: lambda idx: o[ID[idx[0]]])(o), 'int' if nm == 'model_name' else 'real'))
        mf = c.attr(s, 'model_fluxes')
        if mf is not None:
            o = c.A(mf)
            c.set_attr(s, 'model_fluxes', c.defined_array(o.shape, lambda idx: o[ID[idx[0]], idx[1]]))
        c.set_attr(s, 'model_id', order)

    def ensures(self, c, a, result, old):
        s = a.self
        M = old.A(old.attr(s, 'chi2')).n
        ID = c.A(c.attr(s, 'model_id'))
        out = {'lengths': band(compare('==', ID.n, M), compare('==', c.A(c.attr(s, 'chi2')).n, M))}
        out['perm'] = is_permutation(c, ID, M)
        for nm in ('av', 'sc', 'chi2', 'model_name'):
            new, o = c.A(c.attr(s, nm)), old.A(old.attr(s, nm))
            out['row_aligned(%s)' % nm] = [compare('==', new.n, M),
                                           c.forall(M, (lambda new, o: lambda k: new[k] == o[ID[k]])(new, o), 'row(%s)' % nm)]
        omf = old.attr(s, 'model_fluxes')
        if omf is not None:
            new, o = c.A(c.attr(s, 'model_fluxes')), old.A(omf)
            out['row_aligned(model_fluxes)'] = [compare('==', new.shape[0], M), compare('==', new.shape[1], o.shape[1]),
                                                c.forall([M, o.shape[1]], lambda k, j: new[k, j] == o[ID[k], j], 'row(mf)')]
        else:
            out['model_fluxes_absent'] = c.attr(s, 'model_fluxes') is None
        out['ranked'] = sorted_nondecreasing(c, c.A(c.attr(s, 'chi2')), M)
        return out


def selector_quantity(c, form, chi2, nd):
    """q_k of the selection-syntax page for the chi^2-based selectors."""
    if form == 'C':
        return lambda k: chi2[k]
    if form == 'D':
        return lambda k: chi2[k] - chi2[0]
    if form == 'E':
        return lambda k: chi2[k] / nd
    if form == 'F':
        return lambda k: (chi2[k] - chi2[0]) / nd
    raise ValueError(form)


@contract
class Keep(Contract):
    """keep(select_format) on a ranked result: the kept fits are the prefix the
    selection-syntax page promises, and every per-fit array is cut alike."""
    name = FITINFO + '.keep'
    properties = ('C05', 'C09', 'C10')
    variants = ('A', 'N', 'C', 'D', 'E', 'F')
    modifies = ('self.av', 'self.sc', 'self.chi2', 'self.model_name', 'self.model_fluxes', 'self.model_id')

    def setup(self, c, variant):
        M, N = c.int('M'), c.int('N')
        c.assume([M >= 0, N >= 0])
        number = c.int('number') if variant == 'N' else c.real('number')
        return dict(self=make_fitinfo(c, M, N), select_format=(variant, number))

    def _nd(self, c, s):
        from .source import NData
        v, f, e = source_arrays(c, c.attr(s, 'source'))
        return c.Sum(v.n, lambda j: ite(bor(v[j] == 1, v[j] == 4), 1, 0), opaque=True)

    def requires(self, c, a):
        s = a.self
        form, number = a.select_format
        chi2 = c.A(c.attr(s, 'chi2'))
        M = chi2.n
        req = {'ranked': sorted_nondecreasing(c, chi2, M),
               'same_lengths': c.and_(*[compare('==', c.A(c.attr(s, nm)).n, M) for nm in PER_FIT])}
        if c.attr(s, 'model_fluxes') is not None:
            req['same_lengths'] = band(req['same_lengths'], compare('==', c.A(c.attr(s, 'model_fluxes')).shape[0], M))
        if form == 'N':
            req['n_nonneg'] = number >= 0
        if form in ('E', 'F'):
            req['n_data_pos'] = self._nd(c, s) >= 1
        return req

    def lemmas(self, c, a):
        """count_prefix (lemmas/SumLemmas.lean): for a downward-closed Boolean sequence b,
        b k  <->  k < #{k : b k}."""
        s = a.self
        form, number = a.select_format
        if form not in ('C', 'D', 'E', 'F'):
            return {}
        chi2 = c.A(c.attr(s, 'chi2'))
        M = chi2.n
        q = selector_quantity(c, form, chi2, self._nd(c, s))
        b = lambda k: q(k) <= number
        cnt = c.Sum(M, lambda k: ite(b(k), 1, 0))
        return {'count_prefix': (c.forall([M, M], lambda k, l: implies(band(k <= l, b(l)), b(k)), 'downward_closed'),
                                 c.forall(M, lambda k: b(k) == (k < cnt), 'count_prefix'))}

    def havoc(self, c, a):
        s = a.self
        p = Sc(fresh_int('n_kept'))
        c.assume(p >= 0)
        for nm in ('av', 'sc', 'chi2'):
            c.set_attr(s, nm, c.fresh_array('kept_' + nm, (p,)))
        c.set_attr(s, 'model_name', c.fresh_array('kept_name', (p,), 'int'))
        c.set_attr(s, 'model_id', c.fresh_array('kept_id', (p,), 'int'))
        mf = c.attr(s, 'model_fluxes')
        if mf is not None:
            c.set_attr(s, 'model_fluxes', c.fresh_array('kept_mf', (p,) + tuple(c.A(mf).shape[1:])))

    def ensures(self, c, a, result, old):
        s = a.self
        form, number = a.select_format
        ochi2 = old.A(old.attr(s, 'chi2'))
        M = ochi2.n
        p = c.A(c.attr(s, 'chi2')).n
        out = {}
        cut = []
        for nm in PER_FIT:
            new, o = c.A(c.attr(s, nm)), old.A(old.attr(s, nm))
            cut.append(compare('==', new.n, p))
            cut.append(c.forall(p, (lambda new, o: lambda k: new[k] == o[k])(new, o), 'prefix(%s)' % nm))
        omf = old.attr(s, 'model_fluxes')
        if omf is not None:
            new, o = c.A(c.attr(s, 'model_fluxes')), old.A(omf)
            cut.append(compare('==', new.shape[0], p))
            cut.append(c.forall([p, o.shape[1]], lambda k, j: new[k, j] == o[k, j], 'prefix(mf)'))
        out['all_cut_alike'] = cut
        out['prefix_of_ranking'] = band(p >= 0, p <= M)
        if form == 'A':
            out['kept_set'] = compare('==', p, M)
        elif form == 'N':
            out['kept_set'] = compare('==', p, smin(number, M))
        else:
            q = selector_quantity(c, form, ochi2, self._nd(old, s))
            # {q < v} subset of kept subset of {q <= v}: equality with the threshold is left open
            out['kept_set'] = c.forall(M, lambda k: band(implies(q(k) < number, k < p), implies(k < p, q(k) <= number)), 'kept_set')
        return out


# ---------------------------------------------------------------------------------------------
# FitInfo.filter_table (C09): parameter rows follow the fit ranking
# ---------------------------------------------------------------------------------------------

@contract
class FilterTable(Contract):
    """FitInfo.filter_table(table, additional): on normal return row i of the result is an ENTIRE row of
    the input table (every column from the same input row) whose MODEL_NAME is the name of fit i, for any
    row order of the input; additional parameters are attached by stripped model name; the input table and
    the fit are not modified.  Anything else is an exception (never a silently wrong row)."""
    name = FITINFO + '.filter_table'
    properties = ('C09', 'C08')
    variants = ('plain', 'additional')
    modifies = ()

    def setup(self, c, variant):
        import z3
        from sedvc.extmodels import table_new
        from sedvc.sym import to_z3
        M, R = c.int('n_fits'), c.int('n_rows')
        c.assume([M >= 0, R >= 0])
        fi = make_fitinfo(c, M, c.int('N'), prefix='fi')
        self.cols = dict(MODEL_NAME=c.array('tab_name', (R,), 'int'), par1=c.array('tab_par1', (R,)), par2=c.array('tab_par2', (R,)))
        table = table_new(c.st, self.cols, R)
        self.root = c.st.heap[table.addr].attrs['@root']
        add = {}
        if variant == 'additional':
            ADD = z3.Function('ADDITIONAL_extra', z3.IntSort(), z3.RealSort())
            self.add_fn = lambda code: Sc(ADD(to_z3(code, 'int')))
            add['extra'] = c.obj('<fnmap>', fn=self.add_fn)
        return dict(self=fi, input_table=table, additional=c.dict(add))

    def raises(self, c, a):
        return {'Exception': ('may', True), 'IndexError': ('may', True)}

    def _in_cols(self, c, a, ctx):
        """columns of the input table (set-up's while verifying the body; the caller's table at a call site)"""
        if hasattr(self, 'cols'):
            return self.cols, self.root
        cell = ctx.st.heap[a.input_table.addr]
        return cell.attrs['@cols'], cell.attrs['@root']

    def _add_fns(self, c, a):
        """additional parameters: name -> function of the stripped model-name code"""
        if hasattr(self, 'cols'):
            return {'extra': self.add_fn} if hasattr(self, 'add_fn') and c.st.heap[a.additional.addr].items else {}
        out = {}
        from sedvc.values import DictRef, ObjRef
        if isinstance(a.additional, DictRef):
            for k, v in c.st.heap[a.additional.addr].items.items():
                if isinstance(v, ObjRef) and c.st.heap[v.addr].cls == '<fnmap>':
                    out[k] = c.st.heap[v.addr].attrs['fn']
        return out

    def result(self, c, a):
        # at a call site: a fresh table with one row per fit, related to the input table by `ensures`
        import z3
        from sedvc.extmodels import table_new
        from sedvc.sym import fresh_name, to_z3
        cols, root = self._in_cols(c, a, c)
        M = c.A(c.attr(a.self, 'model_name')).n
        tag = fresh_name('ftab')
        ORG = z3.Function(tag + '_origin', z3.IntSort(), z3.IntSort())
        new = {}
        for k, v in cols.items():
            inner = v.value if isinstance(v, Quantity) else v
            shape, kind = c.A(inner).shape, c.st.heap[inner.addr].kind if hasattr(inner, 'addr') else getattr(inner, 'kind', 'real')
            arr = c.fresh_array('%s_%s' % (tag, k), (M,) + tuple(shape[1:]), kind)
            new[k] = Quantity(arr, v.unit) if isinstance(v, Quantity) else arr
        for k in self._add_fns(c, a):
            new[k] = c.fresh_array('%s_%s' % (tag, k), (M,))
        return table_new(c.st, new, M, origin=lambda k: Sc(ORG(to_z3(k, 'int'))), root=root)

    def ensures(self, c, a, result, old):
        from sedvc.extmodels import is_table, strip_code
        if not is_table(c.st, result):
            return {'returns_a_table': False}
        in_cols, root = self._in_cols(c, a, old if old is not None else c)
        cell = c.st.heap[result.addr]
        cols, n, origin = cell.attrs['@cols'], cell.attrs['@n'], cell.attrs['@origin']
        names = c.A(c.attr(a.self, 'model_name'))
        M = names.n
        inner = lambda v: v.value if isinstance(v, Quantity) else v
        R = c.A(inner(in_cols['MODEL_NAME'])).n
        out = {'taken_from_the_input_table': cell.attrs['@root'] == root,
               'one_row_per_fit': compare('==', n, M),
               'row_of_fit_i_is_named_like_fit_i': c.forall(M, lambda i: c.A(inner(cols['MODEL_NAME']))[i] == names[i], 'name'),
               'source_row_exists': c.forall(M, lambda i: band(origin(i) >= 0, origin(i) < R), 'origin in range')}
        for k, v in in_cols.items():
            if k not in cols:
                out['column_kept(%s)' % k] = False
                continue
            out['entire_row(%s)' % k] = c.forall(M, (lambda O, I: lambda i: O[i] == I[origin(i)])(c.A(inner(cols[k])), c.A(inner(v))), 'row')
        extra = [k for k in cols if k not in in_cols]
        for k, fn in self._add_fns(c, a).items():
            out['additional_by_name(%s)' % k] = (k in cols) and c.forall(M, (lambda fn, col: lambda i: col[i] == fn(strip_code(names[i])))(fn, c.A(cols[k]) if k in cols else None), 'additional')
            extra = [x for x in extra if x != k]
        out['no_other_columns'] = not extra
        return out
