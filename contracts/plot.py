"""Contract for sedfitter/plot.py: plot() for cube packages, all fits of a source in one figure (C17).

matplotlib is outside E1: figures, axes and line collections are uninterpreted values.  What is proved is what
goes INTO the line collection: for an arbitrary record and an arbitrary selected fit i,

  * the model SED is the cube's SED of the model NAMED in fit i (SEDCube.get_sed: its own contract),
  * it is scaled to the fitted distance 10^sc[i] kpc (SED.scale_to_distance with 10^sc[i] * KPC cm) and reddened
    with the fitted A_V[i] through the extinction law stored with the fit (SED.scale_to_av),
  * it is interpolated (SED.interpolate) at the aperture radius  theta_max[arcsec] * 10^sc[i] * 1000  AU
    (sed_type='largest'), and the curve appended is (wavelengths of that SED, that interpolated flux),
  * fits are drawn from the last selected one down to the best one, the best fit in black and last,
  * when the best fit has been added the figure of the source gets exactly the list the curves were appended to.

That the curve then passes through the predicted flux is the composition of the contracts of get_sed,
scale_to_distance, scale_to_av, interpolate (all proved) with Models.fit's predicted-flux clause (C04) -- and of
the constant KPC = 3.086e21 vs astropy's kpc (2e-4), which is why the bounded run uses a 1e-3 tolerance.
"""
import fractions

from sedvc import units
from sedvc.contractlib import Contract, contract, Ctx, REGISTRY
from sedvc.loops import EventLoop
from sedvc.sym import Sc, compare, band, bor, bnot, implies, ite, arith, fresh_int, mathfn, smax
from sedvc.values import Opaque, ObjRef, Quantity, ListRef, DictRef, Abstract
from .fit_info import make_fitinfo, FITINFO, META
from .source import source_arrays
from .cube import CUBE
from .sed import SED

U = units.BASE
PLOT = 'sedfitter.plot.plot'
KPC = fractions.Fraction('3.086e21')


def _record(c, it):
    M, N = Sc(fresh_int('rec_fits')), 2
    c.assume([M >= 0])
    info = make_fitinfo(c, M, N, prefix='rec%d' % len(c.st.heap))
    c.set_attr(info, 'meta', c.interp.plot_meta)
    return info


def _havoc_cube_read(c):
    """the state after an earlier record: the package cube has been read and is remembered"""
    _figures_havoc(c)
    con = REGISTRY[CUBE + 'BaseCube.read']
    from sedvc.interp import ClassVal
    cls = ClassVal(c.interp.repo.find_class(CUBE + 'SEDCube'))
    n0 = len(c.st.events)
    cube = con.apply(c.interp, c.st, c.fr, dict(cls=cls, filename=Opaque('str', 'flux.fits'), order='nu', memmap=True))
    del c.st.events[n0:]                 # the read happened in an earlier iteration
    c.st.env['sed_cube'] = cube
    c.st.env['model_dir'] = 'models_dir'


def _record_check(c, paths):
    obs = []
    for s, ev, status in paths:
        if status == 'raise':
            continue
        if status not in ('run', 'continue'):
            obs.append((s, 'record_is_processed', False))
            continue
        info = s.env.get('info')
        keeps = [e for e in ev if e[0] == 'call' and e[1] == FITINFO + '.keep']
        obs.append((s, 'fits_selected_with_the_given_selector', len(keeps) == 1 and keeps[0][2]['self'].addr == info.addr))
        cube = s.env.get('sed_cube')
        reads = [e for e in ev if e[0] == 'ret' and e[1] == CUBE + 'BaseCube.read']
        obs.append((s, 'cube_of_the_package_is_available', isinstance(cube, ObjRef) and s.env.get('model_dir') == 'models_dir' and len(reads) <= 1))
    return obs


def _fit_item(c, it):
    k = Sc(fresh_int('i'))
    c.interp.plot_range = it
    n = c.A(c.attr(c.st.env['info'], 'chi2')).n
    c.st.assume_pc(band(compare('<=', 0, k), compare('<', k, n)))
    return k


def _figures_havoc(c):
    """the dictionary of figures made so far (for earlier sources): arbitrary content, only ever written to"""
    c.st.env['figures'] = c.dict({'<earlier sources>': Opaque('figures of earlier sources')})
    for nm in ('s', 'flux', 'ax', 'fig', 'conv', 'apertures', 'color_type', 'lines', 'colors'):
        if nm not in ('lines', 'colors') or not isinstance(c.st.env.get(nm), Abstract):
            c.st.env[nm] = Opaque('left over from an earlier source / fit', nm)   # arbitrary: every use in this configuration is preceded by an assignment


def _fit_havoc(c):
    """between fits of one figure: the lists of curves / colours built so far (abstract lists)"""
    c.st.env['lines'] = Abstract('list', ('lines', 0))
    c.st.env['colors'] = Abstract('list', ('colors', 0))
    _figures_havoc(c)



def _appended(s, ev, name):
    """what this iteration appended to the list held in variable `name` (abstract or real list)"""
    v = s.env.get(name)
    if isinstance(v, Abstract):
        return [e[3][0] for e in ev if e[0] == 'mcall' and e[1] is v and e[2] == 'append']
    if isinstance(v, ListRef):
        return list(s.heap[v.addr].items)
    return None


def _fit_check(c, paths):
    e0 = c.st.env
    info, cube = e0['info'], e0['sed_cube']
    rng = c.interp.plot_range
    n = c.A(c.attr(info, 'chi2')).n
    obs = [(c.st, 'fits_drawn_from_the_last_selected_down_to_the_best', band(band(compare('==', rng.start, arith('-', n, 1)), compare('==', rng.stop, -1)), compare('==', rng.step, -1)))]
    meta = c.attr(info, 'meta')
    law = c.attr(meta, 'extinction_law')
    ap = e0['ap']
    AP = c.A(ap)
    for s, ev, status in paths:
        if status == 'raise':
            continue            # get_sed / interpolate refused (unknown model, aperture below the table): an exception, no curve
        if status not in ('run', 'continue'):
            obs.append((s, 'fit_is_drawn', False))
            continue
        i = s.env['i']
        A = lambda nm: c.A(c.attr(info, nm))
        calls = dict((e[1], e[2]) for e in ev if e[0] == 'call')
        rets = dict((e[1], e[2]) for e in ev if e[0] == 'ret')
        order = [e[1].split('.')[-1] for e in ev if e[0] == 'call' and e[1].startswith('sedfitter.sed.')]
        obs.append((s, 'sed_taken_scaled_reddened_interpolated_in_that_order', order == ['get_sed', 'scale_to_distance', 'scale_to_av', 'interpolate']))
        if order != ['get_sed', 'scale_to_distance', 'scale_to_av', 'interpolate']:
            continue
        g, d, r, ip = (calls[k] for k in (CUBE + 'SEDCube.get_sed', SED + '.scale_to_distance', SED + '.scale_to_av', SED + '.interpolate'))
        sed0, sed1, sed2 = rets[CUBE + 'SEDCube.get_sed'], rets[SED + '.scale_to_distance'], rets[SED + '.scale_to_av']
        obs.append((s, 'model_sed_is_the_one_named_in_fit_i', g['self'].addr == cube.addr and compare('==', g['model_name'], A('model_name')[i])))
        dist = mathfn('pow10', A('sc')[i]) * KPC
        obs.append((s, 'scaled_to_the_fitted_distance', d['self'].addr == sed0.addr and compare('==', d['distance'], dist)))
        lw = r['law']
        law_ok = getattr(lw, 'bound_self', None) is not None and lw.bound_self.addr == law.addr and lw.qualname.endswith('Extinction.get_av')
        obs.append((s, 'reddened_with_the_fitted_av_and_the_law_of_the_fit', (r['self'].addr == sed1.addr and law_ok) and compare('==', r['av'], A('av')[i])))
        req = ip['apertures']
        cs = Ctx(c.interp, s, c.fr)
        RQ = cs.A(req)
        apmax = smax(AP[0], AP[1])
        obs.append((s, 'interpolated_at_the_aperture_of_the_fitted_distance', (ip['self'].addr == sed2.addr) and band(compare('==', RQ.n, 1), RQ[0] == apmax * mathfn('pow10', A('sc')[i]) * 1000)))
        flux = rets[SED + '.interpolate']
        new_lines, new_cols = _appended(s, ev, 'lines'), _appended(s, ev, 'colors')
        cs = Ctx(c.interp, s, c.fr)
        ok = new_lines is not None and len(new_lines) == 1 and isinstance(new_lines[0], Opaque) and new_lines[0].tag == 'column_stack' and len(new_lines[0].info) == 2
        if ok:
            xcol, ycol = new_lines[0].info
            wv = cs.attr(sed2, '_wav')
            ok = (xcol is wv.value or xcol is wv or getattr(xcol, 'addr', 0) == getattr(wv.value, 'addr', 1))
            FA, YA = cs.A(flux.value if isinstance(flux, Quantity) else flux), cs.A(ycol)
            goal = [compare('==', YA.n, FA.shape[0]), cs.forall(FA.shape[0], lambda w: YA[w] == FA[w, 0], 'curve')] if ok else False
        else:
            goal = False
        obs.append((s, 'one_curve_of_that_interpolated_sed_against_its_wavelengths', goal))
        colour = s.heap[e0['color'].addr].items
        black = new_cols is not None and len(new_cols) == 1 and new_cols[0] == colour['black']
        gray = new_cols is not None and len(new_cols) == 1 and new_cols[0] == colour['gray']
        obs.append((s, 'best_fit_black_the_others_gray', [implies(compare('==', i, 0), black), implies(bnot(compare('==', i, 0)), gray)]))
        figs = s.env.get('figures')
        name = cs.attr(cs.attr(info, 'source'), '_name')
        entry = s.heap[figs.addr].items.get(name) if isinstance(figs, DictRef) else None
        entry0 = c.st.heap[e0['figures'].addr].items.get(name) if isinstance(e0.get('figures'), DictRef) else None
        if entry is not None and entry is not entry0:
            items = s.heap[entry.addr].items
            lc = items.get('lines')
            obs.append((s, 'figure_made_when_the_best_fit_is_in_with_the_collected_curves',
                        band(compare('==', i, 0), True) if (isinstance(lc, Opaque) and lc.tag == 'LineCollection' and lc.info[0] is s.env['lines'] and lc.info[1] is s.env['colors']) else False))
        else:
            obs.append((s, 'no_figure_before_the_best_fit_is_in', bnot(compare('==', i, 0))))
    return obs


@contract
class Plot(Contract):
    name = PLOT
    properties = ('C17',)
    crosscheck = 'needs a model package on disk and draws figures: not run natively by the engine cross-check'
    variants = ('cube/largest/one_figure',)
    loops = {1: EventLoop('records', _record_check, item=_record, havoc=[_figures_havoc, _havoc_cube_read]),
             2: EventLoop('fits', _fit_check, item=_fit_item, havoc=_fit_havoc, peel=True)}
    assume_pre_of = (FITINFO + '.keep', CUBE + 'BaseCube.read', SED + '.scale_to_distance', SED + '.scale_to_av', SED + '.interpolate')

    def setup(self, c, variant):
        from .extinction import make_extinction, CHI_CGS
        law = make_extinction(c, U['micron'], CHI_CGS)
        self.ap = [c.real('theta0'), c.real('theta1')]
        filters = c.list([c.dict({'name': 'F%d' % k, 'aperture_arcsec': self.ap[k], 'wav': Quantity(c.real('fwav%d' % k), U['micron'])}) for k in range(2)])
        c.interp.plot_meta = c.obj(META, model_dir='models_dir', filters=filters, extinction_law=law)
        c.interp.package_conf = {'name': 'pkg', 'version': 2, 'length_subdir': 0}
        M, A, W = c.int('cube_n_models'), c.int('cube_n_ap'), c.int('cube_n_wav')
        c.assume([M >= 1, A >= 2, W >= 2])
        c.interp.package_cube = dict(wav=c.array('cube_wav', (W,)), ap=c.array('cube_ap', (A,)), val=c.array('cube_val', (M, A, W)), unc=c.array('cube_unc', (M, A, W)),
                                     names=c.array('cube_names', (M,), kind='int'), valid=c.array('cube_valid', (M,), kind='int'), dist=c.real('cube_dist_cm'))
        f0 = make_fitinfo(c, c.int('M0'), 2, prefix='first')
        c.set_attr(f0, 'meta', c.interp.plot_meta)
        colour = c.dict({'gray': (fractions.Fraction(3, 4),) * 3, 'black': (0, 0, 0), 'full': c.list([]), 'faded': c.list([])})
        return dict(input_fits=f0, output_dir=None, select_format=('N', c.int('n_keep')), plot_max=None, plot_mode='A', sed_type='largest', show_sed=True, show_convolved=False,
                    sources=None, memmap=True, color=colour)

    def raises(self, c, a):
        return {'Exception': ('may', True), 'ValueError': ('may', True)}

    def ensures(self, c, a, result, old):
        return {'returns_the_figures': isinstance(result, DictRef)}
