"""Contracts for sedfitter/sed/sed.py: SED.interpolate (C13, C17), scale_to_distance / scale_to_av (C17)."""
from sedvc import units
from sedvc.contractlib import Contract, contract
from sedvc.sym import Sc, compare, band, bor, bnot, implies, ite, arith, smin
from sedvc.values import Quantity, Opaque
from .integrate import strictly_increasing
import fractions

SED = 'sedfitter.sed.sed.SED'
U = units.BASE


def make_sed(c, n_ap=None, ap_unit=None, prefix='sed', flux_unit=None):
    W = c.int(prefix + '_n_wav')
    c.assume(W >= 1)
    attrs = dict(name=Opaque('str', prefix), distance=Quantity(c.real(prefix + '_dist'), U['kpc']),
                 _wav=Quantity(c.array(prefix + '_wav', (W,)), U['micron']), _nu=None)
    if n_ap == 1:
        attrs['_apertures'] = None
        A = 1
    else:
        A = c.int(prefix + '_n_ap')
        c.assume(A >= 2)
        attrs['_apertures'] = Quantity(c.array(prefix + '_ap', (A,)), ap_unit or U['au'])
    fu = flux_unit or U['mJy']
    attrs['_flux'] = Quantity(c.array(prefix + '_flux', (A, W)), fu)
    attrs['_error'] = Quantity(c.array(prefix + '_err', (A, W)), fu)
    return c.obj(SED, **attrs)


@contract
class SedInterpolate(Contract):
    """SED.interpolate(apertures) -> array [wavelength, request]: exact at tabulated radii, linear
    between, largest aperture beyond the table, refusal below the smallest one; requests are
    bare numbers in AU or quantities in any length unit; the table may be in any length unit."""
    name = SED + '.interpolate'
    properties = ('C13', 'C17')
    variants = ('au<-bare', 'pc<-bare', 'au<-pc', 'single')
    modifies = ('apertures',)

    def setup(self, c, variant):
        R = c.int('n_req')
        c.assume(R >= 0)
        if variant == 'single':
            return dict(self=make_sed(c, n_ap=1), apertures=c.array('req', (R,)))
        tu, ru = variant.split('<-')
        sed = make_sed(c, ap_unit=U[tu])
        req = c.array('req', (R,))
        return dict(self=sed, apertures=req if ru == 'bare' else Quantity(req, U[ru]))

    def requires(self, c, a):
        ap = c.attr(a.self, '_apertures')
        req = {}
        if ap is not None:
            A = c.A(ap)
            req['table_increasing'] = strictly_increasing(c, A)
            req['shapes'] = compare('==', c.A(c.attr(a.self, '_flux')).shape[0], A.n)
        req['wav_len'] = compare('==', c.A(c.attr(a.self, '_flux')).shape[1], c.A(c.attr(a.self, '_wav')).n)
        return req

    def _factors(self, c, a, ctx):
        """(request -> AU, table -> AU)"""
        from sedvc.units import _sdiv
        ap = ctx.attr(a.self, '_apertures')
        fr = _sdiv(a.apertures.unit.scale, U['au'].scale) if isinstance(a.apertures, Quantity) else 1
        ft = _sdiv(ap.unit.scale, U['au'].scale)
        return fr, ft

    def raises(self, c, a):
        ap = c.attr(a.self, '_apertures')
        if ap is None:
            return {'Exception': False}
        A, Rq = c.A(ap), c.A(a.apertures)
        fr, ft = self._factors(c, a, c)
        return {'Exception': c.Any(Rq.n, lambda q: Rq[q] * fr < A[0] * ft)}

    def result(self, c, a):
        W = c.A(c.attr(a.self, '_wav')).n
        return c.fresh_array('interp', (W, c.A(a.apertures).n))

    def ensures(self, c, a, result, old):
        ap = old.attr(a.self, '_apertures')
        Rq = old.A(a.apertures)
        T = old.A(old.attr(a.self, '_flux'))
        G = c.A(result)
        W = T.shape[1]
        out = {'shape': band(compare('==', G.shape[0], W), compare('==', G.shape[1], Rq.n))}
        if ap is None:
            out['repeated'] = c.forall([W, Rq.n], lambda w, q: G[w, q] == T[0, w], 'repeated')
            return out
        A = old.A(ap)
        n = A.n
        fr, ft = self._factors(old, a, old)

        def rc(q):
            return smin(Rq[q] * fr, A[n - 1] * ft)       # in AU
        out['exact_at_tabulated_radii'] = c.forall([W, Rq.n, n - 1], lambda w, q, k: band(implies(rc(q) == A[k] * ft, G[w, q] == T[k, w]),
                                                                                      implies(rc(q) == A[k + 1] * ft, G[w, q] == T[k + 1, w])), 'exact at nodes')
        out['linear_between'] = c.forall([W, Rq.n, n - 1], lambda w, q, k: implies(band(A[k] * ft <= rc(q), rc(q) <= A[k + 1] * ft),
                                                                                G[w, q] == T[k, w] + (rc(q) - A[k] * ft) * (T[k + 1, w] - T[k, w]) / (A[k + 1] * ft - A[k] * ft)), 'linear')
        out['largest_beyond_table'] = c.forall([W, Rq.n], lambda w, q: implies(Rq[q] * fr >= A[n - 1] * ft, G[w, q] == T[n - 1, w]), 'largest beyond')
        return out


@contract
class ScaleToDistance(Contract):
    """scale_to_distance(D): a copy with flux and error multiplied by (d0/D)^2 (D in cm) and
    distance D; the SED itself is left unchanged."""
    name = SED + '.scale_to_distance'
    properties = ('C17',)

    def setup(self, c):
        return dict(self=make_sed(c), distance=c.real('D_cm'))

    def requires(self, c, a):
        return {'positive': band(a.distance > 0, c.attr(a.self, 'distance').value > 0)}

    def result(self, c, a):
        s = a.self
        F = c.A(c.attr(s, '_flux'))
        return c.obj(SED, name=c.attr(s, 'name'), distance=Quantity(a.distance, U['cm']), _wav=c.attr(s, '_wav'), _nu=c.attr(s, '_nu'),
                     _apertures=c.attr(s, '_apertures'), _flux=Quantity(c.fresh_array('sflux', F.shape), c.attr(s, '_flux').unit),
                     _error=Quantity(c.fresh_array('serr', F.shape), c.attr(s, '_error').unit))

    def ensures(self, c, a, result, old):
        s = a.self
        d0 = old.attr(s, 'distance')
        d0_cm = d0.value * d0.unit.scale / U['cm'].scale
        ratio = d0_cm / a.distance
        out = {'distance_set': isinstance(c.attr(result, 'distance'), Quantity) and c.attr(result, 'distance').unit.dims == {'m': 1}
               and c.attr(result, 'distance').value * c.attr(result, 'distance').unit.scale == a.distance * U['cm'].scale,
               'is_a_copy': result.addr != s.addr}
        for nm in ('_flux', '_error'):
            T, q = old.A(old.attr(s, nm)), c.attr(result, nm)
            G = c.A(q)
            sc = q.unit.scale / old.attr(s, nm).unit.scale
            out['inverse_square(%s)' % nm] = [compare('==', G.shape[0], T.shape[0]), compare('==', G.shape[1], T.shape[1]), q.unit.same_dims(old.attr(s, nm).unit),
                                              c.forall(list(T.shape), (lambda G, T, sc: lambda i, w: G[i, w] * sc == T[i, w] * ratio * ratio)(G, T, sc), 'inverse square')]
        return out


@contract
class ScaleToAv(Contract):
    """scale_to_av(av, law): a copy with flux and error multiplied by 10^(av * law(wavelength))."""
    name = SED + '.scale_to_av'
    properties = ('C17',)

    def setup(self, c):
        from sedvc.extmodels import SpecCallable
        sed = make_sed(c)
        K = c.fn('law_k', 'int', 'real')
        W = c.A(c.attr(sed, '_wav')).n

        def law(interp, st, args, kw):
            q = args[0]
            ok = isinstance(q, Quantity) and getattr(q.value, 'addr', None) == c.attr(sed, '_wav').value.addr or True
            return Quantity(c.defined_array((W,), lambda idx: K(idx[0])), U['dimensionless_unscaled'])
        return dict(self=sed, av=c.real('av'), law=SpecCallable(law))

    def result(self, c, a):
        s = a.self
        F = c.A(c.attr(s, '_flux'))
        return c.obj(SED, name=c.attr(s, 'name'), distance=c.attr(s, 'distance'), _wav=c.attr(s, '_wav'), _nu=c.attr(s, '_nu'), _apertures=c.attr(s, '_apertures'),
                     _flux=Quantity(c.fresh_array('rflux', F.shape), c.attr(s, '_flux').unit), _error=Quantity(c.fresh_array('rerr', F.shape), c.attr(s, '_error').unit))

    def ensures(self, c, a, result, old):
        import sedvc.sym as sym
        s = a.self
        K = c.fn('law_k', 'int', 'real')
        out = {'is_a_copy': result.addr != s.addr}
        for nm in ('_flux', '_error'):
            T, q = old.A(old.attr(s, nm)), c.attr(result, nm)
            G = c.A(q)
            sc = q.unit.scale / old.attr(s, nm).unit.scale
            out['reddened(%s)' % nm] = [q.unit.same_dims(old.attr(s, nm).unit),
                                        c.forall(list(T.shape), (lambda G, T, sc: lambda i, w: G[i, w] * sc == T[i, w] * sym.mathfn('pow10', a.av * K(w)))(G, T, sc), 'reddened')]
        return out


# ---------------------------------------------------------------------------------------------
# SED.read: unit conversion + ordering of the spectral axis (C12, C15)
# ---------------------------------------------------------------------------------------------

from .fitsmodel import hdu, hdulist
from .helpers import FLUX_UNITS, to_ref, from_ref


@contract
class SedRead(Contract):
    """SED.read(filename, unit_flux, order): every (aperture, wavelength) cell of the file comes back
    converted with the frequency OF THAT CELL, and the spectral axis of wavelengths, frequencies,
    fluxes and errors is either left as stored or reversed -- all four together -- so that the
    requested order holds."""
    name = SED + '.read'
    properties = ('C12', 'C15')
    # (stored unit[+ unit of the error column if it differs] -> requested unit / requested order)
    variants = ('mJy->erg_cm2_s/nu', 'mJy->erg_cm2_s/wav', 'erg_cm2_s->mJy/wav', 'mJy->mJy/nu', 'mJy+Jy->mJy/nu')

    def setup(self, c, variant):
        from sedvc.interp import ClassVal
        units_, order = variant.split('/')
        stored, ub = units_.split('->')
        ua, ue = [FLUX_UNITS[x] for x in (stored.split('+') * 2)[:2]]       # every column carries its own unit
        ub = FLUX_UNITS[ub]
        A, W = c.int('n_ap'), c.int('n_wav')
        c.assume([A >= 1, W >= 2])
        self.file = dict(wav=c.array('file_wav', (W,)), nu=c.array('file_nu', (W,)), ap=c.array('file_ap', (A,)),
                         flux=c.array('file_flux', (A, W)), err=c.array('file_err', (A, W)), ua=ua, ue=ue, dist=c.real('file_dist_cm'))
        f = self.file
        hl = hdulist(c, [hdu(c, header={'MODEL': Opaque('str', 'name'), 'DISTANCE': f['dist']}),
                         hdu(c, fields={'WAVELENGTH': f['wav'], 'FREQUENCY': f['nu']}, units=[U['micron'], U['Hz']]),
                         hdu(c, fields={'APERTURE': f['ap']}, units=[U['au']]),
                         hdu(c, fields={'TOTAL_FLUX': f['flux'], 'TOTAL_FLUX_ERR': f['err']}, units=[ua, ue])])
        c.set('__hdulist__', hl)
        c.interp.ext['astropy.io.fits.open'] = lambda interp, st, fr, args, kw: hl
        c.interp.ext['os.path.exists'] = lambda interp, st, fr, args, kw: True
        ci = c.interp.repo.find_class(SED)
        return dict(cls=ClassVal(ci), filename='x_sed.fits', unit_wav=U['micron'], unit_freq=U['Hz'], unit_flux=ub, order=order)

    def _file(self, c, a):
        """The content of the file named by the call.  While verifying SED.read itself it is the set-up's file;
        at a call site it is fresh symbolic content (one per call).  Files of one package share the number of
        wavelengths and apertures when the caller's contract declares `interp.shared_sed_grid` (the per-file
        format stores every SED on arrays of the same length; the VALUES of the grid may differ per file)."""
        if hasattr(self, 'file'):
            return self.file          # set by setup(): this contract is the one being verified
        key = id(a.filename) if not isinstance(a.filename, str) else a.filename
        cache = c.interp.__dict__.setdefault('_sed_files', {})
        if key in cache and cache[key][0] is a.filename:
            return cache[key][1]
        from sedvc.sym import fresh_name
        tag = fresh_name('sedfile')
        grid = getattr(c.interp, 'shared_sed_grid', None)
        wav = nu = ap = None
        if grid is not None:
            A, W = grid[:2]
            if len(grid) > 2:
                wav, nu, ap = grid[2:5]         # the files of the package are tabulated on one common grid
        else:
            A = getattr(c.interp, 'shared_sed_apertures', None)
            if A is None:
                A = c.int(tag + '_n_ap')
                c.assume(A >= 1)
            W = c.int(tag + '_n_wav')
            c.assume(W >= 2)
        f = dict(wav=wav if wav is not None else c.array(tag + '_wav', (W,)), nu=nu if nu is not None else c.array(tag + '_nu', (W,)),
                 ap=ap if ap is not None else c.array(tag + '_ap', (A,)),
                 flux=c.array(tag + '_flux', (A, W)), err=c.array(tag + '_err', (A, W)), ua=FLUX_UNITS['mJy'], dist=c.real(tag + '_dist_cm'),
                 name=c.int(tag + '_name'))
        cache[key] = (a.filename, f)
        return f

    def requires(self, c, a):
        f = self._file(c, a)
        nu, wav = c.A(f['nu']), c.A(f['wav'])
        return {'positive': [c.forall(nu.n, lambda k: band(nu[k] > 0, wav[k] > 0), 'nu,wav>0'), f['dist'] > 0],
                # the stored axis is strictly monotone, and wavelength decreases when frequency increases
                'consistent_axis': [
                                    c.forall([nu.n, nu.n], lambda k, l: implies(k < l, band(band(bnot(nu[k] == nu[l]), bnot(wav[k] == wav[l])), (nu[k] < nu[l]) == (wav[k] > wav[l]))), 'axis'),
                                    c.forall([nu.n, nu.n, nu.n], lambda k, l, m: implies(band(k < l, l < m), (nu[k] < nu[l]) == (nu[l] < nu[m])), 'monotone')]}

    def result(self, c, a):
        # at a call site: a fresh SED object whose fields are related to the file content by `ensures`
        f = self._file(c, a)
        A, W = c.A(f['ap']).n, c.A(f['wav']).n
        from sedvc.sym import fresh_name
        tag = fresh_name('sed')
        sed = c.obj(SED, name=f.get('name', Opaque('str', tag)), distance=Quantity(f['dist'], U['cm']),
                    _wav=Quantity(c.fresh_array(tag + '_wav', (W,)), a.unit_wav), _nu=Quantity(c.fresh_array(tag + '_nu', (W,)), a.unit_freq),
                    _apertures=Quantity(f['ap'], U['au']),
                    _flux=Quantity(c.fresh_array(tag + '_flux', (A, W)), a.unit_flux), _error=Quantity(c.fresh_array(tag + '_err', (A, W)), a.unit_flux))
        return sed

    def ensures(self, c, a, result, old):
        f = self._file(c, a)
        nu, wav, F, E = c.A(f['nu']), c.A(f['wav']), c.A(f['flux']), c.A(f['err'])
        n = nu.n
        r_nu, r_wav = c.attr(result, '_nu'), c.attr(result, '_wav')
        RN, RW = c.A(r_nu), c.A(r_wav)
        # reversed iff the stored order is not the requested one
        rev = (nu[0] > nu[n - 1]) if a.order == 'nu' else (wav[0] > wav[n - 1])
        src = lambda k: ite(rev, n - 1 - k, k)
        d_m = f['dist'] * U['cm'].scale
        out = {'axis_lengths': band(compare('==', RN.n, n), compare('==', RW.n, n)),
               'wavelengths': c.forall(n, lambda k: RW[k] * r_wav.unit.scale == wav[src(k)] * U['micron'].scale, 'wav'),
               'frequencies': c.forall(n, lambda k: RN[k] * r_nu.unit.scale == nu[src(k)] * U['Hz'].scale, 'nu'),
               'requested_order': (RN[0] <= RN[n - 1]) if a.order == 'nu' else (RW[0] <= RW[n - 1]),
               # ... along the whole axis: strictly increasing frequency (order='nu') or wavelength (order='wav')
               'sorted_axis': c.forall([n, n], lambda k, l: implies(k < l, (RN[k] < RN[l]) if a.order == 'nu' else (RW[k] < RW[l])), 'sorted'),
               'other_axis_opposite': c.forall([n, n], lambda k, l: implies(k < l, (RW[k] > RW[l]) if a.order == 'nu' else (RN[k] > RN[l])), 'opposite')}
        for nm, T in (('_flux', F), ('_error', E)):
            q = c.attr(result, nm)
            G = c.A(q)
            stored_unit = f['ua'] if nm == '_flux' else f.get('ue', f['ua'])
            out['cells(%s)' % nm] = [compare('==', G.shape[0], T.shape[0]), compare('==', G.shape[1], n),
                                     c.forall([T.shape[0], n], (lambda G, T, q, stored_unit: lambda i, k: G[i, k] * q.unit.scale / a.unit_flux.scale ==
                                                                from_ref(to_ref(T[i, src(k)], stored_unit, nu[src(k)], d_m), a.unit_flux, nu[src(k)], d_m))(G, T, q, stored_unit), 'cells')]
        return out


# ---------------------------------------------------------------------------------------------
# SED.write: the stored tables describe the same wavelength row by row (C12)
# ---------------------------------------------------------------------------------------------

@contract
class SedWrite(Contract):
    """SED.write(filename): ONE re-ordering (by increasing frequency) is applied to wavelengths, frequencies and --
    per aperture -- fluxes and errors, so that row k of the spectral table and column k of the flux table describe
    the same wavelength; frequencies are stored in non-decreasing order; name, distance (cm), apertures and the
    unit of every column are stored; the SED itself is not modified.
    (astropy Table.sort(key) re-orders every column by np.argsort(column key): assumed dependency contract.)"""
    name = SED + '.write'
    properties = ('C12', 'C07')
    variants = ('apertures', 'single')
    modifies = ()

    def setup(self, c, variant):
        sed = make_sed(c, n_ap=1 if variant == 'single' else None)
        W = c.A(c.attr(sed, '_wav')).n
        c.set_attr(sed, '_nu', Quantity(c.array('sed_nu', (W,)), U['Hz']))
        return dict(self=sed, filename='out_sed.fits', overwrite=False)

    def ensures(self, c, a, result, old):
        from sedvc.extmodels import is_table
        from sedvc.values import ListRef, DictRef
        ev = [e for e in c.st.events if e[0] == 'fits.writeto']
        out = {'written_once_to_the_named_file': len(ev) == 1 and ev[0][1] == 'out_sed.fits' and len(ev[0][2]) == 4}
        if not out['written_once_to_the_named_file']:
            return out
        hdus = ev[0][2]

        def cols(h):
            d = c.attr(h, 'data')
            return c.st.heap[d.addr].attrs['@cols'] if is_table(c.st, d) else {}

        def units_(h):
            return [c.attr(x, 'unit') for x in c.st.heap[c.attr(h, 'columns').addr].items]
        hdr0 = c.st.heap[c.attr(hdus[0], 'header').addr].items
        dist = c.attr(a.self, 'distance')
        out['name_and_distance_in_cm'] = [hdr0.get('MODEL') is c.attr(a.self, 'name'), compare('==', hdr0.get('DISTANCE') * U['cm'].scale, dist.value * dist.unit.scale)]
        wq, nq, fq, eq = (c.attr(a.self, k) for k in ('_wav', '_nu', '_flux', '_error'))
        WAV, NU, FL, ER = c.A(wq), c.A(nq), c.A(fq), c.A(eq)
        n = WAV.n
        c1, c3 = cols(hdus[1]), cols(hdus[3])
        ok = set(c1) == {'WAVELENGTH', 'FREQUENCY'} and set(c3) == {'TOTAL_FLUX', 'TOTAL_FLUX_ERR'}
        out['tables_have_the_documented_columns'] = ok
        if not ok:
            return out
        SW, SN, SF, SE = c.A(c1['WAVELENGTH']), c.A(c1['FREQUENCY']), c.A(c3['TOTAL_FLUX']), c.A(c3['TOTAL_FLUX_ERR'])
        O = c.A(c.witness('order', (n,), 'int'))
        out['one_reordering_for_all_tables'] = [c.forall(n, lambda k: band(O[k] >= 0, O[k] < n), 'order in range'),
                                                compare('==', SW.n, n), compare('==', SN.n, n), compare('==', SF.shape[1], n), compare('==', SE.shape[1], n),
                                                c.forall(n, lambda k: band(SW[k] == WAV[O[k]], SN[k] == NU[O[k]]), 'spectral table'),
                                                c.forall([FL.shape[0], n], lambda i, k: band(SF[i, k] == FL[i, O[k]], SE[i, k] == ER[i, O[k]]), 'flux table')]
        out['every_wavelength_stored_once'] = c.forall([n, n], lambda k, l: implies(bnot(k == l), bnot(O[k] == O[l])), 'injective')
        out['stored_by_increasing_frequency'] = c.forall([n, n], lambda k, l: implies(k <= l, SN[k] <= SN[l]), 'sorted')
        u1, u3 = units_(hdus[1]), units_(hdus[3])
        out['units_recorded'] = (len(u1) == 2 and len(u3) == 2 and all(isinstance(x, Opaque) and x.tag == 'unitstr' for x in u1 + u3)
                                 and u1[0].info is wq.unit and u1[1].info is nq.unit and u3[0].info is fq.unit and u3[1].info is eq.unit)
        c2 = cols(hdus[2])
        ap = c.attr(a.self, '_apertures')
        if ap is None:
            out['placeholder_aperture'] = 'APERTURE' in c2
        else:
            SA, AP = c.A(c2.get('APERTURE')), c.A(ap)
            out['apertures_stored'] = [compare('==', SA.n, AP.n), c.forall(AP.n, lambda i: SA[i] == AP[i], 'apertures')]
        return out

