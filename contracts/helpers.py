"""Contracts for sedfitter/sed/helpers.py: convert_flux (C15)."""
import itertools

from sedvc import units
from sedvc.contractlib import Contract, contract
from sedvc.sym import Sc, compare, band, bor, bnot, implies, ite, arith
from sedvc.values import Quantity

U = units.BASE
FLUX_UNITS = {
    'mJy': U['mJy'], 'Jy': U['Jy'],
    'erg_cm2_s': units.unit_div(units.unit_div(U['erg'], units.unit_pow(U['cm'], 2)), U['s']),
    'erg_s': units.unit_div(U['erg'], U['s']),
    'W_m2': units.unit_div(U['W'], units.unit_pow(U['m'], 2)),
}
FNU = U['Jy'].dims
FLX = FLUX_UNITS['W_m2'].dims
LUM = FLUX_UNITS['erg_s'].dims


def family(unit):
    if unit.dims == FNU:
        return 'fnu'
    if unit.dims == FLX:
        return 'flux'
    if unit.dims == LUM:
        return 'lum'
    return None


def to_ref(v, unit, nu_hz, d_m):
    """value in `unit` -> integrated flux in W/m^2, from the statement: F = nu*F_nu, L = F*d^2."""
    x = v * unit.scale
    fam = family(unit)
    if fam == 'fnu':
        return x * nu_hz
    if fam == 'lum':
        return x / (d_m * d_m)
    return x


def from_ref(ref, unit, nu_hz, d_m):
    fam = family(unit)
    if fam == 'fnu':
        ref = ref / nu_hz
    elif fam == 'lum':
        ref = ref * (d_m * d_m)
    return ref / unit.scale


@contract
class ConvertFlux(Contract):
    name = 'sedfitter.sed.helpers.convert_flux'
    properties = ('C15', 'C12')
    variants = tuple('%s->%s' % p for p in itertools.product(sorted(FLUX_UNITS), repeat=2)) + ('mJy->K', 'K->mJy')

    def setup(self, c, variant):
        a, b = variant.split('->')
        ua = FLUX_UNITS.get(a, U['K'])
        ub = FLUX_UNITS.get(b, U['K'])
        A, N = c.int('n_ap'), c.int('n_wav')
        c.assume([A >= 1, N >= 1])
        return dict(nu=Quantity(c.array('nu', (N,)), U['Hz']), flux=Quantity(c.array('flux', (A, N)), ua), target_unit=ub,
                    distance=Quantity(c.real('dist'), U['kpc']))

    def requires(self, c, a):
        nu = c.A(a.nu)
        return {'nu_positive': c.forall(nu.n, lambda k: nu[k] > 0, 'nu>0'), 'distance_positive': a.distance.value > 0,
                'shapes': compare('==', c.A(a.flux).shape[-1], nu.n)}

    def raises(self, c, a):
        ok = family(a.flux.unit) is not None and family(a.target_unit) is not None
        return {'Exception': not ok}

    def result(self, c, a):
        F = c.A(a.flux)
        return Quantity(c.fresh_array('converted', F.shape), a.target_unit)

    def ensures(self, c, a, result, old):
        nu, F = c.A(a.nu), c.A(a.flux)
        nu_hz = lambda k: nu[k] * a.nu.unit.scale
        d_m = a.distance.value * a.distance.unit.scale
        ua, ub = a.flux.unit, a.target_unit
        R = c.A(result)
        out = {'unit': isinstance(result, Quantity) and result.unit.same_dims(ub),
               'relation': c.forall(list(F.shape), lambda i, k: R[i, k] * (result.unit.scale / ub.scale if isinstance(result, Quantity) else 1) == from_ref(to_ref(F[i, k], ua, nu_hz(k), d_m), ub, nu_hz(k), d_m), 'relation')}
        # lemmas over the contract (pure algebra on the spec): A->B->A is the identity, A->B->C equals A->C
        x, n_, d_ = c.real('x'), c.real('nu_any'), c.real('d_any')
        pos = band(n_ > 0, d_ > 0)
        back = from_ref(to_ref(from_ref(to_ref(x, ua, n_, d_), ub, n_, d_), ub, n_, d_), ua, n_, d_)
        out['roundtrip_lemma'] = implies(pos, back == x)
        for nm, uc in FLUX_UNITS.items():
            via = from_ref(to_ref(from_ref(to_ref(x, ua, n_, d_), ub, n_, d_), ub, n_, d_), uc, n_, d_)
            out['transitive_lemma(%s)' % nm] = implies(pos, via == from_ref(to_ref(x, ua, n_, d_), uc, n_, d_))
        return out
