"""Contracts for sedfitter/utils/integrate.py, utils/interpolate.py and filter/filter.py (C06)."""
import z3

from sedvc import units
from sedvc.contractlib import Contract, contract
from sedvc.sym import Sc, compare, band, bor, bnot, implies, ite, arith, smin, smax, fresh_real, fresh_int
from sedvc.values import Quantity, Opaque

UTIL = 'sedfitter.utils.'
FILTER = 'sedfitter.filter.filter.Filter'


def strictly_increasing(c, X):
    return c.forall([X.n, X.n], lambda k, l: implies(k < l, X[k] < X[l]), 'strictly increasing')


def strictly_monotone(c, X):
    n = X.n
    inc = X[0] < X[n - 1]
    return [c.forall([n, n], lambda k, l: implies(band(inc, k < l), X[k] < X[l]), 'increasing'),
            c.forall([n, n], lambda k, l: implies(band(bnot(inc), k < l), X[k] > X[l]), 'decreasing'),
            bnot(X[0] == X[n - 1])]


def trapezium(c, X, Y):
    n = X.n
    return c.Sum(n - 1, lambda k: 0.5 * (X[k + 1] - X[k]) * (Y[k + 1] + Y[k]))


@contract
class Integrate(Contract):
    """integrate(x, y) is the trapezium sum; y is not modified (no NaN under A-REAL)."""
    name = UTIL + 'integrate.integrate'
    properties = ('C06',)

    def setup(self, c):
        n = c.int('n')
        c.assume(n >= 1)
        return dict(x=c.array('x', (n,)), y=c.array('y', (n,)))

    def requires(self, c, a):
        return {'same_length': compare('==', c.A(a.x).n, c.A(a.y).n), 'nonempty': c.A(a.x).n >= 1}

    def result(self, c, a):
        X, Y = c.A(a.x), c.A(a.y)
        return trapezium(c, X, Y)

    def ensures(self, c, a, result, old):
        X, Y = c.A(a.x), c.A(a.y)
        return {'trapezium': compare('==', result, trapezium(c, X, Y))}


@contract
class Interp1dFast(Contract):
    """interp1d_fast(x, y, xval) for a scalar inside the table: the value at xval of the
    straight line through the end points of EVERY tabulated segment that contains xval
    (so also exact at nodes, including the first one where the code indexes x[-1])."""
    name = UTIL + 'interpolate.interp1d_fast'
    properties = ('C06',)

    def setup(self, c):
        n = c.int('n')
        c.assume(n >= 2)
        return dict(x=c.array('x', (n,)), y=c.array('y', (n,)), xval=c.real('xval'))

    def requires(self, c, a):
        X, Y = c.A(a.x), c.A(a.y)
        n = X.n
        return {'same_length': compare('==', n, Y.n), 'two_points': n >= 2,
                'increasing': strictly_increasing(c, X),
                'inside': band(X[0] <= a.xval, a.xval <= X[n - 1])}

    def result(self, c, a):
        return Sc(fresh_real('interp'))

    def ensures(self, c, a, result, old):
        X, Y = c.A(a.x), c.A(a.y)
        v = a.xval
        return {'linear_on_every_bracketing_segment':
                c.forall(X.n - 1, lambda k: implies(band(X[k] <= v, v <= X[k + 1]),
                                                    result == Y[k] + (v - X[k]) * (Y[k + 1] - Y[k]) / (X[k + 1] - X[k])), 'linear')}


_PLI = {}
__import__('sedvc.sym', fromlist=['x']).RESET_HOOKS.append(_PLI.clear)


def pl_integral_sum(c, X, Y, lo, hi):
    """Exact integral over [lo,hi] of the piecewise-linear function through (X,Y), X increasing:
    the sum over ALL tabulated segments of the trapezium between the segment's end points
    clipped to [lo,hi] (zero width for segments outside)."""
    n = X.n

    def seg(k):
        l = smin(smax(X[k], lo), hi)
        r = smin(smax(X[k + 1], lo), hi)
        line = lambda v: Y[k] + (v - X[k]) * (Y[k + 1] - Y[k]) / (X[k + 1] - X[k])
        return 0.5 * (r - l) * (line(l) + line(r))
    return c.Sum(n - 1, seg, opaque=True)


def pl_integral_spec(c, X, Y, lo, hi):
    """The named spec function PLI_f(lo, hi) of the table (X, Y), defined (lazily unfolded
    axiom) as pl_integral_sum.  Naming it lets equal limits give equal integrals by congruence."""
    K = Sc(z3.Int('K!'))
    key = '|'.join(str(getattr(v, 't', v)) for v in (X[K], Y[K]))
    if key not in _PLI:
        _PLI[key] = c.fn('PLI%s' % ('' if not _PLI else len(_PLI)), 'real', 'real', 'real')
    f = _PLI[key]
    tag = ('pli', key)
    if tag not in c.st.tags:
        c.st.tags.add(tag)
        c.assume(c.forall(['real', 'real'], lambda a, b: f(a, b) == pl_integral_sum(c, X, Y, a, b), 'def.PLI', lazy=True))
    return f(lo, hi)


def ascending_view(c, X, Y):
    """(x, y) read in increasing-x order whatever the storage order."""
    n = X.n
    inc = X[0] < X[n - 1]
    known = c.decide(inc) if hasattr(c, 'decide') else None
    if known is not None:
        inc = known          # the storage order is already fixed on this path: no case split in the clause

    class V(object):
        def __init__(self, A):
            self.A = A
            self.n = n

        def __getitem__(self, k):
            return ite(inc, self.A[k], self.A[n - 1 - k])
    return V(X), V(Y)


@contract
class IntegrateSubset(Contract):
    """integrate_subset(x, y, xmin, xmax), for x stored in either order and the limits in either order.
    PROVED on the real body (all table lengths): equal limits give 0; otherwise the function hands to
    integrate() the grid  lo, every tabulated x strictly between lo and hi (all of them, in order, nothing else),
    hi  with the tabulated y at the interior nodes and, at both ends, the value of the straight line of every
    tabulated segment containing the end; the result is integrate() of that grid = its trapezium sum.
    ASSUMED (M1, calculus): the trapezium sum over a grid that contains every breakpoint of a piecewise-linear
    function between lo and hi is its exact integral -- which is what callers are given (`result`)."""
    name = UTIL + 'integrate.integrate_subset'
    properties = ('C06',)
    variants = ('table',)

    def setup(self, c, variant):
        n = c.int('n')
        c.assume(n >= 2)
        return dict(x=c.array('x', (n,)), y=c.array('y', (n,)), xmin=c.real('xmin'), xmax=c.real('xmax'))

    def requires(self, c, a):
        X, Y = c.A(a.x), c.A(a.y)
        n = X.n
        lo, hi = smin(X[0], X[n - 1]), smax(X[0], X[n - 1])
        return {'same_length': compare('==', n, Y.n), 'two_points': n >= 2,
                'monotone': strictly_monotone(c, X),
                'limits_inside': c.and_(lo <= a.xmin, a.xmin <= hi, lo <= a.xmax, a.xmax <= hi)}

    def result(self, c, a):
        X, Y = c.A(a.x), c.A(a.y)
        XA, YA = ascending_view(c, X, Y)
        return pl_integral_spec(c, XA, YA, smin(a.xmin, a.xmax), smax(a.xmin, a.xmax))

    def apply_ensures(self, c, a, result, old):
        return {}

    def ensures(self, c, a, result, old):
        if c.mode != 'verify':
            return {}
        X, Y = old.A(a.x), old.A(a.y)
        n = X.n
        XA, YA = ascending_view(c, X, Y)           # (decided with the facts of the path taken)
        swapped = c.decide(a.xmin > a.xmax)
        if swapped is None:
            lo, hi = smin(a.xmin, a.xmax), smax(a.xmin, a.xmax)
        else:
            lo, hi = (a.xmax, a.xmin) if swapped else (a.xmin, a.xmax)
        calls = [e for e in c.st.events if e[0] == 'call' and e[1] == UTIL + 'integrate.integrate']
        rets = [e for e in c.st.events if e[0] == 'ret' and e[1] == UTIL + 'integrate.integrate']
        if not calls:
            return {'equal_limits_give_zero': band(a.xmin == a.xmax, compare('==', result, 0))}
        xs, ys = c.A(calls[0][2]['x']), c.A(calls[0][2]['y'])
        L = xs.n
        line = lambda k, v: YA[k] + (v - XA[k]) * (YA[k + 1] - YA[k]) / (XA[k + 1] - XA[k])
        # position of tabulated node k in the sub-grid: the nodes strictly inside keep their order, so node k sits at
        # 1 + (number of nodes <= lo ... ) -- expressed through the first interior node j0 (witness: the code's i1)
        j0 = c.witness_scalar('i1')
        j1 = c.witness_scalar('i2')
        s_lo = ite(lo == XA[0], 0, j0 - 1)
        s_hi = ite(hi == XA[n - 1], n - 2, j1 - 1)
        return {'limits_differ': bnot(a.xmin == a.xmax),
                'result_is_integrate_of_the_sub_grid': len(calls) == 1 and len(rets) == 1 and (result is rets[0][2] or compare('==', result, rets[0][2])),
                'same_length': compare('==', xs.n, ys.n),
                'ends_are_the_limits': band(L >= 2, band(xs[0] == lo, xs[L - 1] == hi)),
                'interior_is_sound': c.forall(L, lambda t: implies(band(t >= 1, t < L - 1),
                                                                   c.and_(j0 + t - 1 >= 0, j0 + t - 1 < n, xs[t] == XA[j0 + t - 1], ys[t] == YA[j0 + t - 1], lo <= xs[t], xs[t] < hi)), 'sound'),
                'interior_is_complete': c.forall(n, lambda k: implies(band(lo < XA[k], XA[k] < hi), c.and_(k - j0 + 1 >= 1, k - j0 + 1 < L - 1)), 'complete'),
                # ... on a tabulated segment containing the end (the code's own choice of segment is the witness; that every
                # containing segment gives the same value is continuity of the piecewise-linear function, part of M1)
                'end_values_are_the_interpolants': [band(c.and_(s_lo >= 0, s_lo < n - 1, XA[s_lo] <= lo, lo <= XA[s_lo + 1]), ys[0] == line(s_lo, lo)),
                                                    band(c.and_(s_hi >= 0, s_hi < n - 1, XA[s_hi] <= hi, hi <= XA[s_hi + 1]), ys[L - 1] == line(s_hi, hi))]}


def in_hz(c, q):
    """the frequencies of a Quantity array as an array of numbers in Hz (the unit the clauses are stated in)"""
    raw = c.A(q)
    k = q.unit.scale / units.BASE['Hz'].scale
    if not isinstance(k, Sc) and k == 1:
        return raw
    return c.A(c.defined_array((raw.n,), lambda idx: raw[idx[0]] * k))


def make_filter(c, prefix='flt', nu_unit='Hz'):
    n = c.int(prefix + '_n')
    c.assume(n >= 2)
    nu = Quantity(c.array(prefix + '_nu', (n,)), units.BASE[nu_unit])
    cw = c.real(prefix + '_cw')
    # object invariant: `_wavelength` is only ever stored by the validating setter (validate_scalar, 'strictly-positive')
    c.assume(cw > 0)
    return c.obj(FILTER, name=Opaque('str', prefix), _wavelength=Quantity(cw, units.BASE['micron']),
                 _nu=nu, _r=c.array(prefix + '_resp', (n,)))


@contract
class Normalize(Contract):
    name = FILTER + '.normalize'
    properties = ('C06',)
    modifies = ('self._r',)
    variants = ('Hz', 'GHz')            # (the unit the filter's frequencies are held in)

    def setup(self, c, variant):
        return dict(self=make_filter(c, nu_unit=variant))

    def requires(self, c, a):
        nu, r = in_hz(c, c.attr(a.self, '_nu')), c.A(c.attr(a.self, '_r'))
        return {'integral_nonzero': bnot(trapezium(c, nu, r) == 0)}

    def ensures(self, c, a, result, old):
        nu, r0 = in_hz(old, old.attr(a.self, '_nu')), old.A(old.attr(a.self, '_r'))
        r1 = c.A(c.attr(a.self, '_r'))
        I = trapezium(c, nu, r0)
        return {'unit_integral': [compare('==', r1.n, r0.n), c.forall(r0.n, lambda k: r1[k] == r0[k] / c.abs(I), 'R/|I|')],
                'nu_unchanged': c.attr(a.self, '_nu') is old.attr(a.self, '_nu') or c.attr(a.self, '_nu').value.addr == old.attr(a.self, '_nu').value.addr}


@contract
class Rebin(Contract):
    """Filter.rebin(nu_new): response i of the returned filter is the exact integral of the
    piecewise-linear response over the bin of frequency i: bounded by the midpoints to its
    neighbours (the first/last frequency for the end bins), restricted (clipped) to the
    filter's own frequency range [min nu, max nu], for either storage order of either grid."""
    name = FILTER + '.rebin'
    properties = ('C06', 'C07')
    variants = ('Hz<-Hz', 'GHz<-Hz', 'Hz<-GHz')      # (unit of the filter's frequencies <- unit of the new grid)

    def setup(self, c, variant):
        m = c.int('n_new')
        c.assume(m >= 1)
        fu, nu_ = variant.split('<-')
        return dict(self=make_filter(c, nu_unit=fu), nu_new=Quantity(c.array('nu_new', (m,)), units.BASE[nu_]))

    def requires(self, c, a):
        nu = in_hz(c, c.attr(a.self, '_nu'))
        new = in_hz(c, a.nu_new)
        return {'filter_monotone': strictly_monotone(c, nu),
                'positive': [c.forall(nu.n, lambda k: nu[k] > 0, 'nu>0'), c.forall(new.n, lambda k: new[k] > 0, 'nu_new>0')],
                'lengths': compare('==', nu.n, c.A(c.attr(a.self, '_r')).n)}

    def lemmas(self, c, a):
        nu = in_hz(c, c.attr(a.self, '_nu'))
        n = nu.n
        f = c.forall(n, lambda k: band(smin(nu[0], nu[n - 1]) <= nu[k], nu[k] <= smax(nu[0], nu[n - 1])), 'monotone => range is [first,last]')
        return {'range_of_monotone': (f, f)}

    def result(self, c, a):
        m = c.A(a.nu_new).n
        res = c.obj(FILTER, name=c.attr(a.self, 'name'), _wavelength=c.attr(a.self, '_wavelength'), _nu=a.nu_new,
                    _r=c.fresh_array('rebinned', (m,)))
        # ghost provenance: which filter was re-binned, to which grid
        c.interp.__dict__.setdefault('rebin_ghost', {})[res.addr] = (a.self, a.nu_new)
        return res

    def ensures(self, c, a, result, old):
        nu, r = in_hz(c, c.attr(a.self, '_nu')), c.A(c.attr(a.self, '_r'))
        new = in_hz(c, a.nu_new)
        m = new.n
        R = c.A(c.attr(result, '_r'))
        fmin, fmax = c.Min(nu), c.Max(nu)        # the filter's own frequency range
        XA, YA = ascending_view(c, nu, r)

        def edges(i):
            e1 = ite(i == 0, new[0], 0.5 * (new[i - 1] + new[i]))
            e2 = ite(i == m - 1, new[m - 1], 0.5 * (new[i] + new[i + 1]))
            return smin(smax(e1, fmin), fmax), smin(smax(e2, fmin), fmax)

        def resp(i):
            e1, e2 = edges(i)
            return R[i] == ite(e1 == e2, 0., pl_integral_spec(c, XA, YA, smin(e1, e2), smax(e1, e2)))
        return {'response_i': [compare('==', R.n, m), c.forall(m, resp, 'response_i')],
                'grid_is_new_grid': c.attr(result, '_nu') is a.nu_new or getattr(c.attr(result, '_nu'), 'value', None) is a.nu_new.value,
                'central_wavelength_carried': c.attr(result, '_wavelength') is c.attr(a.self, '_wavelength')}
