"""Contracts for sedfitter/source/source.py (C01, C03, C05, C11, C20).

The per-point transformation is taken from the data-format page (docs/data.rst) and
the C03 statement, not from the code."""
from sedvc.contractlib import Contract, contract
from sedvc.sym import Sc, compare, band, bor, bnot, implies, ite, arith
from sedvc.values import Opaque

SOURCE = 'sedfitter.source.source.Source'
FLAGS = (0, 1, 2, 3, 4, 9)


def make_source(c, prefix='src', n=None):
    N = c.int(prefix + '_n') if n is None else n
    c.assume(N >= 0)
    valid = c.array(prefix + '_valid', (N,), 'int')
    flux = c.array(prefix + '_flux', (N,))
    error = c.array(prefix + '_error', (N,))
    return c.obj(SOURCE, _name=Opaque('str', prefix + '_name'), _x=c.real(prefix + '_x'), _y=c.real(prefix + '_y'),
                 _valid=valid, _flux=flux, _error=error)


def source_arrays(c, source):
    return c.A(c.attr(source, '_valid')), c.A(c.attr(source, '_flux')), c.A(c.attr(source, '_error'))


def well_formed(c, source, limits_conf=True):
    """Type/safety invariant of a photometry record, as the property quantifiers state it:
    flags in {0,1,2,3,4,9}; fitted and limit points carry positive fluxes; fitted points
    non-zero errors; limit 'errors' are confidences in [0, 1).  Points flagged 0 or 9
    may carry ANY values."""
    v, f, e = source_arrays(c, source)

    def pt(j):
        return [c.isin(v[j], FLAGS),
                implies(bor(v[j] == 1, bor(v[j] == 2, v[j] == 3)), f[j] > 0),
                implies(v[j] == 1, e[j] > 0),
                implies(v[j] == 4, bnot(e[j] == 0)),
                implies(bor(v[j] == 2, v[j] == 3), band(e[j] >= 0, e[j] < 1))]
    return c.forall(v.n, pt, 'source.well_formed')


# spec functions of the data-format page -------------------------------------------------

def spec_log_error(c, v, f, e):
    return ite(v == 1, c.abs(e / f) / c.LN10, ite(bor(v == 2, bor(v == 3, v == 4)), e, 0.))


def spec_weight(c, v, f, e):
    le1 = c.abs(e / f) / c.LN10
    return ite(v == 1, 1. / (le1 * le1), ite(v == 4, 1. / (e * e), 0.))


def spec_log_flux(c, v, f, e):
    return ite(v == 1, c.log10(f) - 0.5 * (e / f) * (e / f) / c.LN10,
               ite(bor(v == 2, v == 3), c.log10(f), ite(v == 4, f, 0.)))


_SPEC = {}
__import__('sedvc.sym', fromlist=['x']).RESET_HOOKS.append(_SPEC.clear)


class SpecSource(object):
    """Spec-level view of a source: W_j, LF_j, LE_j as *named* spec functions (uninterpreted
    symbols with their defining axioms from the data-format page as quantified
    hypotheses), so that sums over them have small canonical atoms.  LF and LE are left
    unspecified at plot-only (flag 9) points."""

    def __init__(self, c, source):
        import z3
        self.c = c
        self.v, self.f, self.e = v, f, e = source_arrays(c, source)
        self.N = v.n
        K = Sc(z3.Int('K!'))
        key = '|'.join(str(getattr(x[K], 't', x[K])) for x in (v, f, e))
        if key not in _SPEC:
            n = len(_SPEC)
            sfx = '' if n == 0 else str(n)
            _SPEC[key] = (c.fn('W' + sfx, 'int', 'real'), c.fn('LF' + sfx, 'int', 'real'), c.fn('LE' + sfx, 'int', 'real'))
        self.W, self.LF, self.LE = _SPEC[key]
        tag = ('spec-source', key)
        if tag not in c.st.tags:
            c.st.tags.add(tag)
            W, LF, LE = self.W, self.LF, self.LE
            c.assume(c.forall(self.N, lambda j: W(j) == spec_weight(c, v[j], f[j], e[j]), 'def.W', lazy=True))
            c.assume(c.forall(self.N, lambda j: implies(bnot(v[j] == 9), LF(j) == spec_log_flux(c, v[j], f[j], e[j])), 'def.LF', lazy=True))
            c.assume(c.forall(self.N, lambda j: implies(bnot(v[j] == 9), LE(j) == spec_log_error(c, v[j], f[j], e[j])), 'def.LE', lazy=True))


@contract
class GetLogFluxes(Contract):
    name = SOURCE + '.get_log_fluxes'
    properties = ('C01', 'C03', 'C11')

    def setup(self, c):
        return dict(self=make_source(c))

    def requires(self, c, a):
        return {'well_formed': well_formed(c, a.self)}

    def result(self, c, a):
        s = a.self
        v, f, e = source_arrays(c, s)
        N = v.n
        # definitional results: the arrays ARE the named spec functions of this source
        sp = SpecSource(c, s)
        W = c.defined_array((N,), lambda idx: sp.W(idx[0]))
        LF = c.defined_array((N,), lambda idx: sp.LF(idx[0]))
        LE = c.defined_array((N,), lambda idx: sp.LE(idx[0]))
        return (W, LF, LE)

    def ensures(self, c, a, result, old):
        s = a.self
        v, f, e = source_arrays(c, s)
        W, LF, LE = c.A(result[0]), c.A(result[1]), c.A(result[2])
        N = v.n
        return {
            'shape': band(compare('==', W.n, N), band(compare('==', LF.n, N), compare('==', LE.n, N))),
            # fitted points: the documented transform; everything else has zero weight
            'weight': c.forall(N, lambda j: W[j] == spec_weight(c, v[j], f[j], e[j]), 'weight', lazy=True),
            'weight_nonneg': c.forall(N, lambda j: W[j] >= 0, 'weight>=0'),
            'weight_pos_fitted': c.forall(N, lambda j: implies(bor(v[j] == 1, v[j] == 4), W[j] > 0), 'weight>0'),
            # log fluxes: specified for every flag except 9 (plot only: any value)
            'log_flux': c.forall(N, lambda j: implies(bnot(v[j] == 9), LF[j] == spec_log_flux(c, v[j], f[j], e[j])), 'log_flux', lazy=True),
            'log_error': c.forall(N, lambda j: implies(bnot(v[j] == 9), LE[j] == spec_log_error(c, v[j], f[j], e[j])), 'log_error', lazy=True),
        }


@contract
class NData(Contract):
    name = SOURCE + '.n_data'
    properties = ('C03', 'C05', 'C10', 'C18')

    def setup(self, c):
        return dict(self=make_source(c))

    def result(self, c, a):
        from sedvc.sym import fresh_int
        return Sc(fresh_int('n_data'))

    def ensures(self, c, a, result, old):
        v, f, e = source_arrays(c, a.self)
        return {'counts_1_and_4': compare('==', result, c.Sum(v.n, lambda j: ite(bor(v[j] == 1, v[j] == 4), 1, 0), opaque=True))}


@contract
class FromAscii(Contract):
    """Source.from_ascii(line): with L whitespace-separated columns, L < 3 ends the input
    (EOFError); otherwise the line is accepted iff L = 3(n+1) and every flag is in
    {0,1,2,3,4,9}, and then name, coordinates, the n flags and the n (flux, error) pairs are
    taken from the documented columns.  (Tokens are assumed to be well-formed numbers: a
    non-numeric token makes numpy raise ValueError, which is a rejection as well.)"""
    name = SOURCE + '.from_ascii'
    properties = ('C20', 'C10')

    def setup(self, c):
        import z3
        from sedvc.interp import ClassVal
        L = z3.Int('n_columns')
        c.assume(Sc(L) >= 0)
        ci = c.interp.repo.find_class(SOURCE)
        return dict(cls=ClassVal(ci), line=Opaque('line', L))

    def _cols(self, c, a):
        from sedvc.extmodels import PARSE_INT, PARSE_FLOAT
        L = Sc(a.line.info)
        pi = lambda k: Sc(PARSE_INT(__import__('sedvc.sym', fromlist=['x']).to_z3(k, 'int')))
        pf = lambda k: Sc(PARSE_FLOAT(__import__('sedvc.sym', fromlist=['x']).to_z3(k, 'int')))
        return L, pi, pf

    def raises(self, c, a):
        L, pi, pf = self._cols(c, a)
        n = (L - 3) // 3
        bad_flag = c.Any(n, lambda k: bnot(c.isin(pi(3 + k), FLAGS)))
        return {'EOFError': L < 3,
                'ValueError': band(L >= 3, bor(bnot(L % 3 == 0), bad_flag))}

    def result(self, c, a):
        L, pi, pf = self._cols(c, a)
        n = (L - 3) // 3
        return c.obj(SOURCE, _name=Opaque('token', 0), _x=pf(1), _y=pf(2),
                     _valid=c.defined_array((n,), lambda idx: pi(3 + idx[0]), 'int'),
                     _flux=c.defined_array((n,), lambda idx: pf(3 + n + 2 * idx[0])),
                     _error=c.defined_array((n,), lambda idx: pf(4 + n + 2 * idx[0])))

    def ensures(self, c, a, result, old):
        L, pi, pf = self._cols(c, a)
        s = result
        v, f, e = source_arrays(c, s)
        n = v.n
        nm = c.attr(s, '_name')
        return {
            'layout': band(L >= 3, compare('==', L, 3 * (n + 1))),
            'name_is_column_1': isinstance(nm, Opaque) and nm.tag == 'token' and (nm.info == 0 or (isinstance(nm.info, int) and nm.info == 0)),
            'coordinates': band(c.attr(s, '_x') == pf(1), c.attr(s, '_y') == pf(2)),
            'lengths': band(compare('==', f.n, n), compare('==', e.n, n)),
            'column_association': c.forall(n, lambda k: c.and_(v[k] == pi(3 + k), f[k] == pf(3 + n + 2 * k), e[k] == pf(4 + n + 2 * k)), 'columns'),
            'flags_valid': c.forall(n, lambda k: c.isin(v[k], FLAGS), 'flags'),
        }
