"""AST interpreter of the real repository source over symbolic values.

Statements map a state to a list of states (forking at symbolic branches);
expressions are evaluated inside one state.  Repository callees are replaced by
their contracts (modular verification); small accessors without a contract are
inlined and reported as such.
"""
import ast
import math

import z3

from . import sym, npmodel as npm, units
from .sym import (Sc, Unsupported, to_z3, wrap, ite, band, bor, bnot, compare, arith, implies,
                  fresh_int, fresh_real, fresh_bool, fresh_name, Forall, flatten)
from .values import (ArrRef, ObjRef, ListRef, DictRef, PureArr, Masked, Quantity, Unit, Opaque, Abstract,
                     ArrCell, ObjCell, ListCell, DictCell, is_array, uf_array)
from .npmodel import Raised


class ModuleVal(object):
    def __init__(self, name):
        self.name = name

    def __repr__(self):
        return "ModuleVal(%s)" % self.name


class ExtFunc(object):
    """A function of an external library, identified by dotted name."""

    def __init__(self, name):
        self.name = name

    def __repr__(self):
        return "ExtFunc(%s)" % self.name


class RepoFunc(object):
    def __init__(self, qualname, bound_self=None, bound_cls=None):
        self.qualname = qualname
        self.bound_self = bound_self
        self.bound_cls = bound_cls


class ClassVal(object):
    def __init__(self, ci):
        self.ci = ci
        self.qualname = ci.qualname


class BoundBuiltin(object):
    def __init__(self, obj, name):
        self.obj = obj
        self.name = name


class ExcClass(object):
    def __init__(self, name):
        self.name = name


class TypeVal(object):
    def __init__(self, name):
        self.name = name

    def __eq__(self, other):
        return isinstance(other, TypeVal) and other.name == self.name

    def __hash__(self):
        return hash(self.name)


class LambdaVal(object):
    def __init__(self, node, env, frame):
        self.node = node
        self.env = env
        self.frame = frame


EXC_NAMES = {'Exception', 'ValueError', 'TypeError', 'EOFError', 'IndexError', 'KeyError',
             'AttributeError', 'AssertionError', 'ZeroDivisionError', 'IOError', 'OSError'}

DROPPED_CALLS = {'print'}
DROPPED_ATTR_CALLS = {('log', 'info'), ('log', 'debug'), ('log', 'warning'), ('log', 'warn')}


class Frame(object):
    def __init__(self, module, qualname, ci=None):
        self.module = module        # ModuleInfo
        self.qualname = qualname
        self.ci = ci
        self.loop_ordinal = 0


class Interp(object):
    def __init__(self, repo, contracts, extmodels):
        self.repo = repo
        self.contracts = contracts      # qualname -> Contract
        self.ext = extmodels            # dotted name -> python callable(interp, st, args, kwargs)
        self.inlined = set()
        self.called_contracts = set()
        self._pending_forks = []
        import os as _os
        # stack of lists of requested alternative outcomes of branching helper functions, one list per statement being executed
        self._inline_requests = None if _os.environ.get('SEDVC_NO_INLINE_BRANCHES') == '1' else []
        self.dropped = {}
        self.loop_specs = {}            # (qualname, ordinal) -> LoopSpec

    # ------------------------------------------------------------------
    # entry
    # ------------------------------------------------------------------
    def run_function(self, qualname, args, st):
        """Symbolically execute the body of repo function `qualname`.
        args: dict param -> value.  Returns the list of final states."""
        found = self.repo.find_function(qualname)
        if found is None:
            raise Unsupported("function %s not found in the repository" % qualname)
        mi, ci, fdef = found
        fr = Frame(mi, qualname, ci)
        st.env = dict(args)
        self._bind_defaults(fdef, st, fr)
        outs = self.exec_block(self._body(fdef, fr), st, fr)
        for s in outs:
            if s.status == 'run':
                s.status = 'return'
                s.retval = None
        return outs

    def _bind_defaults(self, fdef, st, fr):
        a = fdef.args
        pos = a.args
        defaults = a.defaults
        for p, d in zip(pos[len(pos) - len(defaults):], defaults):
            if p.arg not in st.env:
                st.env[p.arg] = self.eval(d, st, fr)
        for p, d in zip(a.kwonlyargs, a.kw_defaults):
            if p.arg not in st.env and d is not None:
                st.env[p.arg] = self.eval(d, st, fr)
        for p in pos:
            if p.arg not in st.env:
                raise Unsupported("missing argument %s of %s" % (p.arg, fr.qualname))

    def _body(self, fdef, fr):
        body = fdef.body
        if body and isinstance(body[0], ast.Expr) and isinstance(getattr(body[0], 'value', None), ast.Constant) \
                and isinstance(body[0].value.value, str):
            self._drop(fr, 'docstring')
            body = body[1:]
        return body

    def _drop(self, fr, what):
        key = (fr.qualname, what)
        self.dropped[key] = self.dropped.get(key, 0) + 1

    # ------------------------------------------------------------------
    # statements
    # ------------------------------------------------------------------
    def exec_block(self, stmts, st, fr):
        states = [st]
        for node in stmts:
            nxt = []
            for s in states:
                if s.status != 'run':
                    nxt.append(s)
                    continue
                nxt.extend(self._exec_stmt_all_choices(node, s, fr))
            states = nxt
            if len(states) > 256:
                raise Unsupported("path explosion in %s" % fr.qualname)
        return states

    def _exec_stmt_once(self, node, s, fr):
        try:
            return self.exec_stmt(node, s, fr)
        except Raised as e:
            s.status = 'raise'
            s.exc = (e.exc, e.msg, getattr(node, 'lineno', 0))
            return [s]

    def _exec_stmt_all_choices(self, node, s, fr):
        """One statement, on every path.  A helper function without a contract is inlined (call_repo); if its body
        branches on symbolic data the call has several normal outcomes, but an expression can only continue with one.
        The first outcome is taken and the others are REQUESTED: the statement is then executed again from a copy of
        the state it started in, with the choice forced, until every combination of outcomes has been taken.  (States
        that fork off while forced choices are still outstanding repeat a path of an earlier execution and are
        dropped.)"""
        if self._inline_requests is None:
            return self._exec_stmt_once(node, s, fr)        # (replay switched off: SEDVC_NO_INLINE_BRANCHES=1)
        # (this statement may itself be part of a helper's body that is being replayed for an OUTER statement: the outer
        #  statement's outstanding choices are put aside while it runs and given back to every state it ends in)
        outer_f, outer_t = list(getattr(s, 'forced_choices', ())), list(getattr(s, 'taken_choices', ()))
        snapshot = s.fork()
        snapshot.inline_depth = getattr(s, 'inline_depth', 0)
        s.forced_choices, s.taken_choices = [], []
        self._inline_requests.append([])
        try:
            outs = list(self._exec_stmt_once(node, s, fr))
            todo = self._inline_requests[-1]
            done = 0
            while done < len(todo):
                choices = todo[done]
                done += 1
                if done > 64:
                    raise Unsupported("too many combinations of branches in helper functions called by one statement of %s" % fr.qualname)
                s2 = snapshot.fork()
                s2.inline_depth = snapshot.inline_depth
                s2.forced_choices, s2.taken_choices = list(choices), []
                more = self._exec_stmt_once(node, s2, fr)
                if getattr(s2, 'forced_choices', None):
                    raise Unsupported("replaying the branches of a helper function did not reach them again in %s" % fr.qualname)
                outs.extend(o for o in more if o is s2 or not getattr(o, 'forced_choices', None))
            for o in outs:
                o.forced_choices, o.taken_choices = list(outer_f), list(outer_t)
            return outs
        finally:
            self._inline_requests.pop()

    def exec_stmt(self, node, st, fr):
        m = getattr(self, 'stmt_' + type(node).__name__, None)
        if m is None:
            raise Unsupported("statement %s at %s:%d" % (type(node).__name__, fr.qualname, node.lineno))
        return m(node, st, fr)

    def stmt_Pass(self, node, st, fr):
        return [st]

    def stmt_Expr(self, node, st, fr):
        v = node.value
        if isinstance(v, ast.Constant):
            return [st]
        if isinstance(v, ast.Call):
            f = v.func
            if isinstance(f, ast.Name) and f.id in DROPPED_CALLS:
                self._drop(fr, f.id)
                return [st]
            if isinstance(f, ast.Attribute) and isinstance(f.value, ast.Name):
                if (f.value.id, f.attr) in DROPPED_ATTR_CALLS:
                    self._drop(fr, f.value.id + '.' + f.attr)
                    return [st]
                if f.attr in ('update',) and isinstance(st.env.get(f.value.id), Opaque) and st.env[f.value.id].tag == 'ProgressBar':
                    self._drop(fr, 'ProgressBar.update')
                    return [st]
                if f.attr == 'display' and isinstance(st.env.get(f.value.id), Opaque) and st.env[f.value.id].tag == 'Timer':
                    self._drop(fr, 'Timer.display')
                    return [st]
        return self._eval_forking(v, st, fr, lambda s, val: None)

    def _eval_forking(self, expr, st, fr, sink):
        """Evaluate expr; contract calls that may raise fork the state."""
        self._pending_forks = []
        val = self.eval(expr, st, fr)
        forks = self._pending_forks
        self._pending_forks = []
        sink(st, val)
        forks = forks + self._pending_forks
        self._pending_forks = []
        return [st] + forks

    def stmt_Assign(self, node, st, fr):
        def sink(s, val):
            val = s.box(val)
            for tgt in node.targets:
                self.assign(tgt, val, s, fr)
        return self._eval_forking(node.value, st, fr, sink)

    def stmt_AugAssign(self, node, st, fr):
        cur = self.eval(node.target, st, fr) if not isinstance(node.target, ast.Name) else self.load_name(node.target.id, st, fr)
        rhs = self.eval(node.value, st, fr)
        val = self.binop(type(node.op).__name__, cur, rhs, st)
        if isinstance(cur, ArrRef) and is_array(val) and isinstance(node.target, ast.Name):
            # numpy in-place operator: writes into the existing buffer
            shape, fn, kind = npm.info(st, val)
            c = st.heap[cur.addr]
            if cur.view is None:
                st.heap[cur.addr] = ArrCell(c.shape, fn, c.kind)
                return [st]
        self.assign(node.target, st.box(val), st, fr)
        return [st]

    def assign(self, tgt, val, st, fr):
        if isinstance(tgt, ast.Name):
            st.env[tgt.id] = val
        elif isinstance(tgt, (ast.Tuple, ast.List)):
            vals = self.unpack(val, len(tgt.elts), st)
            for t, v in zip(tgt.elts, vals):
                self.assign(t, st.box(v), st, fr)
        elif isinstance(tgt, ast.Attribute):
            obj = self.eval(tgt.value, st, fr)
            self.set_attribute(obj, tgt.attr, val, st, fr)
        elif isinstance(tgt, ast.Subscript):
            obj = self.eval(tgt.value, st, fr)
            key = self.eval_key(tgt.slice, st, fr)
            self.store_subscript(obj, key, val, st, fr)
        else:
            raise Unsupported("assignment target %s" % type(tgt).__name__)

    def unpack(self, val, n, st):
        if isinstance(val, (tuple, list)):
            if len(val) != n:
                raise Raised('ValueError', 'unpack')
            return list(val)
        if isinstance(val, ListRef):
            items = st.heap[val.addr].items
            if len(items) != n:
                raise Raised('ValueError', 'unpack')
            return list(items)
        if is_array(val):
            shape = npm.shape_of(st, val)
            if isinstance(shape[0], int) and shape[0] == n:
                return [npm.getitem(st, val, k) for k in range(n)]
        raise Unsupported("unpacking %r" % (val,))

    def store_subscript(self, obj, key, val, st, fr):
        if isinstance(obj, DictRef):
            c = st.heap[obj.addr]
            items = dict(c.items)
            items[self._dkey(key)] = val
            st.heap[obj.addr] = DictCell(items)
            return
        if isinstance(obj, ListRef):
            c = st.heap[obj.addr]
            if not isinstance(key, int):
                raise Unsupported("list store at symbolic index")
            items = list(c.items)
            items[key] = val
            st.heap[obj.addr] = ListCell(items)
            return
        if isinstance(obj, (ArrRef, Quantity)):
            if isinstance(val, Opaque) and val.tag == 'format' and all(isinstance(x, (Sc, int)) for x in val.info[1]):
                from .extmodels import format_code
                val = format_code(val.info[0], val.info[1])        # strings in arrays are abstract codes
            npm.setitem(st, obj, key, val)
            return
        if isinstance(obj, ObjRef) and st.heap[obj.addr].cls == '<table>':
            from .extmodels import table_setitem
            table_setitem(self, st, obj, key, val)
            return
        if isinstance(obj, Abstract) and obj.tag == 'attr':
            st.events.append(('store', obj.key[0], obj.key[1], key, val))
            return
        if isinstance(obj, PureArr):
            raise Unsupported("store into an unnamed temporary array")
        raise Unsupported("subscript store on %r" % (obj,))

    @staticmethod
    def _dkey(k):
        if isinstance(k, (str, int, float, tuple)):
            return k
        if isinstance(k, Opaque):
            return k            # an uninterpreted string: keyed by identity
        raise Unsupported("dictionary key %r" % (k,))

    def stmt_Return(self, node, st, fr):
        def sink(s, val):
            s.status = 'return'
            s.retval = val
        if node.value is None:
            st.status = 'return'
            st.retval = None
            return [st]
        return self._eval_forking(node.value, st, fr, sink)

    def stmt_Raise(self, node, st, fr):
        exc = node.exc
        name, msg = 'Exception', None
        if exc is None:
            name = '<reraise>'
        elif isinstance(exc, ast.Call) and isinstance(exc.func, ast.Name):
            name = exc.func.id
        elif isinstance(exc, ast.Name):
            name = exc.id
        st.status = 'raise'
        st.exc = (name, msg, node.lineno)
        return [st]

    def stmt_Import(self, node, st, fr):
        for a in node.names:
            st.env[a.asname or a.name.split('.')[0]] = ModuleVal(a.name if a.asname else a.name.split('.')[0])
        return [st]

    def stmt_ImportFrom(self, node, st, fr):
        mi = fr.module
        modname = self.repo._resolve_relative(mi, node.level, node.module) if node.level else node.module
        for a in node.names:
            local = a.asname or a.name
            if (modname + '.' + a.name) in self.repo.modules:
                st.env[local] = ModuleVal(modname + '.' + a.name)
                continue
            tmi = self.repo.modules.get(modname)
            if tmi is not None:
                r = self.repo.resolve_name(tmi, a.name)
                st.env[local] = self._resolved_to_value(r, a.name, st, fr)
            else:
                st.env[local] = self._extern(modname, a.name)
        return [st]

    def stmt_Assert(self, node, st, fr):
        c = self.truth(self.eval(node.test, st, fr), st)
        return self._branch(c, st, lambda s: [s], lambda s: self._raise(s, 'AssertionError', node.lineno))

    def _raise(self, s, name, lineno=0):
        s.status = 'raise'
        s.exc = (name, None, lineno)
        return [s]

    def _branch(self, c, st, then_fn, else_fn):
        if c is True:
            return then_fn(st)
        if c is False:
            return else_fn(st)
        # a branch whose outcome the path condition already decides is not forked (linear-arithmetic check of the
        # scalar path condition only: cheap, and it keeps infeasible paths from reaching undefined names)
        decided = self._decided_by_pc(c, st)
        if decided is True:
            return then_fn(st)
        if decided is False:
            return else_fn(st)
        s1, s2 = st, st.fork()
        s1.assume_pc(c)
        s1.path += 'T'
        s2.assume_pc(bnot(c))
        s2.path += 'F'
        return then_fn(s1) + else_fn(s2)

    def _decided_by_pc(self, c, st):
        if not isinstance(c, Sc) or not st.pc:
            return None
        import z3
        pcs = [p.t for p in st.pc if isinstance(p, Sc)]
        if not pcs:
            return None
        try:
            for want, val in ((z3.Not(c.t), True), (c.t, False)):
                sol = z3.Solver()
                sol.set('timeout', 150)
                for p in pcs:
                    sol.add(p)
                sol.add(want)
                if sol.check() == z3.unsat:
                    return val
        except Exception:
            return None
        return None

    def stmt_If(self, node, st, fr):
        c = self.truth(self.eval(node.test, st, fr), st)
        return self._branch(c, st,
                            lambda s: self.exec_block(node.body, s, fr),
                            lambda s: self.exec_block(node.orelse, s, fr))

    def stmt_Break(self, node, st, fr):
        st.status = 'break'
        return [st]

    def stmt_Continue(self, node, st, fr):
        st.status = 'continue'
        return [st]

    def stmt_Try(self, node, st, fr):
        outs = self.exec_block(node.body, st, fr)
        res = []
        for s in outs:
            if s.status == 'raise':
                handled = False
                for h in node.handlers:
                    names = self._handler_names(h)
                    if names is None or s.exc[0] in names or 'Exception' in names and s.exc[0] != '<reraise>':
                        s.status = 'run'
                        exc = s.exc
                        s.exc = None
                        if h.name:
                            s.env[h.name] = Opaque('exception', exc[0])
                        res.extend(self.exec_block(h.body, s, fr))
                        handled = True
                        break
                if not handled:
                    res.append(s)
            elif s.status == 'run' and node.orelse:
                res.extend(self.exec_block(node.orelse, s, fr))
            else:
                res.append(s)
        if node.finalbody:
            fin = []
            for s in res:
                saved = (s.status, s.retval, s.exc)
                s.status = 'run'
                for t in self.exec_block(node.finalbody, s, fr):
                    if t.status == 'run':
                        t.status, t.retval, t.exc = saved
                    fin.append(t)
            res = fin
        return res

    @staticmethod
    def _handler_names(h):
        if h.type is None:
            return None
        if isinstance(h.type, ast.Name):
            return {h.type.id}
        if isinstance(h.type, ast.Tuple):
            return set(e.id for e in h.type.elts if isinstance(e, ast.Name))
        return set()

    # --- loops ---------------------------------------------------------
    def _loop_ordinal(self, fr, node):
        """Loops are numbered 1, 2, ... in SOURCE order within their function (for/while statements, nested
        ones included), so the number does not depend on the path taken to reach the loop."""
        table = fr.__dict__.get('_loop_table')
        if table is None:
            found = self.repo.find_function(fr.qualname)
            loops = []
            if found is not None:
                for n in ast.walk(found[2]):
                    if isinstance(n, (ast.For, ast.While)):
                        loops.append(n)
            loops.sort(key=lambda n: (n.lineno, n.col_offset))
            table = dict((id(n), i + 1) for i, n in enumerate(loops))
            fr._loop_table = table
            fr._loop_nodes = loops          # keep the nodes alive (ids)
        if id(node) in table:
            return table[id(node)]
        fr.loop_ordinal += 1                # a loop outside the function's own text (should not happen)
        return 1000 + fr.loop_ordinal

    def stmt_For(self, node, st, fr):
        ordinal = self._loop_ordinal(fr, node)
        spec = self.loop_specs.get((fr.qualname, ordinal))
        it = self.eval(node.iter, st, fr)
        seq = self.concrete_iter(it, st)
        if seq is not None and spec is None:
            states = [st]
            for item in seq:
                nxt = []
                for s in states:
                    if s.status != 'run':
                        nxt.append(s)
                        continue
                    self.assign(node.target, s.box(item), s, fr)
                    for t in self.exec_block(node.body, s, fr):
                        if t.status == 'continue':
                            t.status = 'run'
                        nxt.append(t)
                states = nxt
            out = []
            for s in states:
                if s.status == 'break':
                    s.status = 'run'
                elif s.status == 'run' and node.orelse:
                    out.extend(self.exec_block(node.orelse, s, fr))
                    continue
                out.append(s)
            return out
        if spec is None:
            spec = self.default_loop_spec(node, it, st, fr)
        return spec.run(self, node, it, st, fr, ordinal)

    def default_loop_spec(self, node, it, st, fr):
        from .loops import IndependentIterations
        return IndependentIterations()

    def stmt_While(self, node, st, fr):
        ordinal = self._loop_ordinal(fr, node)
        spec = self.loop_specs.get((fr.qualname, ordinal))
        if spec is None:
            raise Unsupported("while loop %d of %s needs an invariant" % (ordinal, fr.qualname))
        return spec.run(self, node, None, st, fr, ordinal)

    def concrete_iter(self, it, st):
        if isinstance(it, (list, tuple)):
            return list(it)
        if isinstance(it, ListRef):
            return list(st.heap[it.addr].items)
        if isinstance(it, range):
            return list(it)
        if isinstance(it, DictRef):
            return list(st.heap[it.addr].items.keys())
        if isinstance(it, SymRange):
            if all(isinstance(x, int) for x in (it.start, it.stop, it.step)):
                return list(range(it.start, it.stop, it.step))
            return None
        if isinstance(it, EnumerateVal):
            inner = self.concrete_iter(it.inner, st)
            if inner is None:
                return None
            return [(i + it.start, x) for i, x in enumerate(inner)]
        if isinstance(it, ZipVal):
            inners = [self.concrete_iter(x, st) for x in it.inners]
            if any(x is None for x in inners):
                return None
            return list(zip(*inners))
        if is_array(it) and not isinstance(it, Masked):
            shape = npm.shape_of(st, it)
            if isinstance(shape[0], int) and shape[0] <= 16:
                return [npm.getitem(st, it, k) for k in range(shape[0])]
            return None
        return None

    # ------------------------------------------------------------------
    # expressions
    # ------------------------------------------------------------------
    def eval(self, node, st, fr):
        m = getattr(self, 'expr_' + type(node).__name__, None)
        if m is None:
            raise Unsupported("expression %s at %s:%d" % (type(node).__name__, fr.qualname, getattr(node, 'lineno', 0)))
        return m(node, st, fr)

    def expr_Constant(self, node, st, fr):
        v = node.value
        if isinstance(v, float) and v == v and abs(v) != float('inf'):
            # A-REAL: a float literal denotes the decimal number written in the source, exactly
            import fractions
            return fractions.Fraction(repr(v))
        return v

    def expr_Name(self, node, st, fr):
        return self.load_name(node.id, st, fr)

    def load_name(self, name, st, fr):
        if name in st.env:
            return st.env[name]
        r = self.repo.resolve_name(fr.module, name)
        if r is not None:
            return self._resolved_to_value(r, name, st, fr)
        return self.builtin(name)

    def _resolved_to_value(self, r, name, st, fr):
        if r is None:
            raise Unsupported("unresolved name %s" % name)
        kind = r[0]
        if kind == 'function':
            return RepoFunc(r[1])
        if kind == 'class':
            return ClassVal(r[1])
        if kind == 'module':
            return ModuleVal(r[1])
        if kind == 'const':
            mi = r[2]
            return self.eval(r[1], st, Frame(mi, mi.name + '.<module>'))
        if kind == 'extern':
            return self._extern(r[1], r[2])
        raise Unsupported("name kind %s" % kind)

    def _extern(self, modname, attr):
        full = modname + '.' + attr
        if full in ('astropy.units', ):
            return ModuleVal('astropy.units')
        if modname == 'astropy' and attr == 'units':
            return ModuleVal('astropy.units')
        if full in ('astropy.io.fits', 'astropy.table', 'astropy.io'):
            return ModuleVal(full)
        if full in self.ext:
            return ExtFunc(full)
        if modname == 'astropy' and attr == 'log' or full == 'astropy.logger.log':
            return Opaque('log')
        return ExtFunc(full)

    def builtin(self, name):
        if name in ('True', 'False', 'None'):
            return {'True': True, 'False': False, 'None': None}[name]
        if name in EXC_NAMES:
            return ExcClass(name)
        if name in ('len', 'range', 'int', 'float', 'min', 'max', 'abs', 'isinstance', 'type', 'enumerate',
                    'zip', 'sorted', 'list', 'tuple', 'str', 'open', 'sum', 'bool', 'dict', 'print', 'issubclass',
                    'hasattr', 'getattr', 'round', 'any', 'all', 'repr', 'set', 'reversed', 'input', 'slice'):
            return ExtFunc('builtins.' + name)
        if name == 'object':
            return TypeVal('object')
        raise Unsupported("unknown name %s" % name)

    def expr_Tuple(self, node, st, fr):
        return tuple(self.eval(e, st, fr) for e in node.elts)

    def expr_List(self, node, st, fr):
        return st.alloc_list([st.box(self.eval(e, st, fr)) for e in node.elts])

    def expr_ListComp(self, node, st, fr):
        if len(node.generators) != 1 or node.generators[0].ifs or node.generators[0].is_async:
            raise Unsupported("list comprehension with several generators / conditions")
        gen = node.generators[0]
        it = self.eval(gen.iter, st, fr)
        seq = self.concrete_iter(it, st)
        saved = dict((n, st.env[n]) for n in _names_of_target(gen.target) if n in st.env)
        try:
            if seq is not None:
                items = []
                for x in seq:
                    self.assign(gen.target, st.box(x), st, fr)
                    items.append(st.box(self.eval(node.elt, st, fr)))
                return st.alloc_list(items)
            if isinstance(it, SymRange) and it.step == 1 and isinstance(it.start, int) and it.start == 0:
                # a list of symbolic length: the elements are kept ABSTRACT (the element expression is not
                # evaluated); everything later done to an element is recorded as an event
                self._drop(fr, 'element expression of a list comprehension over a symbolic range (elements kept abstract)')
                uid = fresh_name('list')
                return SymSeq(it.stop, lambda k: Abstract('elem', (uid, k)), 'abstract')
            raise Unsupported("list comprehension over %r" % (it,))
        finally:
            for n in _names_of_target(gen.target):
                if n in saved:
                    st.env[n] = saved[n]
                else:
                    st.env.pop(n, None)

    def expr_Dict(self, node, st, fr):
        items = {}
        for k, v in zip(node.keys, node.values):
            items[self._dkey(self.eval(k, st, fr))] = st.box(self.eval(v, st, fr))
        return st.alloc_dict(items)

    def expr_JoinedStr(self, node, st, fr):
        return Opaque('str')

    def expr_Yield(self, node, st, fr):
        v = self.eval(node.value, st, fr) if node.value is not None else None
        st.events.append(('yield', v))
        return None

    def expr_Lambda(self, node, st, fr):
        return LambdaVal(node, dict(st.env), fr)

    def expr_IfExp(self, node, st, fr):
        c = self.truth(self.eval(node.test, st, fr), st)
        if c is True:
            return self.eval(node.body, st, fr)
        if c is False:
            return self.eval(node.orelse, st, fr)
        a = self.eval(node.body, st, fr)
        b = self.eval(node.orelse, st, fr)
        return ite(c, a, b)

    def expr_UnaryOp(self, node, st, fr):
        v = self.eval(node.operand, st, fr)
        op = type(node.op).__name__
        if op == 'Not':
            return bnot(self.truth(v, st))
        if op == 'USub':
            return self.binop('Sub', 0, v, st) if not (isinstance(v, (int, float)) or type(v).__name__ == 'Fraction') else -v
        if op == 'UAdd':
            return v
        if op == 'Invert':
            if isinstance(v, Quantity):
                raise Raised('TypeError', '~ on quantity')
            return npm.elementwise(st, bnot, v, kind='bool')
        raise Unsupported("unary %s" % op)

    BIN = {'Add': '+', 'Sub': '-', 'Mult': '*', 'Div': '/', 'FloorDiv': '//', 'Mod': '%', 'Pow': '**'}

    def expr_BinOp(self, node, st, fr):
        a = self.eval(node.left, st, fr)
        b = self.eval(node.right, st, fr)
        return self.binop(type(node.op).__name__, a, b, st)

    def binop(self, opname, a, b, st):
        if opname in ('BitAnd', 'BitOr'):
            f = band if opname == 'BitAnd' else bor
            return npm.elementwise(st, f, a, b, kind='bool')
        if opname == 'Mod' and (isinstance(a, (str, Opaque))):
            if isinstance(a, str) and isinstance(b, (str, int)) and not isinstance(b, bool):
                try:
                    return a % b
                except Exception:
                    pass
            return Opaque('str', ('%', a, b))          # the template and what is formatted into it are kept
        if opname == 'Add' and (isinstance(a, (str, Opaque)) or isinstance(b, (str, Opaque))):
            if isinstance(a, str) and isinstance(b, str):
                return a + b
            return Opaque('str', ('concat', a, b))
        op = self.BIN.get(opname)
        if op is None:
            raise Unsupported("operator %s" % opname)
        if isinstance(a, Unit) or isinstance(b, Unit) or isinstance(a, Quantity) or isinstance(b, Quantity):
            return self.unit_binop(op, a, b, st)
        if isinstance(a, ListRef) and op == '+' and isinstance(b, ListRef):
            return st.alloc_list(st.heap[a.addr].items + st.heap[b.addr].items)
        if isinstance(a, ListRef) and op == '*' and isinstance(b, int):
            return st.alloc_list(st.heap[a.addr].items * b)
        if isinstance(a, tuple) and op == '+' and isinstance(b, tuple):
            return a + b
        if isinstance(a, str) and op == '*' and isinstance(b, int):
            return a * b
        if op == '/':
            safe_domain(st, b, 'safe.div_nonzero', lambda x: compare('!=', x, 0))
        return npm.elementwise(st, lambda x, y: arith(op, x, y), a, b)

    def unit_binop(self, op, a, b, st):
        def as_q(x):
            if isinstance(x, Quantity):
                return x
            if isinstance(x, Unit):
                return Quantity(1, x)
            if isinstance(x, ListRef):
                x = npm.from_list(st, st.heap[x.addr].items)
            return Quantity(x, units.BASE['dimensionless_unscaled'])
        if op == '**':
            if isinstance(b, Quantity) and not b.unit.dims and not isinstance(a, (Quantity, Unit)):
                # a ** (dimensionless quantity)
                e = npm.scale_value(st, b.value, b.unit.scale)
                return npm.elementwise(st, lambda x, y: arith('**', x, y), a, e)
            if isinstance(b, (Quantity, Unit)):
                raise Unsupported("quantity exponent")
            if isinstance(a, Unit):
                return units.unit_pow(a, self._int_exp(b))
            n = self._int_exp(b)
            return Quantity(npm.elementwise(st, lambda x: arith('**', x, n), a.value), units.unit_pow(a.unit, n))
        qa, qb = as_q(a), as_q(b)
        if op == '/' and not isinstance(b, Unit):
            safe_domain(st, qb.value, 'safe.div_nonzero', lambda x: compare('!=', x, 0))
        if op in ('*', '/'):
            unit = units.unit_mul(qa.unit, qb.unit) if op == '*' else units.unit_div(qa.unit, qb.unit)
            if isinstance(a, Unit) and isinstance(b, Unit):
                return unit
            val = npm.elementwise(st, lambda x, y: arith(op, x, y), qa.value, qb.value)
            if not unit.dims and not isinstance(a, Unit) and not isinstance(b, Unit) and False:
                return val
            return Quantity(val, unit)
        if op in ('+', '-'):
            if not qa.unit.same_dims(qb.unit):
                raise Raised('UnitConversionError', 'incompatible units in %s' % op)
            f = npm.unit_factor(qb.unit, qa.unit)
            vb = npm.scale_value(st, qb.value, f)
            return Quantity(npm.elementwise(st, lambda x, y: arith(op, x, y), qa.value, vb), qa.unit)
        raise Unsupported("quantity operator %s" % op)

    @staticmethod
    def _int_exp(b):
        import fractions
        if isinstance(b, int):
            return b
        if isinstance(b, (float, fractions.Fraction)) and b == int(b):
            return int(b)
        raise Unsupported("non-integer power of a unit")

    CMP = {'Lt': '<', 'LtE': '<=', 'Gt': '>', 'GtE': '>=', 'Eq': '==', 'NotEq': '!='}

    def expr_Compare(self, node, st, fr):
        left = self.eval(node.left, st, fr)
        res = True
        for op, rn in zip(node.ops, node.comparators):
            right = self.eval(rn, st, fr)
            res = band_val(st, res, self.compare(type(op).__name__, left, right, st))
            left = right
        return res

    def compare(self, opname, a, b, st):
        if opname in ('Is', 'IsNot'):
            r = self._is(a, b)
            return r if opname == 'Is' else (not r)
        if opname in ('In', 'NotIn'):
            r = self._contains(b, a, st)
            return r if opname == 'In' else bnot(r)
        op = self.CMP[opname]
        if isinstance(a, (Quantity, Unit)) or isinstance(b, (Quantity, Unit)):
            if isinstance(a, Unit) and isinstance(b, Unit):
                eq = a.same_dims(b) and (a.name == b.name or z3.is_true(z3.simplify(to_z3(a.scale, 'real') == to_z3(b.scale, 'real'))))
                return eq if op == '==' else (not eq)
            if not (isinstance(a, Quantity) and isinstance(b, Quantity)):
                qa = a if isinstance(a, Quantity) else None
                qb = b if isinstance(b, Quantity) else None
                q = qa or qb
                if q.unit.dims:
                    # astropy: comparison of a dimensional quantity with a bare number
                    other = b if qa is not None else a
                    if not is_array(other) and not isinstance(other, Sc) and other == 0:
                        pass    # comparison with literal zero is allowed by astropy
                    else:
                        raise Raised('UnitConversionError', 'comparison of quantity with bare number')
                av = qa.value if qa else a
                bv = qb.value if qb else b
                return npm.elementwise(st, lambda x, y: compare(op, x, y), av, bv, kind='bool')
            if not a.unit.same_dims(b.unit):
                raise Raised('UnitConversionError', 'comparison of incompatible quantities')
            f = npm.unit_factor(b.unit, a.unit)
            return npm.elementwise(st, lambda x, y: compare(op, x, y), a.value, npm.scale_value(st, b.value, f), kind='bool')
        if isinstance(a, str) or isinstance(b, str):
            if isinstance(a, str) and isinstance(b, str):
                return compare(op, a, b)
            if is_array(a) or is_array(b):
                return npm.elementwise(st, lambda x, y: self._streq(op, x, y), a, b, kind='bool')
            if isinstance(a, Opaque) or isinstance(b, Opaque):
                raise Unsupported("comparison of opaque strings")
            return op == '!='
        if a is None or b is None:
            if op == '==':
                return a is b
            if op == '!=':
                return a is not b
        if isinstance(a, (TypeVal, ClassVal)) or isinstance(b, (TypeVal, ClassVal)):
            ta = a.name if isinstance(a, (TypeVal, ExtFunc)) else getattr(a, 'qualname', a)
            tb = b.name if isinstance(b, (TypeVal, ExtFunc)) else getattr(b, 'qualname', b)
            return (ta == tb) if op == '==' else (ta != tb)
        if isinstance(a, tuple) and isinstance(b, tuple):
            if op in ('==', '!='):
                if len(a) != len(b):
                    return op == '!='
                r = True
                for x, y in zip(a, b):
                    r = band(r, self.compare('Eq', x, y, st))
                return r if op == '==' else bnot(r)
        if isinstance(a, ObjRef) and isinstance(b, ObjRef):
            return self.obj_eq(op, a, b, st)
        if isinstance(a, (ListRef, DictRef)) and isinstance(b, type(a)) and a.addr == b.addr and op in ('==', '!='):
            return op == '=='
        return npm.elementwise(st, lambda x, y: compare(op, x, y), a, b, kind='bool')

    def obj_eq(self, op, a, b, st):
        if a.addr == b.addr:
            return op == '=='
        ci = self.class_of(a, st)
        if ci is not None:
            for c in self.repo.mro(ci):
                if '__eq__' in c.methods:
                    r = self.call_repo(c.qualname + '.__eq__', c.methods['__eq__'], c.module, c, [a, b], {}, st, None)
                    r = self.truth(r, st)
                    return r if op == '==' else bnot(r)
        return op != '=='       # default object equality is identity

    @staticmethod
    def _streq(op, x, y):
        if isinstance(x, str) and isinstance(y, str):
            return compare(op, x, y)
        return compare(op, x, y)

    @staticmethod
    def _is(a, b):
        if a is None or b is None or isinstance(a, bool) or isinstance(b, bool):
            return a is b
        if isinstance(a, (ObjRef, ArrRef, ListRef, DictRef)) and isinstance(b, type(a)):
            return a.addr == b.addr and getattr(a, 'view', None) is getattr(b, 'view', None)
        return False

    def _contains(self, container, item, st):
        if isinstance(container, str):
            if isinstance(item, str):
                return item in container
            raise Unsupported("symbolic substring test")
        if isinstance(container, DictRef):
            return self._dkey(item) in st.heap[container.addr].items
        if isinstance(container, ObjRef) and '[]' in st.heap[container.addr].attrs:
            return self._dkey(item) in st.heap[container.addr].attrs['[]']
        if isinstance(container, (tuple, list, ListRef)):
            items = container if isinstance(container, (tuple, list)) else st.heap[container.addr].items
            r = False
            for x in items:
                r = bor(r, self.compare('Eq', item, x, st))
            return r
        raise Unsupported("'in' on %r" % (container,))

    def expr_BoolOp(self, node, st, fr):
        """Python's `and` / `or`: the result is one of the OPERANDS (`x or default`), chosen by the truth values of the
        operands before it; evaluation stops at the first operand whose truth value decides concretely."""
        is_and = isinstance(node.op, ast.And)
        items = []
        for v in node.values:
            val = self.eval(v, st, fr)
            t = self.truth(val, st)
            items.append((val, t))
            if isinstance(t, bool) and ((is_and and not t) or (not is_and and t)):
                break           # short circuit: the operands after this one are not evaluated
        def boolish(x):
            return isinstance(x, bool) or (isinstance(x, Sc) and x.is_bool)
        symbolic_truth = any(not isinstance(t, bool) for _, t in items[:-1])
        if all(boolish(val) for val, _ in items) or (symbolic_truth and any(boolish(val) for val, _ in items)):
            # booleans, or a mix of numbers and booleans chosen by symbolic truth values (`x and y < x`): only the TRUTH of
            # the result can be meant
            res = None
            for val, t in items:
                res = t if res is None else (band(res, t) if is_and else bor(res, t))
            return res
        # operands that are not booleans: fold from the right
        result = items[-1][0]
        for val, t in reversed(items[:-1]):
            pick_val = (not t) if is_and else t            # `and` returns val when val is falsy, `or` when it is truthy
            if isinstance(t, bool):
                result = val if pick_val else result
                continue
            scalar = lambda x: isinstance(x, (bool, int, float, Sc)) or type(x).__name__ == 'Fraction'
            if result is val:
                continue
            if not (scalar(val) and scalar(result)):
                raise Unsupported("`and`/`or` whose outcome depends on symbolic data, between values that are not numbers")
            result = ite(bnot(t), val, result) if is_and else ite(t, val, result)
        return result

    def truth(self, v, st):
        if isinstance(v, bool):
            return v
        if v is None:
            return False
        if isinstance(v, Sc):
            if v.is_bool:
                return v
            return compare('!=', v, 0)
        if isinstance(v, (int, float)) or type(v).__name__ == 'Fraction':
            return v != 0
        if isinstance(v, str):
            return len(v) > 0
        if isinstance(v, tuple):
            return len(v) > 0
        if isinstance(v, ListRef):
            return len(st.heap[v.addr].items) > 0
        if isinstance(v, DictRef):
            return len(st.heap[v.addr].items) > 0
        if isinstance(v, (ObjRef, Opaque, Unit, ClassVal, RepoFunc, ExtFunc)):
            return True
        if isinstance(v, Quantity):
            return self.truth(v.value, st)
        if is_array(v):
            shape = npm.shape_of(st, v)
            if len(shape) == 0:
                return self.truth(npm.info(st, v)[1](()), st)
            if all(isinstance(d, int) and d == 1 for d in shape):
                return self.truth(npm.info(st, v)[1](tuple(0 for _ in shape)), st)
            raise Raised('ValueError', 'truth value of an array is ambiguous')
        raise Unsupported("truth value of %r" % (v,))

    # --- subscripts
    def eval_key(self, sl, st, fr):
        if isinstance(sl, ast.Tuple):
            return tuple(self.eval_key(e, st, fr) for e in sl.elts)
        if isinstance(sl, ast.Slice):
            return slice(None if sl.lower is None else self._idx(self.eval(sl.lower, st, fr), st),
                         None if sl.upper is None else self._idx(self.eval(sl.upper, st, fr), st),
                         None if sl.step is None else self._idx(self.eval(sl.step, st, fr), st))
        v = self.eval(sl, st, fr)
        if v is Ellipsis:
            return Ellipsis
        return v

    def _idx(self, v, st):
        if is_array(v) and not isinstance(v, Masked):
            shape = npm.shape_of(st, v)
            if len(shape) == 0:
                return npm.info(st, v)[1](())
        return v

    def expr_Subscript(self, node, st, fr):
        obj = self.eval(node.value, st, fr)
        key = self.eval_key(node.slice, st, fr)
        return self.subscript(obj, key, st, fr)

    def subscript(self, obj, key, st, fr=None):
        if isinstance(obj, DictRef):
            items = st.heap[obj.addr].items
            k = self._dkey(key)
            if k not in items:
                raise Raised('KeyError', str(k))
            return items[k]
        if isinstance(obj, (ListRef, tuple, list)):
            items = st.heap[obj.addr].items if isinstance(obj, ListRef) else list(obj)
            if isinstance(key, int):
                try:
                    return items[key]
                except IndexError:
                    raise Raised('IndexError', 'list index out of range')
            if isinstance(key, slice):
                if all(x is None or isinstance(x, int) for x in (key.start, key.stop, key.step)):
                    r = items[key]
                    return st.alloc_list(r) if isinstance(obj, ListRef) else tuple(r)
            raise Unsupported("list subscript with symbolic index")
        if isinstance(obj, str):
            if isinstance(key, int):
                return obj[key]
            if isinstance(key, slice) and all(x is None or isinstance(x, int) for x in (key.start, key.stop, key.step)):
                return obj[key]
            raise Unsupported("string subscript")
        if isinstance(obj, SymSeq):
            return obj.getitem(self, st, key)
        if isinstance(obj, (ArrRef, PureArr, Masked, Quantity)):
            if isinstance(key, ListRef):
                key = npm.from_list(st, st.heap[key.addr].items)
            return npm.getitem(st, obj, key)
        if isinstance(obj, ObjRef) and st.heap[obj.addr].cls == '<table>':
            from .extmodels import table_getitem
            return table_getitem(self, st, obj, key)
        if isinstance(obj, ObjRef) and st.heap[obj.addr].cls == '<fnmap>':
            return st.heap[obj.addr].attrs['fn'](key)       # a mapping given by a spec function of the key
        if isinstance(obj, ObjRef) and st.heap[obj.addr].cls.startswith('<') and '[]' in st.heap[obj.addr].attrs:
            table = st.heap[obj.addr].attrs['[]']
            k = self._dkey(key)
            if k not in table:
                raise Raised('KeyError', str(k))
            return table[k]
        if isinstance(obj, Opaque):
            return Opaque('item', (obj, key))
        from .extmodels import WhereIdx
        if isinstance(obj, WhereIdx) and isinstance(key, int) and not isinstance(key, bool) and key == 0:
            # np.nonzero(mask)[0][0]: the first index where the mask holds; IndexError when none does
            shape, fn, kind = npm.info(st, obj.mask)
            if len(shape) != 1:
                raise Unsupported("first index of a %d-d mask" % len(shape))
            n = shape[0]
            first = Sc(fresh_int('first'))
            rs = st.fork()
            rs.assume(Forall(n, lambda j: bnot(fn((j,))), 'none'))
            rs.status = 'raise'
            rs.exc = ('IndexError', 'index 0 is out of bounds for axis 0 with size 0')
            rs.path += 'E'
            self._pending_forks.append(rs)
            st.assume([compare('<=', 0, first), compare('<', first, n), fn((first,)),
                       Forall(n, lambda j: implies(compare('<', j, first), bnot(fn((j,)))), 'first')])
            return first
        if isinstance(obj, TableVal):
            return obj.getitem(self, st, key)
        if obj is None:
            raise Raised('TypeError', "'NoneType' object is not subscriptable")
        raise Unsupported("subscript of %r" % (obj,))

    # --- attributes
    def expr_Attribute(self, node, st, fr):
        obj = self.eval(node.value, st, fr)
        return self.get_attribute(obj, node.attr, st, fr)

    def get_attribute(self, obj, attr, st, fr):
        if isinstance(obj, ModuleVal):
            return self.module_attr(obj, attr, st, fr)
        if isinstance(obj, ObjRef):
            return self.obj_getattr(obj, attr, st, fr)
        if isinstance(obj, ClassVal):
            ci = obj.ci
            for c in self.repo.mro(ci):
                if attr in c.methods:
                    q = c.qualname + '.' + attr
                    if attr in c.classmethods:
                        return RepoFunc(q, bound_cls=obj)
                    return RepoFunc(q)
                if attr in c.class_attrs:
                    return self.eval(c.class_attrs[attr], st, Frame(c.module, c.qualname))
            raise Raised('AttributeError', attr)
        if isinstance(obj, Abstract):
            return Abstract('attr', (obj, attr))
        from .extmodels import Interp1d
        if isinstance(obj, Interp1d) and attr in ('x', 'y'):
            return obj.x if attr == 'x' else obj.y
        if is_array(obj) or isinstance(obj, Quantity):
            return self.array_attr(obj, attr, st)
        if isinstance(obj, Unit):
            if attr == 'physical_type':
                return Opaque('physical_type', tuple(sorted(obj.dims.items())))
            return BoundBuiltin(obj, attr)
        if isinstance(obj, (ListRef, DictRef, str, tuple, Opaque, SymSeq, TableVal, Sc, int, float)):
            return BoundBuiltin(obj, attr)
        raise Unsupported("attribute %s of %r" % (attr, obj))

    def array_attr(self, obj, attr, st):
        if attr == 'data' and (isinstance(obj, Quantity) or is_array(obj)):
            # astropy Column.data (a table column is held as its array / quantity): the bare values
            return obj.value if isinstance(obj, Quantity) else obj
        if isinstance(obj, Quantity):
            if attr == 'value':
                return obj.value
            if attr == 'unit':
                return obj.unit
            if attr in ('shape', 'ndim', 'size', 'dtype'):
                return self.array_attr(obj.value, attr, st)
            return BoundBuiltin(obj, attr)
        if attr == 'shape':
            return tuple(npm.shape_of(st, obj))
        if attr == 'ndim':
            if isinstance(obj, Masked):
                return len(obj.shape) - obj.mrank + 1
            return len(npm.shape_of(st, obj))
        if attr == 'dtype':
            return TypeVal('dtype:' + (obj.kind if not isinstance(obj, ArrRef) else st.heap[obj.addr].kind))
        if attr == 'size':
            r = 1
            for d in npm.shape_of(st, obj):
                r = arith('*', r, d)
            return r
        if attr == 'T':
            shape, fn, kind = npm.info(st, obj)
            return PureArr(shape[::-1], lambda idx: fn(tuple(idx[::-1])), kind)
        return BoundBuiltin(obj, attr)

    def module_attr(self, mod, attr, st, fr):
        name = mod.name
        if name in self.repo.modules:
            r = self.repo.resolve_name(self.repo.modules[name], attr)
            if r is None:
                raise Raised('AttributeError', attr)
            return self._resolved_to_value(r, attr, st, fr)
        if name in ('numpy', 'np'):
            consts = {'inf': float('inf'), 'nan': float('nan'), 'newaxis': None, 'pi': math.pi}
            if attr in consts:
                return consts[attr]
            if attr in ('float64', 'float32', 'int32', 'int64', 'ndarray', 'bool_'):
                return ExtFunc('numpy.' + attr)
            if attr in ('char', 'testing', 'ma', 'core', 'random', 'linalg'):
                return ModuleVal('numpy.' + attr)
            return ExtFunc('numpy.' + attr)
        if name == 'astropy.units':
            if attr in units.BASE:
                return units.BASE[attr]
            if attr == 'Quantity':
                return ExtFunc('astropy.units.Quantity')
            return ExtFunc('astropy.units.' + attr)
        if name in ('os', 'os.path', 'glob', 'pickle', 'cPickle', 'math', 'numpy.char', 'numpy.testing', 'six', 'abc',
                    'tempfile', 'shutil', 'sys'):
            if name == 'os' and attr == 'path':
                return ModuleVal('os.path')
            return ExtFunc(name + '.' + attr)
        return ExtFunc(name + '.' + attr)

    # --- objects
    def class_of(self, ref, st):
        return self.repo.find_class(st.heap[ref.addr].cls)

    def obj_getattr(self, ref, attr, st, fr):
        cell = st.heap[ref.addr]
        if cell.cls == '<file>':
            return BoundBuiltin(ref, attr)
        if cell.cls.startswith('<') and ('%' + attr) in cell.attrs:
            return BoundBuiltin(ref, attr)
        if cell.cls == '<table>' and attr in ('sort',):
            return BoundBuiltin(ref, attr)
        ci = self.repo.find_class(cell.cls)
        if ci is not None:
            for c in self.repo.mro(ci):
                if attr in c.getters:
                    return self.call_repo(c.qualname + '.' + attr, c.getters[attr], c.module, c, [ref], {}, st, fr)
                if attr in c.methods:
                    q = c.qualname + '.' + attr
                    if attr in c.classmethods:
                        return RepoFunc(q, bound_cls=ClassVal(ci))
                    if attr in c.staticmethods:
                        return RepoFunc(q)
                    return RepoFunc(q, bound_self=ref)
        if attr in cell.attrs:
            return cell.attrs[attr]
        if ci is not None:
            for c in self.repo.mro(ci):
                if attr in c.class_attrs:
                    return self.eval(c.class_attrs[attr], st, Frame(c.module, c.qualname))
            if ('setup_obj', ref.addr) in st.tags and self._init_assigns(ci, attr):
                # the object was built by a contract set-up that predates this attribute (__init__ assigns it)
                raise Unsupported("contract set-up out of date: %s assigns attribute %r somewhere, and the set-up object lacks it" % (ci.qualname, attr))
            for c in self.repo.mro(ci):
                if '__getattr__' in c.methods:
                    return self.call_repo(c.qualname + '.__getattr__', c.methods['__getattr__'], c.module, c,
                                          [ref, attr], {}, st, fr)
        st.oblige('safe.attr_defined(%s)' % attr, False, kind='safe')
        raise Raised('AttributeError', attr)

    def _init_assigns(self, ci, attr):
        # any method of the class (constructor, setter, lazily filled cache ...) stores self.<attr>: an object
        # built by the real code may carry it, the set-up object does not say
        for c in self.repo.mro(ci):
            for node in ast.walk(c.node):
                if True:
                    if isinstance(node, ast.Attribute) and isinstance(node.ctx, ast.Store) and node.attr == attr \
                            and isinstance(node.value, ast.Name) and node.value.id == 'self':
                        return True
        return False

    def set_attribute(self, obj, attr, val, st, fr):
        if isinstance(obj, Abstract):
            st.events.append(('set', obj, attr, val))
            return
        if not isinstance(obj, ObjRef):
            if isinstance(obj, Opaque):
                return
            raise Unsupported("attribute store on %r" % (obj,))
        ci = self.class_of(obj, st)
        if ci is not None:
            for c in self.repo.mro(ci):
                if attr in c.setters:
                    self.call_repo(c.qualname + '.' + attr + '.setter', c.setters[attr], c.module, c, [obj, val], {}, st, fr)
                    return
        self._record_write(obj, attr, st)
        st.set_attr(obj, attr, val)

    def _record_write(self, obj, attr, st):
        w = getattr(st, 'writes', None)
        if w is not None:
            w.append((obj.addr, attr))

    # --- calls
    def expr_Call(self, node, st, fr):
        f = node.func
        # dropped calls used as expressions
        if isinstance(f, ast.Name) and f.id == 'ProgressBar':
            args = [self.eval(a, st, fr) for a in node.args]
            self._drop(fr, 'ProgressBar')
            if args and not isinstance(args[0], (int, Sc)):
                return args[0]
            return Opaque('ProgressBar')
        if isinstance(f, ast.Attribute) and f.attr == 'Timer' and isinstance(f.value, ast.Name) and f.value.id == 'timer':
            self._drop(fr, 'timer.Timer')
            return Opaque('Timer')
        fn = self.eval(f, st, fr)
        args = []
        for a in node.args:
            if isinstance(a, ast.Starred):
                v = self.eval(a.value, st, fr)
                args.extend(self.concrete_iter(v, st))
            else:
                args.append(self.eval(a, st, fr))
        kwargs = {}
        for k in node.keywords:
            if k.arg is None:
                d = self.eval(k.value, st, fr)
                kwargs.update(st.heap[d.addr].items)
            else:
                kwargs[k.arg] = self.eval(k.value, st, fr)
        return self.call(fn, args, kwargs, st, fr, node)

    def call(self, fn, args, kwargs, st, fr, node=None):
        if isinstance(fn, ExtFunc):
            model = self.ext.get(fn.name)
            if model is None:
                raise Unsupported("no model for external function %s" % fn.name)
            return model(self, st, fr, args, kwargs)
        if isinstance(fn, BoundBuiltin):
            from . import extmodels
            return extmodels.call_method(self, st, fr, fn.obj, fn.name, args, kwargs)
        if isinstance(fn, RepoFunc):
            found = self.repo.find_function(fn.qualname)
            if found is None:
                raise Unsupported("repo function %s not found" % fn.qualname)
            mi, ci, fdef = found
            if fn.bound_self is not None:
                args = [fn.bound_self] + list(args)
            elif fn.bound_cls is not None:
                args = [fn.bound_cls] + list(args)
            return self.call_repo(fn.qualname, fdef, mi, ci, args, kwargs, st, fr)
        if isinstance(fn, ClassVal):
            return self.construct(fn, args, kwargs, st, fr)
        if isinstance(fn, ExcClass):
            return Opaque('exception', fn.name)
        if isinstance(fn, Abstract) and fn.tag == 'attr':
            st.events.append(('mcall', fn.key[0], fn.key[1], list(args), dict(kwargs)))
            return None
        if isinstance(fn, LambdaVal):
            return self.call_lambda(fn, args, st)
        from .extmodels import Interp1d, call_interp1d, SpecCallable
        if isinstance(fn, Interp1d):
            return call_interp1d(self, st, fr, fn, args, kwargs)
        if isinstance(fn, SpecCallable):
            return fn.fn(self, st, args, kwargs)
        if isinstance(fn, ObjRef):
            ci = self.class_of(fn, st)
            if ci is not None:
                for c in self.repo.mro(ci):
                    if '__call__' in c.methods:
                        return self.call_repo(c.qualname + '.__call__', c.methods['__call__'], c.module, c, [fn] + list(args), kwargs, st, fr)
        raise Unsupported("call of %r" % (fn,))

    def call_lambda(self, lam, args, st):
        saved = st.env
        st.env = dict(lam.env)
        for p, a in zip(lam.node.args.args, args):
            st.env[p.arg] = a
        try:
            return self.eval(lam.node.body, st, lam.frame)
        finally:
            st.env = saved

    def construct(self, cv, args, kwargs, st, fr):
        ci = cv.ci
        con = self.contracts.get(ci.qualname + '.__init__')
        ref = st.alloc_obj(ci.qualname)
        for c in self.repo.mro(ci):
            if '__init__' in c.methods:
                self.call_repo(c.qualname + '.__init__', c.methods['__init__'], c.module, c, [ref] + list(args), kwargs, st, fr)
                break
        return ref

    def bind_args(self, fdef, args, kwargs, st, frame):
        a = fdef.args
        names = [p.arg for p in a.args]
        bound = {}
        if len(args) > len(names):
            if a.vararg is None:
                raise Raised('TypeError', 'too many positional arguments')
        for n, v in zip(names, args):
            bound[n] = v
        for k, v in kwargs.items():
            if k in bound:
                raise Raised('TypeError', 'multiple values for argument %s' % k)
            if k not in names and k not in [p.arg for p in a.kwonlyargs]:
                raise Raised('TypeError', 'unexpected keyword argument %s' % k)
            bound[k] = v
        defaults = a.defaults
        saved = st.env
        st.env = {}
        try:
            for p, d in zip(a.args[len(a.args) - len(defaults):], defaults):
                if p.arg not in bound:
                    bound[p.arg] = self.eval(d, st, frame)
            for p, d in zip(a.kwonlyargs, a.kw_defaults):
                if p.arg not in bound and d is not None:
                    bound[p.arg] = self.eval(d, st, frame)
        finally:
            st.env = saved
        for n in names:
            if n not in bound:
                raise Raised('TypeError', 'missing argument %s' % n)
        return bound

    def call_repo(self, qualname, fdef, mi, ci, args, kwargs, st, fr):
        frame = Frame(mi, qualname, ci)
        bound = self.bind_args(fdef, args, kwargs, st, frame)
        bound = dict((k, st.box(v)) for k, v in bound.items())
        con = self.contracts.get(qualname)
        if con is not None and not (fr is not None and fr.qualname == qualname):
            self.called_contracts.add(qualname)
            return con.apply(self, st, fr, bound)
        # inline (no contract): only concrete control flow is accepted
        self.inlined.add(qualname)
        saved_env = st.env
        st.env = dict(bound)
        depth = getattr(st, 'inline_depth', 0)
        if depth > 12:
            raise Unsupported("inline depth exceeded at %s" % qualname)
        st.inline_depth = depth + 1
        try:
            outs = self.exec_block(self._body(fdef, frame), st, frame)
        finally:
            st.inline_depth = depth
        if len(outs) != 1 or outs[0] is not st:
            # the inlined callee forked: accepted when exactly one path completes normally and the
            # others raise (validation code); the raising paths become forks of the caller
            normal = [s for s in outs if s.status in ('run', 'return')]
            raising = [s for s in outs if s.status == 'raise']
            forced = False
            pick = 0
            all_accounted = len(normal) + len(raising) == len(outs)
            if len(normal) > 1 and all_accounted and self._inline_requests:
                # several normal outcomes: continue with one, request the others (see _exec_stmt_all_choices)
                fc = getattr(st, 'forced_choices', None)
                taken = list(getattr(st, 'taken_choices', ()))
                if fc:
                    pick, forced = fc[0], True
                    if pick >= len(normal):
                        st.env = saved_env
                        raise Unsupported("replay of %s found fewer outcomes than before" % qualname)
                else:
                    for alt in range(1, len(normal)):
                        self._inline_requests[-1].append(taken + [alt])
                for s_ in normal:
                    s_.forced_choices = list(fc[1:]) if fc else []
                    s_.taken_choices = taken + [pick]
                normal = [normal[pick]]
            if len(normal) != 1 or not all_accounted:
                st.env = saved_env
                raise Unsupported("inlined function %s branches on symbolic data: it needs a contract (%d outcomes: %s; requests %s)" % (qualname, len(outs), [s.status for s in outs], self._inline_requests is not None and len(self._inline_requests)))
            if forced:
                raising = []            # (registered when this call was first executed)
            for rs in raising:
                if rs is st:
                    rs = st.fork()      # st itself took the raising branch: keep a copy of it as the fork
                rs.env = dict(saved_env)
                rs.inline_depth = depth
                self._pending_forks.append(rs)
            keep = normal[0]
            if keep is not st:
                st.__dict__.update(keep.__dict__)
        st.env = saved_env
        if st.status == 'raise':
            exc = st.exc
            st.status = 'run'
            st.exc = None
            raise Raised(exc[0], exc[1])
        rv = st.retval if st.status == 'return' else None
        st.status = 'run'
        st.retval = None
        return rv


def safe_domain(st, v, name, pred):
    """Definedness obligation (A-REAL makes x/0 and log(x<=0) total, so definedness is
    proved separately): pred holds for every element of v that is used."""
    if isinstance(v, Quantity):
        v = v.value
    if isinstance(v, Unit):
        return
    if isinstance(v, Masked):
        mr, mask, fn = v.mrank, v.mask, v.fn
        st.oblige(name, Forall(list(v.shape), lambda *idx: implies(mask(tuple(idx[:mr])), pred(fn(tuple(idx)))), name=name), kind='safe')
    elif is_array(v):
        shape, fn, _ = npm.info(st, v)
        st.oblige(name, Forall(list(shape), lambda *idx: pred(fn(tuple(idx))), name=name), kind='safe')
    else:
        p = pred(v)
        if p is True:
            return
        st.oblige(name, p, kind='safe')


def band_val(st, a, b):
    if is_array(a) or is_array(b):
        return npm.elementwise(st, band, a, b, kind='bool')
    return band(a, b)


# ---------------------------------------------------------------------------
# symbolic iterables
# ---------------------------------------------------------------------------

def _names_of_target(t):
    if isinstance(t, ast.Name):
        return [t.id]
    if isinstance(t, (ast.Tuple, ast.List)):
        out = []
        for e in t.elts:
            out.extend(_names_of_target(e))
        return out
    return []


class SymRange(object):
    def __init__(self, start, stop, step=1):
        self.start, self.stop, self.step = start, stop, step


class EnumerateVal(object):
    def __init__(self, inner, start=0):
        self.inner = inner
        self.start = start


class ZipVal(object):
    def __init__(self, inners):
        self.inners = inners


class SymSeq(object):
    """A sequence of symbolic length whose items are given by a function (used for
    `line.split()` and lists of objects of symbolic length)."""

    def __init__(self, length, item, kind='str'):
        self.length = length
        self.item = item
        self.kind = kind

    def getitem(self, interp, st, key):
        n = self.length
        if isinstance(key, slice):
            lo, length, step = npm.slice_params(key, n)
            it = self.item
            if step == 1:
                return SymSeq(length, lambda k: it(arith('+', lo, k)), self.kind)
            return SymSeq(length, lambda k: it(arith('+', lo, arith('*', step, k))), self.kind)
        i = npm.norm_index(st, key, n)
        return self.item(i)


class TableVal(object):
    """Placeholder for astropy tables (given meaning by extmodels)."""

    def __init__(self, columns, nrows, meta=None):
        self.columns = columns      # name -> array value
        self.nrows = nrows
        self.meta = meta or {}

    def getitem(self, interp, st, key):
        if isinstance(key, str):
            if key not in self.columns:
                raise Raised('KeyError', key)
            return self.columns[key]
        if is_array(key):
            cols = dict((k, npm.getitem(st, v, key)) for k, v in self.columns.items())
            shape = npm.shape_of(st, key) if not isinstance(key, Masked) else None
            kind = npm.info(st, key)[2]
            if kind == 'bool':
                raise Unsupported("boolean row selection of a table")
            return TableVal(cols, shape[0], self.meta)
        raise Unsupported("table subscript %r" % (key,))
