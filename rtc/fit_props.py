"""Bounded (E2) checks of the fitting properties C01, C02(fit part), C03, C04, C11 on the
real Models.fit / Fitter, against the independent oracles of fitcommon."""
import copy
import itertools
import math

import numpy as np
from astropy import units as u

from . import pkg
from .core import Recorder, close, jsonable, unjson_floats
from .fitcommon import (FLAGS, transform, chi2_of, constrained_ls, scaling_ls, make_models_2d,
                        make_models_3d, random_source, usable, penalty)

TOL = 2e-6


def _law(rng, n):
    wav = np.sort(10. ** rng.uniform(-0.5, 2.0, n)) * (1 + 0.01 * np.arange(n))
    ext = pkg.simple_extinction(power=rng.uniform(-1.8, -0.8))
    return wav, ext, np.asarray(ext.get_av(wav * u.micron))


def _grid(rng, M, n, D=None, ties=False):
    shape = (M, n) if D is None else (M, D, n)
    f = 10. ** rng.uniform(-1, 2, shape)
    if ties and M >= 2:
        f[1] = f[0]
    return f


def check_fit_2d(rec, case, models, fluxes, k, source, lo, hi, info, what='C01'):
    """All C01/C04 clauses for one fit result of an aperture-independent package."""
    valid, flux, err = source.valid, source.flux, source.error
    w, lf, le = transform(valid, flux, err)
    logm = np.log10(fluxes)
    M = fluxes.shape[0]
    ok = True
    ids = np.asarray(info.model_id)
    ok &= rec.expect(sorted(ids.tolist()) == list(range(M)), 'every_model_once', 'model_id is not a permutation of the package', case)
    ch = np.asarray(info.chi2, dtype=float)
    fin = ch[~np.isnan(ch)]
    ok &= rec.expect(bool(np.all(np.diff(fin) >= 0)) and not np.any(np.isnan(ch[:len(fin)])), 'ranked', 'chi2 not non-decreasing (NaN last)', case)
    if not ok:
        return False
    for r in range(M):
        i = int(ids[r])
        ok &= rec.expect(str(info.model_name[r]) == str(models.names[i]), 'row_name', 'row %d: name %s is not the name of model_id %d' % (r, info.model_name[r], i), case)
        av, sc = float(info.av[r]), float(info.sc[r])
        av_o, sc_o, av_unc = constrained_ls(valid, w, lf, logm[i], k, lo, hi)
        ok &= rec.expect(lo - 1e-12 <= av <= hi + 1e-12, 'av_in_range', 'row %d: A_V %g outside [%g,%g]' % (r, av, lo, hi), case)
        ok &= rec.expect(abs(av - av_o) <= TOL * (1 + abs(av_o)) and abs(sc - sc_o) <= TOL * (1 + abs(sc_o)), 'optimal',
                         'row %d (model %d): (A_V, scale)=(%.9g, %.9g) but the constrained optimum is (%.9g, %.9g)' % (r, i, av, sc, av_o, sc_o), case)
        q, pen = chi2_of(valid, w, lf, le, logm[i], k, av, sc)
        exp = q + pen
        if np.isinf(exp):
            ok &= rec.expect(ch[r] >= 1e30, 'chi2_conf1', 'row %d: violated confidence-1 limit but chi2=%g < 1e30' % (r, ch[r]), case)
        else:
            ok &= rec.expect(abs(ch[r] - exp) <= 1e-6 * (1 + abs(exp)), 'chi2_is_fit_plus_penalties',
                             'row %d (model %d): chi2 %.9g but fit+penalties at the reported parameters is %.9g' % (r, i, ch[r], exp), case)
        if info.model_fluxes is not None:
            pred = logm[i] + av * k - 2. * sc
            ok &= rec.expect(close(info.model_fluxes[r], pred, rtol=1e-9, atol=1e-9), 'predicted_fluxes',
                             'row %d: stored predicted fluxes are not model %d reddened and scaled' % (r, i), case)
        if not ok:
            return False
    return ok


def check_fit_3d(rec, case, models, fluxes, logd, k, source, lo, hi, info, ftol=1e-9):
    ctol = 1e-6 if ftol <= 1e-9 else 2e-4          # float32 (memory-mapped) grids: log10 carries ~1e-7
    valid, flux, err = source.valid, source.flux, source.error
    w, lf, le = transform(valid, flux, err)
    logm = np.log10(fluxes)
    M, D, n = fluxes.shape
    ids = np.asarray(info.model_id)
    ok = rec.expect(sorted(ids.tolist()) == list(range(M)), 'every_model_once', 'model_id is not a permutation', case)
    ch = np.asarray(info.chi2, dtype=float)
    fin = ch[~np.isnan(ch)]
    ok &= rec.expect(bool(np.all(np.diff(fin) >= 0)), 'ranked', 'chi2 not non-decreasing', case)
    if not ok:
        return False
    for r in range(M):
        i = int(ids[r])
        ok &= rec.expect(str(info.model_name[r]) == str(models.names[i]), 'row_name', 'row %d: wrong model name' % r, case)
        av, sc = float(info.av[r]), float(info.sc[r])
        # reported scale is log10 of a grid distance
        b = int(np.argmin(np.abs(logd - sc)))
        ok &= rec.expect(abs(logd[b] - sc) <= 1e-12, 'scale_is_log_distance', 'row %d: scale %.12g is not log10 of a grid distance' % (r, sc), case)
        best = np.inf
        vals = []
        for d in range(D):
            av_d, _ = scaling_ls(valid, w, lf, logm[i, d], k, lo, hi)
            q, pen = chi2_of(valid, w, lf, le, logm[i, d], k, av_d, 0., scale_term=False)
            vals.append((q + pen, av_d))
        best = min(v[0] for v in vals)
        ok &= rec.expect(abs(av - vals[b][1]) <= max(TOL, ctol) * (1 + abs(av)), 'av_is_clipped_optimum',
                         'row %d (model %d): A_V %.9g is not the clipped optimum %.9g at the reported distance' % (r, i, av, vals[b][1]), case)
        if np.isfinite(best):
            ok &= rec.expect(abs(ch[r] - best) <= ctol * (1 + abs(best)), 'chi2_is_grid_minimum',
                             'row %d (model %d): chi2 %.9g but the minimum over the distance grid is %.9g' % (r, i, ch[r], best), case)
            ok &= rec.expect(abs(vals[b][0] - ch[r]) <= ctol * (1 + abs(best)), 'chi2_at_best',
                             'row %d: chi2 %.9g is not the chi2 at the reported distance (%.9g)' % (r, ch[r], vals[b][0]), case)
        if info.model_fluxes is not None:
            pred = logm[i, b] + av * k
            ok &= rec.expect(close(info.model_fluxes[r], pred, rtol=ftol, atol=ftol), 'predicted_fluxes', 'row %d: stored predicted fluxes wrong' % r, case)
        if not ok:
            return False
    return ok


def _case(seed, tag, **kw):
    d = dict(seed=int(seed), tag=tag)
    d.update(jsonable(kw))
    return d


def _fit2d_from_case(case):
    c = unjson_floats(case)
    fluxes = np.array(c['fluxes'])
    k = np.array(c['k'])
    names = ['m%03d' % i for i in range(fluxes.shape[0])]
    models = make_models_2d(names, fluxes, c['wav'])
    src = pkg.make_source('src', c['valid'], c['flux'], c['error'])
    for o in c.get('prior') or []:
        # the object has fitted other sources before (the statement quantifies over every fit, not the first)
        models.fit(pkg.make_source('prior', o['valid'], o['flux'], o['error']), k.copy(), -2. * np.ones(len(k)), c['lo'], c['hi'])
    info = models.fit(src, k.copy(), -2. * np.ones(len(k)), c['lo'], c['hi'])
    return models, fluxes, k, src, info


def replay_2d(rec, case):
    models, fluxes, k, src, info = _fit2d_from_case(case)
    return check_fit_2d(rec, case, models, fluxes, k, src, case['lo'], case['hi'], info)


def _fit3d_from_case(case):
    c = unjson_floats(case)
    fluxes = np.array(c['fluxes'])
    k = np.array(c['k'])
    names = ['m%03d' % i for i in range(fluxes.shape[0])]
    models = make_models_3d(names, fluxes, c['wav'], c['dist'])
    src = pkg.make_source('src', c['valid'], c['flux'], c['error'])
    for o in c.get('prior') or []:
        # the object has fitted other sources before (the statement quantifies over every fit, not the first)
        models.fit(pkg.make_source('prior', o['valid'], o['flux'], o['error']), k.copy(), -2. * np.ones(len(k)), c['lo'], c['hi'])
    info = models.fit(src, k.copy(), -2. * np.ones(len(k)), c['lo'], c['hi'])
    return models, fluxes, k, src, info


def replay_3d(rec, case):
    models, fluxes, k, src, info = _fit3d_from_case(case)
    return check_fit_3d(rec, case, models, fluxes, np.log10(np.array(case['dist'])), k, src, case['lo'], case['hi'], info)


def _av_range(rng, clamp):
    if clamp == 0:
        return -5., 60.
    if clamp == 1:
        lo = rng.uniform(0, 3)
        return lo, lo                    # lo == hi
    lo = rng.uniform(-1, 4)
    return lo, lo + rng.uniform(0.1, 3)


# ---------------------------------------------------------------------------
# C01
# ---------------------------------------------------------------------------

def check_dtype_independent(rec, case, mode, fluxes, wav, dist, k, flags, flux, lo, hi, error=None):
    """The same integer-valued photometry stored as int / with unsigned-integer flags fits like the float / int one."""
    flags = np.asarray(flags)
    fi = np.where(np.isin(flags, (1, 2, 3)), np.maximum(np.round(np.abs(np.asarray(flux, dtype=float)) * 100) + 2, 2), 7).astype(int)
    ei = np.where(flags == 1, np.maximum(np.round(fi * 0.1), 1), 1).astype(int)
    ef = ei.astype(float)
    ef[(flags == 2) | (flags == 3)] = 0.
    ei2 = ei.copy()
    ei2[(flags == 2) | (flags == 3)] = 0
    fl_i = np.where(flags == 4, 1, flags)
    si = pkg.make_source('src', fl_i, fi.astype(float), ef)
    sj = pkg.make_source('src', fl_i, fi.astype(float), ef)
    sj.flux = fi
    sj.error = ei2
    # (the unsigned-flag twin keeps the real photometry, so that limits keep their confidences)
    err_ = np.asarray(error, dtype=float) if error is not None else ef
    flx_ = np.asarray(flux, dtype=float) if error is not None else fi.astype(float)
    fl_u = flags if error is not None else fl_i
    s0 = pkg.make_source('src', fl_u, flx_, err_)
    su = pkg.make_source('src', fl_u, flx_, err_)
    su.valid = np.asarray(fl_u).astype(np.uint8)
    try:
        _, a_f = _fit_any(mode, fluxes, wav, dist, k, si, lo, hi)
        _, a_i = _fit_any(mode, fluxes, wav, dist, k, sj, lo, hi)
        _, a_0 = _fit_any(mode, fluxes, wav, dist, k, s0, lo, hi)
        _, a_u = _fit_any(mode, fluxes, wav, dist, k, su, lo, hi)
    except Exception as e:
        return rec.fail('crash', 'fit of integer-typed photometry raised %s: %s' % (type(e).__name__, e), case)
    ok = rec.expect(_same_fit(a_f, a_i, tol=1e-12), 'dtype_independent', 'the same photometry stored with an integer dtype fits differently', case)
    ok &= rec.expect(_same_fit(a_0, a_u, tol=1e-12), 'dtype_independent', 'the same flags stored as unsigned 8-bit integers fit differently', case)
    return ok


def check_models_independent(rec, case, mode, M, seed):
    """A grid of M models (the size of real grids: hundreds of thousands) gives every model the fit it gets in a grid of
    its own block of 997 models: no model's result depends on how many others there are."""
    rng = np.random.default_rng(seed)
    n = 3
    wav = np.array([1., 2., 4.])
    k = np.array([-0.9, -0.5, -0.2])
    dist = None if mode == '2d' else np.array([0.7, 1.9])
    fluxes = 10. ** rng.uniform(-1, 2, (M, n) if mode == '2d' else (M, 2, n))
    src = pkg.make_source('src', [1, 1, 3], [3., 5., 40.], [0.3, 0.6, 0.5])
    try:
        _, big = _fit_any(mode, fluxes, wav, dist, k, src, 0., 5.)
    except Exception as e:
        return rec.fail('crash', 'fit of a grid of %d models raised %s: %s' % (M, type(e).__name__, e), case)
    ids = np.asarray(big.model_id)
    ok = rec.expect(sorted(int(x) for x in ids) == list(range(M)), 'large_grid', 'a grid of %d models does not list every model once' % M, case)
    if not ok:
        return False
    by = np.empty((M, 3))
    by[ids, 0], by[ids, 1], by[ids, 2] = np.asarray(big.av, float), np.asarray(big.sc, float), np.asarray(big.chi2, float)
    mf = np.empty((M, n))
    mf[ids] = np.asarray(big.model_fluxes, float)
    for start in list(range(0, M, 997 * 40))[:6] + [M - 997, M - 5]:
        start = max(0, start)
        sl = slice(start, min(M, start + 997))
        _, part = _fit_any(mode, fluxes[sl], wav, dist, k, src, 0., 5.)
        pid = np.asarray(part.model_id)
        ref = np.empty((len(pid), 3))
        ref[pid, 0], ref[pid, 1], ref[pid, 2] = np.asarray(part.av, float), np.asarray(part.sc, float), np.asarray(part.chi2, float)
        rmf = np.empty((len(pid), n))
        rmf[pid] = np.asarray(part.model_fluxes, float)
        ok &= rec.expect(close(by[sl], ref, 1e-12, 1e-12) and close(mf[sl], rmf, 1e-12, 1e-12), 'large_grid',
                         'models %d.. of a grid of %d models get another fit (A_V, scale, chi2, predicted fluxes) than in a grid of their own' % (start, M), case)
        if not ok:
            break
    return ok


def run_c01(tier, seed):
    rec = Recorder('C01', 'random sources (>=2 fitted points, any flags, limits with confidences) x random positive grids x '
                          'A_V ranges {wide, lo==hi, clamping} through the real Models.fit, as the first fit of the object or after another source (and the real Fitter for a subset); '
                          'distinct = (flag vector, range kind); non-trivial = at least one model clamped or a limit violated')
    n_cases = 150 if tier == 'quick' else 4000
    rng = np.random.default_rng(seed)
    for t in range(n_cases):
        n = int(rng.integers(2, 7))
        wav, ext, k = _law(rng, n)
        for _ in range(20):
            flags = rng.choice(FLAGS, size=n, p=[.1, .45, .1, .1, .15, .1])
            if usable(flags, k):
                break
        else:
            continue
        src = random_source(rng, n, flags)
        M = int(rng.integers(1, 7))
        fluxes = _grid(rng, M, n)
        lo, hi = _av_range(rng, t % 3)
        prior = None
        if t % 2:
            pf = rng.choice((1, 1, 1, 2, 3, 4, 0), size=n)
            pf[:2] = 1
            ps = random_source(rng, n, pf, placeholders=False)
            prior = [dict(valid=ps.valid, flux=ps.flux, error=ps.error)]
        case = _case(seed, 'c01', fluxes=fluxes, k=k, wav=wav, valid=src.valid, flux=src.flux, error=src.error, lo=lo, hi=hi, prior=prior)
        try:
            models, _, _, _, info = _fit2d_from_case(case)
        except Exception as e:
            rec.fail('crash', 'Models.fit raised %s: %s' % (type(e).__name__, e), case)
            continue
        ok = check_fit_2d(rec, case, models, fluxes, k, src, lo, hi, info)
        if t % 5 == 0 and not any(f == 4 for f in flags):
            ok &= check_dtype_independent(rec, case, '2d', fluxes, wav, None, k, flags, src.flux, lo, hi)
        clamped = bool(np.any((np.asarray(info.av) <= lo) | (np.asarray(info.av) >= hi)))
        rec.case(key=(tuple(int(x) for x in flags), t % 3), nontrivial=clamped or any(f in (2, 3) for f in flags),
                 sample=dict(flags=[int(x) for x in flags], av_range=[lo, hi], n_models=M, best_av=float(info.av[0]), best_chi2=float(info.chi2[0])))
        if not ok and len(rec.violations) >= 3:
            break
    big = dict(seed=seed, tag='large-grid', mode='2d', M=200710, gseed=int(seed) % 1000 + 1)
    check_models_independent(rec, big, '2d', big['M'], big['gseed'])
    rec.case(key=('large-grid', '2d'), nontrivial=True)
    _fitter_wiring(rec, seed, 3 if tier == 'quick' else 25)
    return rec, {'c01': replay_2d, 'fitter': replay_fitter, 'large-grid': lambda r, c_: check_models_independent(r, c_, c_['mode'], c_['M'], c_['gseed'])}


def _build_conv_package(d, spec, filt_names, filt_wavs, widx, units_=('mJy', 'au', 'micron'), ap_counts=None):
    """A per-file style package with ready-made convolved/ files (no SEDs needed for fitting).  `units_`: the units the
    files are STORED in (flux, aperture, wavelength); the content is the same physical table."""
    import os
    from sedfitter.convolved_fluxes import ConvolvedFluxes
    os.makedirs(os.path.join(d, 'convolved'), exist_ok=True)
    fu, au_, wu = (getattr(u, x) for x in units_)
    for jf, (nm, wv, wi) in enumerate(zip(filt_names, filt_wavs, widx)):
        ka = None if (ap_counts is None or spec.apertures is None) else int(ap_counts[jf])       # this band's file tabulates only the first ka apertures
        c = ConvolvedFluxes(wavelength=(wv * u.micron).to(wu), model_names=np.array(spec.par_names()),
                            apertures=None if spec.apertures is None else (spec.apertures[:ka] * u.au).to(au_),
                            flux=(spec.flux[spec.par_order][:, :ka, wi] * u.mJy).to(fu), error=(spec.error[spec.par_order][:, :ka, wi] * u.mJy).to(fu))
        c.write(os.path.join(d, 'convolved', nm + '.fits'))
    pkg._write_conf(d, spec, 1)
    pkg._write_params(d, spec, spec.par_order)


def _fitter_case(case):
    from sedfitter import Fitter
    c = unjson_floats(case)
    rng = np.random.default_rng(c['pseed'])
    n = c['n']
    spec = pkg.random_spec(rng, n_models=c['M'], n_ap=1, n_wav=n)
    names = ['F%d' % j for j in range(n)]
    ext = pkg.simple_extinction(power=c['power'])
    if c.get('law_unit') == 'AA':
        from sedfitter.extinction import Extinction
        e2 = Extinction()
        e2.wav = ext.wav.to(u.AA)
        e2.chi = ext.chi.to(u.m ** 2 / u.kg)
        ext = e2
    src = pkg.make_source('src', c['valid'], c['flux'], c['error'])
    with pkg.scratch() as d:
        _build_conv_package(d, spec, names, spec.wav, range(n))
        with pkg.quiet():
            fitter = Fitter(names, np.ones(n) * u.arcsec, d, extinction_law=ext, av_range=(c['lo'], c['hi']),
                            distance_range=[1., 2.] * u.kpc)
        info = fitter.fit(src)
        wl = ext.wav.to(u.micron).value
        k = -0.4 * np.interp(spec.wav, wl, ext.chi.value, left=0., right=0.) / np.interp(0.55, wl, ext.chi.value)
        fl = np.asarray(fitter.models.fluxes.to(u.mJy).value, dtype=float)
        return fitter.models, fl, k, src, info


def replay_fitter(rec, case):
    models, fl, k, src, info = _fitter_case(case)
    return check_fit_2d(rec, case, models, fl, k, src, case['lo'], case['hi'], info)


def _fitter_wiring(rec, seed, count):
    """The same clauses through the real Fitter (sc_law = -2, k from the real extinction law
    normalised at V, av_range order, files)."""
    rng = np.random.default_rng(seed + 77)
    for t in range(count):
        n = int(rng.integers(2, 5))
        M = int(rng.integers(1, 5))
        flags = rng.choice((1, 1, 1, 4, 2, 3, 0), size=n)
        flags[:2] = 1
        src = random_source(rng, n, flags)
        lo, hi = _av_range(rng, t % 3)
        case = _case(seed, 'fitter', pseed=int(rng.integers(1, 10 ** 6)), n=n, M=M, power=float(rng.uniform(-1.8, -0.8)),
                     valid=src.valid, flux=src.flux, error=src.error, lo=lo, hi=hi, law_unit='AA' if t % 2 else 'micron')
        try:
            models, fl, k, s2, info = _fitter_case(case)
        except Exception as e:
            rec.fail('fitter_crash', 'Fitter raised %s: %s' % (type(e).__name__, e), case)
            continue
        if not usable(flags, k):
            continue
        check_fit_2d(rec, case, models, fl, k, s2, lo, hi, info)
        rec.case(key=('fitter', tuple(int(x) for x in flags), t % 3))


# ---------------------------------------------------------------------------
# C02 (fit part; the package-reading part is in pkg_props)
# ---------------------------------------------------------------------------

def run_c02_fit(rec, tier, seed):
    n_cases = 60 if tier == 'quick' else 1500
    rng = np.random.default_rng(seed + 2)
    for t in range(n_cases):
        n = int(rng.integers(1, 6))
        wav, ext, k = _law(rng, n)
        for _ in range(20):
            flags = rng.choice(FLAGS, size=n, p=[.1, .5, .1, .1, .1, .1])
            if usable(flags, k, need=1):
                break
        else:
            continue
        src = random_source(rng, n, flags)
        M, D = int(rng.integers(1, 5)), int(rng.integers(1, 6))
        fluxes = _grid(rng, M, n, D)
        dist = np.sort(10. ** rng.uniform(-1, 1, D))
        lo, hi = _av_range(rng, t % 3)
        # every second case: the object has already fitted one or two other sources (a fitter is used for a whole
        # data file; the statement is about every fit, not the first one)
        prior = []
        if t % 2:
            for _ in range(1 + t % 3 % 2):
                o = random_source(rng, n, flags)
                prior.append(dict(valid=o.valid, flux=o.flux, error=o.error))
        case = _case(seed, 'c02fit', fluxes=fluxes, k=k, wav=wav, dist=dist, valid=src.valid, flux=src.flux, error=src.error, lo=lo, hi=hi, prior=prior)
        try:
            models, _fl, _k, _src, info = _fit3d_from_case(case)
        except Exception as e:
            rec.fail('crash', 'Models.fit raised %s: %s' % (type(e).__name__, e), case)
            continue
        check_fit_3d(rec, case, models, fluxes, np.log10(dist), k, src, lo, hi, info)
        rec.case(key=('fit3d', tuple(int(x) for x in flags), D, t % 3, len(prior)),
                 sample=dict(flags=[int(x) for x in flags], n_dist=D, av_range=[lo, hi], best_sc=float(info.sc[0])) if t < 2 else None)
    return {'c02fit': replay_3d}


# ---------------------------------------------------------------------------
# C03
# ---------------------------------------------------------------------------

def _fit_any(mode, fluxes, wav, dist, k, src, lo, hi, extended=None, before=()):
    if mode == '2d':
        m = make_models_2d(['m%03d' % i for i in range(fluxes.shape[0])], fluxes, wav)
    else:
        m = make_models_3d(['m%03d' % i for i in range(fluxes.shape[0])], fluxes, wav, dist)
        if extended is not None:
            m.extended = np.array(extended, dtype=bool)     # what Models.read sets with remove_resolved=True
    for o in before:
        m.fit(o, k.copy(), -2. * np.ones(len(k)), lo, hi)
    return m, m.fit(src, k.copy(), -2. * np.ones(len(k)), lo, hi)


def _by_name(info, shift=0.):
    return dict((str(nm), (float(a), float(s) + shift, float(c))) for nm, a, s, c in zip(info.model_name, info.av, info.sc, info.chi2))


def _same_fit(a, b, tol=0., sc_shift=0.):
    """Equal fit results.  tol == 0: identical arrays in identical order.  tol > 0: the same (A_V, scale,
    chi^2) for every model BY NAME (rows with numerically tied chi^2 may legitimately swap ranks) and the
    same chi^2 sequence."""
    if tol == 0.:
        for nm in ('av', 'sc', 'chi2'):
            x, y = np.asarray(getattr(a, nm), dtype=float), np.asarray(getattr(b, nm), dtype=float)
            if not (x.shape == y.shape and np.all((x == y) | (np.isnan(x) & np.isnan(y)))):
                return False
        return list(a.model_name) == list(b.model_name)
    da, db = _by_name(a, sc_shift), _by_name(b)
    if set(da) != set(db):
        return False
    if not all(close(da[k], db[k], tol, tol) for k in da):
        return False
    return close(np.sort(np.asarray(a.chi2, dtype=float)), np.sort(np.asarray(b.chi2, dtype=float)), tol, tol)


def c03_one(rec, case):
    c = unjson_floats(case)
    flags = np.array(c['valid'])
    n = len(flags)
    fluxes, k, wav = np.array(c['fluxes']), np.array(c['k']), np.array(c['wav'])
    dist = np.array(c['dist']) if c.get('dist') is not None else None
    mode = c['mode']
    lo, hi = c['lo'], c['hi']
    src = pkg.make_source('src', flags, c['flux'], c['error'])
    try:
        m, info = _fit_any(mode, fluxes, wav, dist, k, src, lo, hi)
    except Exception as e:
        rec.fail('crash', 'fit raised %s: %s' % (type(e).__name__, e), case)
        return False
    ok = True
    fin = np.all(np.isfinite(np.asarray(info.av, dtype=float))) and np.all(np.isfinite(np.asarray(info.sc, dtype=float)))
    ok &= rec.expect(fin, 'finite_outputs', 'A_V/scale contain NaN/inf for finite fitted data (flags %s)' % flags.tolist(), case)
    # (i) values carried by unused / plot-only points never matter
    alt = np.array(c['alt'])
    f2, e2 = np.array(c['flux'], dtype=float), np.array(c['error'], dtype=float)
    for j in range(n):
        if flags[j] in (0, 9):
            f2[j], e2[j] = alt[j]
    src2 = pkg.make_source('src', flags, f2, e2)
    _, info2 = _fit_any(mode, fluxes, wav, dist, k, src2, lo, hi)
    ok &= rec.expect(_same_fit(info, info2) and close(info.model_fluxes, info2.model_fluxes, 0, 0), 'flags_0_9_never_matter',
                     'changing the values of points flagged 0/9 changed the fit (flags %s)' % flags.tolist(), case)
    # flag 9 <-> flag 0
    fl0 = np.where(flags == 9, 0, flags)
    _, info0 = _fit_any(mode, fluxes, wav, dist, k, pkg.make_source('src', fl0, c['flux'], c['error']), lo, hi)
    ok &= rec.expect(_same_fit(info, info0), 'flag9_equals_flag0', 'a plot-only point fits differently from an unused point', case)
    # (ii) limits against the oracle
    if mode == '2d':
        ok &= check_fit_2d(rec, case, m, fluxes, k, src, lo, hi, info)
    else:
        ok &= check_fit_3d(rec, case, m, fluxes, np.log10(dist), k, src, lo, hi, info)
    # confidence 0 == flag 0
    if any(f in (2, 3) for f in flags):
        e3 = np.array(c['error'], dtype=float)
        e3[(flags == 2) | (flags == 3)] = 0.
        _, i_c0 = _fit_any(mode, fluxes, wav, dist, k, pkg.make_source('src', flags, c['flux'], e3), lo, hi)
        fl_off = np.where((flags == 2) | (flags == 3), 0, flags)
        _, i_off = _fit_any(mode, fluxes, wav, dist, k, pkg.make_source('src', fl_off, c['flux'], e3), lo, hi)
        ok &= rec.expect(_same_fit(i_c0, i_off), 'confidence0_equals_flag0', 'a limit with confidence 0 is not equivalent to an unused point', case)
    # integer-valued photometry stored with an integer dtype / unsigned flags fits like the same numbers stored as floats
    if c.get('int_dtype'):
        ok &= check_dtype_independent(rec, case, mode, fluxes, wav, dist, k, flags, c['flux'], lo, hi, error=c['error'])
    # the SAME source object, re-flagged / re-valued in place (element-wise, not through the setters) and fitted again,
    # fits like a fresh source carrying the new content: nothing about a source is remembered between fits
    if n >= 3:
        sa = pkg.make_source('src', flags, c['flux'], c['error'])
        try:
            _fit_any(mode, fluxes, wav, dist, k, sa, lo, hi)
            j_ = n - 1
            sa.valid[j_] = 0 if flags[j_] != 0 else 9
            sa.flux[j_] = abs(float(sa.flux[j_])) * 3. + 1.
            fresh = pkg.make_source('src', np.array(sa.valid), np.array(sa.flux), np.array(sa.error))
            if usable(np.array(sa.valid), k, need=2 if mode == '2d' else 1):
                _, a_same = _fit_any(mode, fluxes, wav, dist, k, sa, lo, hi)
                _, a_fresh = _fit_any(mode, fluxes, wav, dist, k, fresh, lo, hi)
                ok &= rec.expect(_same_fit(a_same, a_fresh), 'edited_in_place', 'a source edited in place (flag %d -> %d at point %d) and fitted again fits differently from a fresh source with the same content'
                                 % (flags[j_], sa.valid[j_], j_), case)
        except Exception as e:
            rec.fail('crash', 'second fit of an edited source raised %s: %s' % (type(e).__name__, e), case)
    # (iii) flag-4 equivalence
    if any(f == 1 for f in flags):
        f4, e4, fl4 = np.array(c['flux'], dtype=float), np.array(c['error'], dtype=float), flags.copy()
        for j in range(n):
            if flags[j] == 1:
                F, E = f4[j], e4[j]
                f4[j] = math.log10(F) - 0.5 * (E / F) ** 2 / math.log(10.)
                e4[j] = abs(E / F) / math.log(10.)
                fl4[j] = 4
        _, i4 = _fit_any(mode, fluxes, wav, dist, k, pkg.make_source('src', fl4, f4, e4), lo, hi)
        if mode == '3d' and sum(1 for f in flags if f in (1, 4)) < 2:
            # one fitted point: A_V absorbs it at EVERY trial distance, chi^2 is 0 on the whole grid and the reported
            # distance is an arbitrary tie-break at round-off level; only the chi^2 values are determined
            same4 = close(np.sort(np.asarray(info.chi2, dtype=float)), np.sort(np.asarray(i4.chi2, dtype=float)), 1e-9, 1e-9)
        else:
            same4 = _same_fit(info, i4, tol=1e-9)
        ok &= rec.expect(same4, 'flag4_equals_flag1', 'flag-4 points with the transformed values do not fit identically', case)
    return ok


def run_c03(tier, seed):
    nmax = 4 if tier == 'quick' else 5
    rec = Recorder('C03', 'EXHAUSTIVE flag vectors in {0,1,2,3,4,9}^n, n<=%d, each with random photometry (incl. -999/0/negative '
                          'placeholders on 0/9 points) and confidences in {0,(0,1),1}, both fitting modes (alternating); '
                          'per vector: 0/9 values perturbed, 9->0, conf 0 vs flag 0, flag 1 vs flag 4, chi2 against the penalty oracle; '
                          'distinct = flag vector x mode; non-trivial = contains a 0/9 point or a limit' % nmax)
    rng = np.random.default_rng(seed + 3)
    count = 0
    for n in range(1, nmax + 1):
        wav, ext, k = _law(rng, n)
        for flags in itertools.product(FLAGS, repeat=n):
            count += 1
            mode = '2d' if count % 2 else '3d'
            if not usable(flags, k, need=2 if mode == '2d' else 1):
                continue
            conf = (0., rng.uniform(0.05, 0.95), 1.0)
            src = random_source(rng, n, np.array(flags), conf_choices=conf)
            M = int(rng.integers(1, 4))
            D = int(rng.integers(1, 4))
            fluxes = _grid(rng, M, n, None if mode == '2d' else D)
            dist = None if mode == '2d' else np.sort(10. ** rng.uniform(-1, 1, D))
            lo, hi = _av_range(rng, count % 3)
            alt = [[float(rng.choice([-999., 0., 5.5, -3.])), float(rng.choice([-999., 0., 0.7]))] for _ in range(n)]
            case = _case(seed, 'c03', mode=mode, fluxes=fluxes, k=k, wav=wav, dist=dist, valid=list(flags), flux=src.flux,
                         error=src.error, lo=lo, hi=hi, alt=alt, int_dtype=bool(count % 4 == 0))
            ok = c03_one(rec, case)
            rec.case(key=(flags, mode), nontrivial=any(f in (0, 9, 2, 3) for f in flags),
                     sample=dict(flags=list(flags), mode=mode, flux=jsonable(src.flux), error=jsonable(src.error)))
            if not ok and len(rec.violations) >= 3:
                return rec, {'c03': c03_one}
    rec.exhaustive = True
    return rec, {'c03': c03_one}


# ---------------------------------------------------------------------------
# C04
# ---------------------------------------------------------------------------

def run_c04(tier, seed):
    rec = Recorder('C04', 'random sources x grids containing exactly tied models, models with chi2 >= 1e30 (confidence-1 limit '
                          'violated) and models with INFINITE chi2 (rejected as resolved at every distance, placed before finite ones), both modes; every row checked against the model named by model_id; distinct = (mode, flags, ties)')
    rng = np.random.default_rng(seed + 4)
    n_cases = 80 if tier == 'quick' else 2000
    for t in range(n_cases):
        mode = '2d' if t % 2 else '3d'
        n = int(rng.integers(2, 6))
        wav, ext, k = _law(rng, n)
        flags = rng.choice((1, 1, 1, 4, 3, 2, 0, 9), size=n)
        flags[:2] = 1
        src = random_source(rng, n, flags, conf_choices=(1.0, 0.5))
        M, D = int(rng.integers(2, 7)), int(rng.integers(1, 4))
        fluxes = _grid(rng, M, n, None if mode == '2d' else D, ties=True)
        dist = None if mode == '2d' else np.sort(10. ** rng.uniform(-1, 1, D))
        lo, hi = _av_range(rng, t % 3)
        case = _case(seed, 'c04', mode=mode, fluxes=fluxes, k=k, wav=wav, dist=dist, valid=flags, flux=src.flux, error=src.error, lo=lo, hi=hi, alt=[[1., 1.]] * n)
        try:
            m, info = _fit_any(mode, fluxes, wav, dist, k, src, lo, hi)
        except Exception as e:
            rec.fail('crash', 'fit raised %s: %s' % (type(e).__name__, e), case)
            continue
        if mode == '2d':
            check_fit_2d(rec, case, m, fluxes, k, src, lo, hi, info)
        else:
            check_fit_3d(rec, case, m, fluxes, np.log10(dist), k, src, lo, hi, info)
        # models with INFINITE chi^2 (rejected as resolved at every distance), placed before finite ones in grid order:
        # every model still listed exactly once, finite rows as without the mask, infinite rows last, rows consistent
        if mode == '3d' and t % 2 == 0 and M >= 3:
            ext = np.zeros((M, D, n), dtype=bool)
            rej = sorted(rng.choice(M - 1, size=int(rng.integers(1, min(3, M - 1) + 1)), replace=False).tolist())    # never only the last model
            for r_ in rej:
                ext[r_, :, :] = True
            case_e = dict(case, extended=jsonable(ext))
            try:
                _, info_e = _fit_any(mode, fluxes, wav, dist, k, src, lo, hi, extended=ext)
                ids_e = [int(x) for x in np.asarray(info_e.model_id)]
                ch_e = np.asarray(info_e.chi2, dtype=float)
                ok_e = sorted(ids_e) == list(range(M))
                ok_e = ok_e and all(np.isinf(ch_e[ids_e.index(r_)]) for r_ in rej) and int(np.sum(np.isinf(ch_e))) >= len(rej)
                fin = [i for i in range(M) if i not in rej]
                ref = dict((int(i_), (float(a_), float(s_), float(c_), str(nm_))) for i_, a_, s_, c_, nm_ in zip(info.model_id, info.av, info.sc, info.chi2, info.model_name))
                for pos, i_ in enumerate(ids_e):
                    row = (float(info_e.av[pos]), float(info_e.sc[pos]), float(ch_e[pos]), str(info_e.model_name[pos]))
                    if i_ in fin:
                        ok_e = ok_e and row[3] == ref[i_][3] and close(row[:3], ref[i_][:3], 1e-12, 1e-12)
                    else:
                        ok_e = ok_e and row[3] == ref[i_][3]
                fin_ch = ch_e[np.isfinite(ch_e)]
                ok_e = ok_e and bool(np.all(np.diff(fin_ch) >= 0)) and bool(np.all(np.isfinite(ch_e[:len(fin_ch)])))
                rec.expect(ok_e, 'infinite_rows', 'with models %s rejected (infinite chi2) the result does not list every model once, in order, with consistent rows: ids %s chi2 %s'
                           % (rej, ids_e, [float(x) for x in ch_e]), case_e)
            except Exception as e:
                rec.fail('crash', 'fit with rejected models raised %s: %s' % (type(e).__name__, e), case_e)
        # tied models both present, adjacent ranks
        ids = list(np.asarray(info.model_id))
        rec.expect(abs(ids.index(0) - ids.index(1)) == 1 or float(info.chi2[ids.index(0)]) == float(info.chi2[ids.index(1)]), 'ties_kept',
                   'identical models 0 and 1 do not have identical chi2', case)
        rec.case(key=(mode, tuple(int(x) for x in flags), t % 3), nontrivial=True,
                 sample=dict(mode=mode, flags=[int(x) for x in flags], chi2=jsonable(np.asarray(info.chi2)[:4])) if t < 3 else None)
    # grids with ONE model (both modes): one row, model index 0, the fit of that model
    for t in range(6 if tier == 'quick' else 60):
        mode = '2d' if t % 2 else '3d'
        n = int(rng.integers(2, 5))
        wav, ext, k = _law(rng, n)
        flags = np.ones(n, dtype=int)
        src = random_source(rng, n, flags, placeholders=False)
        D = int(rng.integers(1, 4))
        fluxes = _grid(rng, 1, n, None if mode == '2d' else D)
        dist = None if mode == '2d' else np.sort(10. ** rng.uniform(-1, 1, D))
        lo, hi = _av_range(rng, t % 3)
        case = _case(seed, 'c04', mode=mode, fluxes=fluxes, k=k, wav=wav, dist=dist, valid=flags, flux=src.flux, error=src.error, lo=lo, hi=hi, alt=[[1., 1.]] * n)
        try:
            m, info = _fit_any(mode, fluxes, wav, dist, k, src, lo, hi)
            ok1 = info.model_id is not None and [int(x) for x in np.asarray(info.model_id)] == [0] and len(info.chi2) == 1
            rec.expect(ok1, 'single_model', 'a grid with one model does not give one row with model index 0 (model_id=%r)' % (info.model_id,), case)
            if ok1:
                (check_fit_2d(rec, case, m, fluxes, k, src, lo, hi, info) if mode == '2d' else check_fit_3d(rec, case, m, fluxes, np.log10(dist), k, src, lo, hi, info))
                info.keep(('N', 1))         # what every consumer does next
        except Exception as e:
            rec.fail('crash', 'fit of a one-model grid raised %s: %s' % (type(e).__name__, e), case)
        rec.case(key=('one-model', mode, t % 3), nontrivial=True)
    big = dict(seed=seed, tag='large-grid', mode='3d', M=200710, gseed=int(seed) % 1000 + 3)
    check_models_independent(rec, big, '3d', big['M'], big['gseed'])
    rec.case(key=('large-grid', '3d'), nontrivial=True)
    # through real packages: the reported scale is log10 of the best distance in kpc -- whatever unit the distance range is
    # given in -- and the stored fluxes follow from it (the package-level oracle of C02, both formats)
    from . import pipe_props
    for t in range(6 if tier == 'quick' else 60):
        dmin = float(10. ** rng.uniform(-0.5, 0.3))
        n_f = int(rng.integers(2, 4))
        case = dict(seed=seed, tag='c02-pkg', pseed=int(rng.integers(1, 10 ** 6)), n_models=int(rng.integers(2, 6)), n_ap=int(rng.integers(2, 6)), n_f=n_f,
                    step=float(rng.choice([0.05, 0.1])), dmin=dmin, dmax=float(dmin * 10. ** rng.uniform(0.2, 0.9)),
                    theta=[float(10. ** rng.uniform(1.8, 2.5) / (dmin * 1000.)) * 10. for _ in range(n_f)], version=1 + t % 2, memmap=False, increasing=True,
                    lo=0., hi=float(rng.uniform(2, 10)), flags=[1] * n_f, exact=False, range_unit=['pc', 'kpc', 'Mpc'][t % 3])
        try:
            pipe_props.c02_pkg(rec, case)
        except Exception as e:
            rec.fail('c04_pkg_crash', 'raised %s: %s' % (type(e).__name__, e), case)
        rec.case(key=('pkg', case['version'], case['range_unit']), nontrivial=True)
    return rec, {'c04': c04_replay, 'c02-pkg': pipe_props.c02_pkg, 'large-grid': lambda r, c_: check_models_independent(r, c_, c_['mode'], c_['M'], c_['gseed'])}


def c04_replay(rec, case):
    c = unjson_floats(case)
    src = pkg.make_source('src', c['valid'], c['flux'], c['error'])
    fluxes, k = np.array(c['fluxes']), np.array(c['k'])
    dist = np.array(c['dist']) if c.get('dist') is not None else None
    m, info = _fit_any(c['mode'], fluxes, np.array(c['wav']), dist, k, src, c['lo'], c['hi'])
    if c.get('extended') is not None:
        ext = np.array(c['extended'], dtype=bool)
        M = fluxes.shape[0]
        rej = [i for i in range(M) if ext[i].all()]
        _, info_e = _fit_any(c['mode'], fluxes, np.array(c['wav']), dist, k, src, c['lo'], c['hi'], extended=ext)
        ids_e = [int(x) for x in np.asarray(info_e.model_id)]
        ch_e = np.asarray(info_e.chi2, dtype=float)
        fin_ch = ch_e[np.isfinite(ch_e)]
        ref = dict((int(i_), (float(a_), float(s_), float(c_))) for i_, a_, s_, c_ in zip(info.model_id, info.av, info.sc, info.chi2))
        ok_e = sorted(ids_e) == list(range(M)) and bool(np.all(np.diff(fin_ch) >= 0)) and bool(np.all(np.isfinite(ch_e[:len(fin_ch)])))
        for pos, i_ in enumerate(ids_e):
            if i_ in rej:
                ok_e = ok_e and bool(np.isinf(ch_e[pos]))
            else:
                ok_e = ok_e and close((float(info_e.av[pos]), float(info_e.sc[pos]), float(ch_e[pos])), ref[i_], 1e-12, 1e-12)
        return rec.expect(ok_e, 'infinite_rows', 'with models %s rejected the result does not list every model once, in order, with consistent rows' % rej, case)
    if c['mode'] == '2d':
        return check_fit_2d(rec, case, m, fluxes, k, src, c['lo'], c['hi'], info)
    return check_fit_3d(rec, case, m, fluxes, np.log10(dist), k, src, c['lo'], c['hi'], info)


# ---------------------------------------------------------------------------
# C11
# ---------------------------------------------------------------------------

def c11_one(rec, case):
    c = unjson_floats(case)
    mode = c['mode']
    fluxes, k, wav = np.array(c['fluxes']), np.array(c['k']), np.array(c['wav'])
    dist = np.array(c['dist']) if c.get('dist') is not None else None
    flags = np.array(c['valid'])
    flux, err = np.array(c['flux'], dtype=float), np.array(c['error'], dtype=float)
    lo, hi = c['lo'], c['hi']
    n = len(flags)
    src = pkg.make_source('src', flags, flux, err)
    before = (src.valid.copy(), src.flux.copy(), src.error.copy(), src.name, src.x, src.y)
    ext = np.array(c['extended'], dtype=bool) if c.get('extended') is not None else None
    m, info = _fit_any(mode, fluxes, wav, dist, k, src, lo, hi, extended=ext)
    ok = rec.expect(np.array_equal(src.valid, before[0]) and np.array_equal(src.flux, before[1]) and np.array_equal(src.error, before[2])
                    and (src.name, src.x, src.y) == before[3:], 'source_unchanged', 'fit() modified the source it was given', case)
    ok &= rec.expect(np.array_equal(np.asarray(m.fluxes.value), fluxes) and list(m.names) == ['m%03d' % i for i in range(fluxes.shape[0])],
                     'models_unchanged', 'fit() modified the model grid / names', case)
    # history: fit other sources in between, then the same source again
    for o in c['others']:
        m.fit(pkg.make_source('o', o['valid'], o['flux'], o['error']), k.copy(), -2. * np.ones(n), lo, hi)
    again = m.fit(src, k.copy(), -2. * np.ones(n), lo, hi)
    ok &= rec.expect(_same_fit(info, again) and close(info.model_fluxes, again.model_fluxes, 0, 0), 'history_independent',
                     'the same source fitted after other sources gives a different result', case)
    # ... and on a fresh object that fitted the other sources FIRST
    _, late = _fit_any(mode, fluxes, wav, dist, k, src, lo, hi, extended=ext,
                       before=[pkg.make_source('o', o['valid'], o['flux'], o['error']) for o in c['others']])
    ok &= rec.expect(_same_fit(info, late), 'history_independent',
                     'a fitter that fitted other sources first gives a different result for this source than a fresh one%s' % (' (resolved models removed)' if ext is not None else ''), case)
    if not any(f == 4 for f in flags):
        ok &= check_dtype_independent(rec, case, mode, fluxes, wav, dist, k, flags, flux, lo, hi)
    # filter permutation
    p = np.array(c['perm'])
    srcp = pkg.make_source('src', flags[p], flux[p], err[p])
    fl_p = fluxes[..., p]
    mp, infop = _fit_any(mode, fl_p, wav[p], dist, k[p], srcp, lo, hi, extended=None if ext is None else ext[..., p])
    ok &= rec.expect(_same_fit(info, infop, tol=1e-8), 'filter_permutation',
                     'permuting the filters (photometry alike) changed the fit', case)
    # model permutation
    q = np.array(c['mperm'])
    mq, infoq = _fit_any(mode, fluxes[q], wav, dist, k, src, lo, hi, extended=None if ext is None else ext[q])
    names_q = [('m%03d' % q[int(s[1:])]) for s in infoq.model_name]
    byname = dict((nm, (float(a), float(s), float(ch))) for nm, a, s, ch in zip(info.model_name, info.av, info.sc, info.chi2))
    same = all(close(byname[nm], (float(a), float(s), float(ch)), 1e-9, 1e-9) for nm, a, s, ch in zip(names_q, infoq.av, infoq.sc, infoq.chi2))
    ok &= rec.expect(same and close(np.sort(info.chi2), np.sort(infoq.chi2), 1e-9, 1e-9), 'model_permutation', 'permuting the models changed some model\'s fit', case)
    # brightness scaling (distance-independent packages; limits keep their confidence)
    if mode == '2d' and not any(f == 4 for f in flags):
        cst = c['scale']
        f3, e3 = flux.copy(), err.copy()
        for j in range(n):
            if flags[j] in (0, 1, 9):
                f3[j] *= cst
                e3[j] *= cst
            elif flags[j] in (2, 3):
                f3[j] *= cst
        _, infos = _fit_any(mode, fluxes, wav, dist, k, pkg.make_source('src', flags, f3, e3), lo, hi)
        ok &= rec.expect(_same_fit(info, infos, tol=1e-6, sc_shift=-0.5 * math.log10(cst)), 'brightness_scaling',
                         'scaling fluxes and errors by %g did not shift the scale by 0.5*log10 or changed A_V/chi2' % cst, case)
    return ok


def run_c11(tier, seed):
    rec = Recorder('C11', 'paired runs on the real Models.fit: history (1-5 other sources fitted in between or before, with and without the resolved-model mask), source/grid left unmodified, '
                          'random filter permutation, random model permutation, brightness scaling over 8 decades; both modes; '
                          'distinct = (mode, flags, permutation)')
    rng = np.random.default_rng(seed + 11)
    n_cases = 60 if tier == 'quick' else 1500
    for t in range(n_cases):
        mode = '2d' if t % 2 else '3d'
        n = int(rng.integers(2, 7))
        wav, ext, k = _law(rng, n)
        for _ in range(20):
            flags = rng.choice(FLAGS, size=n, p=[.1, .5, .1, .1, .1, .1])
            if usable(flags, k):
                break
        else:
            continue
        src = random_source(rng, n, flags, placeholders=False)
        M, D = int(rng.integers(2, 9)), int(rng.integers(1, 4))
        fluxes = _grid(rng, M, n, None if mode == '2d' else D)
        dist = None if mode == '2d' else np.sort(10. ** rng.uniform(-1, 1, D))
        lo, hi = _av_range(rng, t % 3)
        others = []
        for _ in range(int(rng.integers(1, 6))):
            of = rng.choice((0, 1, 1, 1, 2, 3, 4, 9), size=n)
            of[:2] = 1
            o = random_source(rng, n, of, placeholders=False)
            others.append(dict(valid=o.valid, flux=o.flux, error=o.error))
        extended = None
        if mode == '3d' and t % 4 == 0:
            # remove_resolved=True: some (model, distance) cells are extended in some bands only
            extended = (rng.uniform(size=(M, D, n)) < 0.25).astype(int)
        case = _case(seed, 'c11', mode=mode, fluxes=fluxes, k=k, wav=wav, dist=dist, valid=flags, flux=src.flux, error=src.error, lo=lo, hi=hi,
                     others=others, extended=extended, perm=rng.permutation(n), mperm=rng.permutation(M), scale=float(10. ** rng.uniform(-4, 4)))
        try:
            c11_one(rec, case)
        except Exception as e:
            rec.fail('crash', 'raised %s: %s' % (type(e).__name__, e), case)
        rec.case(key=(mode, tuple(int(x) for x in flags), tuple(case['perm'])), nontrivial=True,
                 sample=dict(mode=mode, flags=[int(x) for x in flags], perm=case['perm'], n_other_fits=len(others)) if t < 3 else None)
    # through real packages: bands sharing an angular aperture but tabulated on different aperture sets (the result must not
    # depend on the order in which the bands are read)
    from . import pipe_props
    for case in pipe_props.shared_aperture_cases(rng, seed, 3 if tier == 'quick' else 40):
        try:
            pipe_props.c02_pkg(rec, case)
        except Exception as e:
            rec.fail('c11_pkg_crash', 'raised %s: %s' % (type(e).__name__, e), case)
        rec.case(key=('pkg-shared-aperture', case['n_f'], tuple(case['ap_counts'])), nontrivial=True)
    return rec, {'c11': c11_one, 'c02-pkg': pipe_props.c02_pkg}


REPLAY = {'c01': replay_2d, 'fitter': replay_fitter, 'c02fit': replay_3d, 'c03': c03_one, 'c04': c04_replay, 'c11': c11_one}
