"""Contract for sedfitter/extinction/extinction.py: Extinction.get_av (C14, C01)."""
from sedvc import units
from sedvc.contractlib import Contract, contract
from sedvc.sym import Sc, compare, band, bor, bnot, implies, ite, arith
from sedvc.values import Quantity
from .integrate import strictly_increasing

EXT = 'sedfitter.extinction.extinction.Extinction'
U = units.BASE
CHI_CGS = units.unit_div(units.unit_pow(U['cm'], 2), U['g'])
CHI_SI = units.unit_div(units.unit_pow(U['m'], 2), U['kg'])


def make_extinction(c, wav_unit, chi_unit, prefix='ext'):
    n = c.int(prefix + '_n')
    c.assume(n >= 2)
    return c.obj(EXT, _wav=Quantity(c.array(prefix + '_wav', (n,)), wav_unit), _chi=Quantity(c.array(prefix + '_chi', (n,)), chi_unit))


def v_band(c, law):
    """0.55 micron expressed in the unit of the tabulated wavelengths."""
    wu = c.attr(law, '_wav').unit
    from sedvc.units import _sdiv
    import fractions
    return _sdiv(fractions.Fraction(55, 100) * U['micron'].scale, wu.scale)


def line(W, X, k, v):
    return X[k] + (v - W[k]) * (X[k + 1] - X[k]) / (W[k + 1] - W[k])


@contract
class GetAv(Contract):
    """get_av(wav) = -0.4 chi(lambda)/chi(0.55 micron), chi linearly interpolated in the table,
    0 outside the tabulated range; whatever length unit the query or the table uses and
    whatever unit (or constant factor) the opacities carry."""
    name = EXT + '.get_av'
    properties = ('C14', 'C01', 'C17')
    variants = ('micron/cgs<-micron', 'micron/cgs<-cm', 'AA/si<-micron', 'cm/cgs<-AA')

    def setup(self, c, variant):
        tab, q = variant.split('<-')
        wu, cu = tab.split('/')
        law = make_extinction(c, U[wu], CHI_CGS if cu == 'cgs' else CHI_SI)
        m = c.int('n_query')
        c.assume(m >= 0)
        return dict(self=law, wav=Quantity(c.array('query', (m,)), U[q]))

    def requires(self, c, a):
        W, X = c.A(c.attr(a.self, '_wav')), c.A(c.attr(a.self, '_chi'))
        V = v_band(c, a.self)
        return {'increasing': strictly_increasing(c, W), 'lengths': compare('==', W.n, X.n), 'two_rows': W.n >= 2,
                'positive_opacity': c.forall(X.n, lambda k: X[k] > 0, 'chi>0'),
                'covers_V': band(W[0] <= V, V <= W[W.n - 1]),
                'query_is_length': isinstance(a.wav, Quantity) and a.wav.unit.dims == {'m': 1}}

    def result(self, c, a):
        return Quantity(c.fresh_array('av_law', c.A(a.wav).shape), U['dimensionless_unscaled'])

    def ensures(self, c, a, result, old):
        W, X = c.A(c.attr(a.self, '_wav')), c.A(c.attr(a.self, '_chi'))
        Q = c.A(a.wav)
        n = W.n
        from sedvc.units import _sdiv
        f = _sdiv(a.wav.unit.scale, c.attr(a.self, '_wav').unit.scale)      # query unit -> table unit
        V = v_band(c, a.self)
        R = c.A(result)
        rs = result.unit.scale if isinstance(result, Quantity) else 1

        def inside(v):
            return band(W[0] <= v, v <= W[n - 1])

        from sedvc.extmodels import interp_function
        # chi linearly interpolated in the table = np.interp's named interpolant of (wav, chi)
        # (dependency contract: the line of every tabulated segment containing the argument)
        CHI = interp_function(c.st, c.attr(a.self, '_wav').value, c.attr(a.self, '_chi').value)
        return {
            'dimensionless': isinstance(result, Quantity) and not result.unit.dims or not isinstance(result, Quantity),
            'shape': compare('==', R.n, Q.n),
            'pattern': c.forall(Q.n, lambda q: implies(inside(Q[q] * f), R[q] * rs * CHI(V) == -0.4 * CHI(Q[q] * f)), 'pattern'),
            'chi_V_positive': CHI(V) > 0,
            'zero_outside': c.forall(Q.n, lambda q: implies(bnot(inside(Q[q] * f)), R[q] * rs == 0), 'zero outside'),
            'normalised_at_V': c.forall(Q.n, lambda q: implies(Q[q] * f == V, R[q] * rs == -0.4), '-0.4 at V'),
        }
