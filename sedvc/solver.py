"""Discharging obligations: goal skolemisation, generator-side (ground) instantiation
of quantified hypotheses at the index terms of the query, sum axioms, z3."""
import itertools
import time

import z3

from . import sym, units
from .sym import (Sc, Forall, flatten, to_z3, wrap, band, bnot, implies, compare, fresh_int, fresh_real,
                  guard_of, SUMS, Unsupported)

import os as _os
DUMP_DIR = _os.environ.get('SEDVC_DUMP')
_dump_counter = itertools.count()
MAX_TERMS = 28
MAX_INST = 6000


class Result(object):
    def __init__(self, name, status, seconds, detail=None, model=None, kind='post', nsub=1, backend='z3'):
        self.name = name
        self.status = status    # proved | refuted | unknown
        self.seconds = seconds
        self.detail = detail
        self.model = model
        self.kind = kind
        self.nsub = nsub
        self.backend = backend

    def to_dict(self):
        return dict(name=self.name, status=self.status, seconds=round(self.seconds, 3), detail=self.detail,
                    model=self.model, kind=self.kind, subqueries=self.nsub, backend=self.backend)


def skolemize(goal):
    """goal formula -> list of (guards, atomic z3 Bool) with fresh constants for bound vars."""
    out = []

    def go(f, guards):
        for x in flatten(f):
            if isinstance(x, Forall):
                ks = []
                g2 = list(guards)
                for r in x.ranges:
                    if isinstance(r, str) and r == 'real':
                        k = Sc(fresh_real('sk'))
                    else:
                        k = Sc(fresh_int('sk'))
                        g = guard_of(r, k.t)
                        if g is not True:
                            g2.append(g)
                    ks.append(k)
                go(x.body(*ks), g2)
            elif x is True:
                continue
            elif x is False:
                out.append((list(guards), z3.BoolVal(False)))
            else:
                out.append((list(guards), to_z3(x, 'bool')))
    go(goal, [])
    return out


def _collect_terms(exprs, ints, reals, limit=20000, pos=None):
    """Index-like Int terms (arguments of uninterpreted functions, Int constants) and
    real constants occurring in the expressions (looking through sum-atom bodies).
    pos: term sexpr -> set of (function name, argument position) the term occupies."""
    seen = set()
    stack = list(exprs)
    n = 0
    JID = z3.Int('J!').get_id()
    while stack and n < limit:
        t = stack.pop()
        tid = t.get_id()
        if tid in seen:
            continue
        seen.add(tid)
        n += 1
        if z3.is_app(t):
            d = t.decl()
            if d.kind() == z3.Z3_OP_UNINTERPRETED:
                if t.num_args() == 0:
                    if tid == JID:
                        continue
                    a = SUMS.by_const.get(tid)
                    if a is not None:
                        stack.append(a.body)
                        stack.append(a.n)
                        continue
                    if z3.is_int(t):
                        ints.setdefault(t.sexpr(), t)
                    elif z3.is_real(t):
                        reals.setdefault(t.sexpr(), t)
                else:
                    fname = d.name()
                    for ai, a in enumerate(t.children()):
                        if z3.is_int(a) and not _mentions_J(a, JID):
                            key = a.sexpr()
                            ints.setdefault(key, a)
                            if pos is not None:
                                pos.setdefault(key, set()).add((fname, ai))
            stack.extend(t.children())


def _mentions_J(t, JID):
    stack = [t]
    while stack:
        x = stack.pop()
        if x.get_id() == JID:
            return True
        stack.extend(x.children())
    return False


_PATTERN_CACHE = {}


def _forall_pattern(fa):
    """For each bound variable of fa: the set of (function, arg position) it occupies
    in the body (None = occupies none: instantiate everywhere)."""
    key = id(fa)
    if key in _PATTERN_CACHE:
        return _PATTERN_CACHE[key][1]
    probes = []
    for r in fa.ranges:
        if isinstance(r, str) and r == 'real':
            probes.append(Sc(fresh_real('probe')))
        else:
            probes.append(Sc(fresh_int('probe')))
    exprs = []

    def walk(f):
        for x in flatten(f):
            if isinstance(x, Forall):
                inner = [Sc(fresh_real('probe')) if (isinstance(r, str) and r == 'real') else Sc(fresh_int('probe')) for r in x.ranges]
                try:
                    walk(x.body(*inner))
                except Unsupported:
                    pass
            elif isinstance(x, Sc):
                exprs.append(x.t)
    try:
        walk(fa.body(*probes))
    except Unsupported:
        pass
    pos = {}
    ints, reals = {}, {}
    _collect_terms(exprs, ints, reals, pos=pos)
    pats = []
    for p in probes:
        if z3.is_real(p.t):
            pats.append(None)
            continue
        mine = set()
        pid = p.t.get_id()
        for k, t in ints.items():
            if k in pos and _mentions_J(t, pid):
                if t.get_id() == pid:
                    mine |= pos[k]
                else:
                    mine |= set(('~' + f, a) for f, a in pos[k])     # occurs inside a compound index
        pats.append(mine if mine else None)
    _PATTERN_CACHE[key] = (fa, pats)
    return pats


def _instantiate(foralls, ints, reals, done, out, budget, pos=None):
    """Instantiate each Forall at the candidate terms that occupy a matching argument
    position (E-matching on (function, position)); returns new nested Foralls."""
    nested = []
    icands = list(ints.items())
    rcands = list(reals.values())
    for fa in foralls:
        pats = _forall_pattern(fa)
        pools = []
        for r, pat in zip(fa.ranges, pats):
            if isinstance(r, str) and r == 'real':
                pools.append(rcands)
                continue
            if pat is None or pos is None:
                pools.append([t for _, t in icands])
                continue
            exact = set(x for x in pat if not x[0].startswith('~'))
            loose = set((f[1:], a) for f, a in pat if f.startswith('~'))
            sel = []
            for k, t in icands:
                pk = pos.get(k)
                if pk is None:
                    continue
                if pk & exact:
                    sel.append(t)
                elif not exact and pk & loose:
                    sel.append(t)
            pools.append(sel)
        total = 1
        for p in pools:
            total *= len(p)
        if total == 0:
            continue
        if total > budget[0]:
            cap = max(2, int(budget[0] ** (1.0 / max(1, len(pools)))))
            pools = [p[:cap] for p in pools]
        for tup in itertools.product(*pools):
            key = (id(fa), tuple(t.get_id() for t in tup))
            if key in done:
                continue
            done.add(key)
            budget[0] -= 1
            if budget[0] <= 0:
                return nested
            ks = [Sc(t) for t in tup]
            g = True
            for r, k in zip(fa.ranges, ks):
                g = band(g, guard_of(r, k.t))
            if g is False:
                continue
            try:
                body = fa.body(*ks)
            except Unsupported:
                continue
            for x in flatten(body):
                if isinstance(x, Forall):
                    b2 = x.body
                    nested.append(Forall(x.ranges, (lambda b2, g: lambda *a: _guarded(g, b2(*a)))(b2, g), x.name))
                elif x is True:
                    continue
                else:
                    out.append(to_z3(implies(g, x), 'bool'))
    return nested


def _guarded(g, f):
    res = []
    for x in flatten(f):
        if isinstance(x, Forall):
            b = x.body
            res.append(Forall(x.ranges, (lambda b: lambda *a: _guarded(g, b(*a)))(b), x.name))
        else:
            res.append(implies(g, x))
    return res


def sum_axioms(terms, pairwise, known=None, have=None):
    """Sound facts about the sum atoms occurring in `terms` (rules R1, R3 of DESIGN.md):
      sign:  S < 0  =>  body(j*) < 0 for a witness 0 <= j* < n   (and S > 0 likewise)
      pair:  S1 < S2 => body1(j*) < body2(j*) for a witness       (same range only)
    """
    atoms = SUMS.atoms_in(terms)
    if known is not None and len(atoms) == len(known):
        return have, known
    ax = []
    for a in atoms:
        j = fresh_int('wit')
        inr = z3.And(j >= 0, j < a.n)
        b = a.at(j)
        zero = z3.RealVal(0) if z3.is_real(b) else z3.IntVal(0)
        ax.append(z3.Implies(a.const < zero, z3.And(inr, b < zero)))
        j2 = fresh_int('wit')
        ax.append(z3.Implies(a.const > zero, z3.And(j2 >= 0, j2 < a.n, a.at(j2) > zero)))
        ax.append(z3.Implies(a.n <= 0, a.const == zero))
    if pairwise:
        groups = {}
        for a in atoms:
            groups.setdefault(a.n.sexpr(), []).append(a)
        for g in groups.values():
            if len(g) > 12:
                g = g[:12]
            for a1, a2 in itertools.permutations(g, 2):
                if z3.is_real(a1.body) != z3.is_real(a2.body):
                    continue
                j = fresh_int('wit')
                ax.append(z3.Implies(a1.const < a2.const, z3.And(j >= 0, j < a1.n, a1.at(j) < a2.at(j))))
    return ax, atoms


def prove(ob, timeout_ms=20000, global_axioms=(), want_model=False):
    """Discharge one Obligation.  Returns Result."""
    t0 = time.time()
    subgoals = skolemize(ob.goal)
    if not subgoals:
        return Result(ob.name, 'proved', time.time() - t0, kind=ob.kind, nsub=0, detail='trivial')
    ground = []
    foralls = []
    for h in list(ob.hyps) + list(ob.pc):
        for x in flatten(h):
            if isinstance(x, Forall):
                foralls.append(x)
            elif x is True:
                continue
            elif x is False:
                return Result(ob.name, 'proved', time.time() - t0, kind=ob.kind, detail='infeasible path')
            else:
                ground.append(to_z3(x, 'bool'))
    ground.extend(global_axioms)
    worst = 'proved'
    detail = None
    model_txt = None
    nsub = 0
    for guards, goal in subgoals:
        nsub += 1
        if z3.is_true(goal):
            continue
        g_terms = [to_z3(g, 'bool') for g in guards if g is not True]
        status, d, m = _prove_one(ground, foralls, g_terms, goal, timeout_ms, want_model)
        if status != 'proved':
            worst = status if worst != 'refuted' else worst
            if status == 'refuted':
                worst = 'refuted'
            detail, model_txt = d, m
            if status == 'refuted':
                break
    return Result(ob.name, worst, time.time() - t0, detail=detail, model=model_txt, kind=ob.kind, nsub=nsub)


def _prove_one(ground, foralls, guards, goal, timeout_ms, want_model):
    for attempt, pairwise in enumerate((False, True)):
        base = list(ground) + list(guards)
        ints, reals, pos = {}, {}, {}
        _collect_terms([goal] + list(guards), ints, reals, pos=pos)
        _collect_terms(ground, ints, reals, pos=pos)
        inst = []
        done = set()
        budget = [MAX_INST]
        pending = list(foralls)
        # sum axioms on what we have so far (their witnesses become index terms)
        ax, atoms = sum_axioms(base + [goal], pairwise)
        _collect_terms(ax, ints, reals, pos=pos)
        rounds = 0
        all_foralls = list(pending)
        while rounds < 3:
            rounds += 1
            before = len(inst)
            nested = _instantiate(all_foralls, ints, reals, done, inst, budget, pos=pos)
            all_foralls.extend(nested)
            n_before = len(ints)
            _collect_terms(inst[before:], ints, reals, pos=pos)
            # atoms may appear in instantiated hypotheses
            ax2, atoms2 = sum_axioms(base + [goal] + inst, pairwise, known=atoms, have=ax)
            if len(atoms2) > len(atoms):
                ax, atoms = ax2, atoms2
                _collect_terms(ax, ints, reals, pos=pos)
            if len(ints) == n_before and not nested and len(inst) == before:
                break
        s = z3.Solver()
        s.set('timeout', timeout_ms)
        for f in base:
            s.add(f)
        for f in inst:
            s.add(f)
        for f in ax:
            s.add(f)
        s.add(z3.Not(goal))
        if DUMP_DIR:
            import os
            os.makedirs(DUMP_DIR, exist_ok=True)
            with open(os.path.join(DUMP_DIR, 'q%04d_%d.smt2' % (next(_dump_counter), attempt)), 'w') as fdump:
                fdump.write(s.to_smt2())
        r = s.check()
        if r == z3.unsat:
            return 'proved', None, None
        if r == z3.sat:
            if attempt == 0 and SUMS.atoms_in(base + [goal] + inst):
                continue       # retry with pairwise extensionality
            m = None
            if want_model:
                try:
                    m = str(s.model())[:4000]
                except Exception:
                    m = None
            return 'refuted', 'sat: the negated obligation is satisfiable', m
        reason = s.reason_unknown()
        if attempt == 0:
            continue
        return 'unknown', 'unknown: %s' % reason, None
    return 'unknown', 'unknown', None


def _trim(ints, goal):
    if len(ints) <= MAX_TERMS:
        return
    gi, gr = {}, {}
    _collect_terms([goal], gi, gr)
    keep = dict(gi)
    for k, v in ints.items():
        if len(keep) >= MAX_TERMS:
            break
        keep.setdefault(k, v)
    ints.clear()
    ints.update(keep)


def global_axioms():
    return list(sym.MATH_AXIOMS) + list(units.UNIT_AXIOMS)


def check_sat(hyps, timeout_ms=10000):
    """Vacuity guard: the assumptions themselves must be satisfiable."""
    ground, foralls = [], []
    for h in hyps:
        for x in flatten(h):
            if isinstance(x, Forall):
                foralls.append(x)
            elif x is True:
                continue
            elif x is False:
                return 'unsat'
            else:
                ground.append(to_z3(x, 'bool'))
    ints, reals = {}, {}
    _collect_terms(ground, ints, reals)
    # also instantiate at two fresh indices so that quantified facts meet each other
    for nm in ('v0', 'v1'):
        t = z3.Int('vac!' + nm)
        ints[t.sexpr()] = t
    inst = []
    _instantiate(foralls, ints, reals, set(), inst, [2000], pos=None)
    s = z3.Solver()
    s.set('timeout', timeout_ms)
    for f in ground + inst + global_axioms():
        s.add(f)
    r = s.check()
    return str(r)
