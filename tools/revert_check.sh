#!/bin/bash
# For every "fixed:" entry of known_findings.txt: revert that fix in a scratch worktree of /repo
# and run the check of the property it is recorded under: the violation must be reported again.
# (optional argument: only the entries matching this pattern; evidence of these runs goes to a scratch directory)
cd /verif
W=$(mktemp -d /tmp/revchk.XXXXXX)
grep '^fixed:' known_findings.txt | grep -e "${1:-.}" | while read -r _ prop commit rest; do
  prop=${prop#property=}
  git -C /repo worktree add -q --detach "$W/wt" HEAD || exit 2
  if git -C "$W/wt" revert -n "$commit" >/dev/null 2>&1; then
    out=$(SEDVC_REPO="$W/wt" VERIF_OUT_DIR="$W/out" ./check $prop quick 2>&1); rc=$?
    v=$(echo "$out" | grep -c '^VIOLATION')
    first=$(echo "$out" | grep -A1 '^VIOLATION' | head -2 | tr '\n' ' ' | cut -c1-230)
    echo "$prop $commit rc=$rc violations=$v :: $first"
  else
    echo "$prop $commit: revert does not apply cleanly"
  fi
  git -C /repo worktree remove --force "$W/wt"
done
rm -rf "$W"
