"""State completeness (C10, C14, C20): what __getstate__ / to_dict hand to pickle is every field of the object,
and __setstate__ / from_dict put every field back.  (That pickle itself preserves a dictionary of arrays, numbers,
strings and quantities is the assumed dependency contract D-PICKLE; natively exercised by the bounded runs.)"""
from sedvc import units
from sedvc.contractlib import Contract, contract
from sedvc.sym import Sc, compare, band, bnot, implies
from sedvc.values import Quantity, Opaque, ObjRef, DictRef
from .source import make_source, SOURCE
from .fit_info import make_fitinfo, FITINFO
from .extinction import make_extinction, CHI_CGS, EXT

U = units.BASE


def _same_value(c0, v0, c1, v1):
    """formula / bool: value v1 (in state c1) is value v0 (in state c0): same object, or equal content and unit"""
    if v0 is v1:
        return True
    if v0 is None or v1 is None:
        return v0 is v1
    if isinstance(v0, Quantity) or isinstance(v1, Quantity):
        # the same physical quantity (in whatever unit it is expressed)
        if not (isinstance(v0, Quantity) and isinstance(v1, Quantity)) or not v0.unit.same_dims(v1.unit):
            return False
        try:
            A0, A1 = c0.A(v0), c1.A(v1)
        except Exception:
            return False
        if len(A0.shape) != len(A1.shape):
            return False
        k0, k1 = v0.unit.scale, v1.unit.scale
        if not A0.shape:
            return compare('==', v1.value * k1, v0.value * k0)
        return [compare('==', x, y) for x, y in zip(A0.shape, A1.shape)] + [c1.forall(list(A0.shape), lambda *idx: A1[idx] * k1 == A0[idx] * k0, 'same quantity')]
    if isinstance(v0, ObjRef) and isinstance(v1, ObjRef):
        return v0.addr == v1.addr
    if isinstance(v0, (Sc, int)) and isinstance(v1, (Sc, int)):
        return compare('==', v0, v1)
    if isinstance(v0, Opaque) or isinstance(v1, Opaque):
        return v0 is v1
    try:
        A0, A1 = c0.A(v0), c1.A(v1)
    except Exception:
        return False
    if len(A0.shape) != len(A1.shape):
        return False
    return [compare('==', x, y) for x, y in zip(A0.shape, A1.shape)] + [c1.forall(list(A0.shape), lambda *idx: A1[idx] == A0[idx], 'same content')]


def _make(qual, maker, fields, getter, setter, props, invariant=None, variants=('state',), cls_arg=None):
    keys = tuple(fields)

    class Get(Contract):
        __doc__ = "%s.%s(): returns the state dictionary; the object is not modified." % (qual.split('.')[-1], getter)
        name = qual + '.' + getter
        properties = props
        variants = ('object',)
        modifies = ()

        def setup(self, c, variant):
            return dict(self=maker(c))

        def ensures(self, c, a, result, old):
            if getter == 'to_table':
                from sedvc.extmodels import is_table
                return {'returns_a_table': is_table(c.st, result)}
            # the representation of the state is the class's own business (the round trip is verified by the
            # contract of %s); here: a dictionary comes back and the object is left alone (frame)
            return {'returns_a_dictionary': isinstance(result, DictRef)}

    class Set(Contract):
        __doc__ = "%s.%s(state) applied to the state that the class's own %s produced for an object X: every field (%s) of the new object equals that field of X (value and unit)." % (qual.split('.')[-1], setter, getter, ', '.join(keys))
        name = qual + '.' + setter
        properties = props
        modifies = ('self',)

        def setup(self, c, variant):
            donor = maker(c) if variants == ('state',) else maker(c, variant)
            self.donor = donor
            # the state handed over is what the REAL %s of the class produces for a donor object: the pair is
            # verified as a round trip (whatever representation the state uses), not field layout by field layout
            from sedvc.interp import RepoFunc, Frame
            found = c.interp.repo.find_function(qual + '.' + getter)
            fr = Frame(found[0], qual + '.' + getter, found[1])
            d = c.interp.call(RepoFunc(qual + '.' + getter, bound_self=donor), [], {}, c.st, fr)
            if cls_arg or setter == 'from_dict':
                from sedvc.interp import ClassVal
                return {'cls': ClassVal(c.interp.repo.find_class(qual)), (cls_arg or 'source_dict'): d}
            return dict(self=c.obj(qual), d=d)

        def requires(self, c, a):
            # the state is that of a well-formed object of the class
            return {'state_of_a_well_formed_object': invariant(c, self.donor)} if invariant is not None else {}

        def ensures(self, c, a, result, old):
            obj = result if (cls_arg or setter == 'from_dict') else a.self
            if not isinstance(obj, ObjRef):
                return {'yields_an_object': False}
            out = {}
            for k in keys:
                has = c.st.has_attr(obj, fields[k])
                out['field(%s)' % k] = _same_value(old, old.attr(self.donor, fields[k]), c, c.attr(obj, fields[k])) if has else False
            return out

    Set.variants = tuple(variants)
    Get.__name__ = qual.split('.')[-1] + getter.strip('_').title()
    Set.__name__ = qual.split('.')[-1] + setter.strip('_').title()
    contract(Get)
    contract(Set)
    return Get, Set


def _source(c):
    return make_source(c, prefix='st_src')


def _fitinfo(c):
    M, N = c.int('M'), c.int('N')
    c.assume([M >= 0, N >= 0])
    return make_fitinfo(c, M, N, prefix='st_fi')


def _extinction(c, variant='micron/cgs'):
    from .extinction import CHI_SI
    wu, cu = variant.split('/')
    return make_extinction(c, U[wu], CHI_CGS if cu == 'cgs' else CHI_SI, prefix='st_ext')


SRC_FIELDS = dict(name='_name', x='_x', y='_y', valid='_valid', flux='_flux', error='_error')
from .source import well_formed
_make(SOURCE, _source, SRC_FIELDS, '__getstate__', '__setstate__', ('C10', 'C20'), invariant=well_formed)
_make(SOURCE, _source, SRC_FIELDS, 'to_dict', 'from_dict', ('C20',), invariant=well_formed)
# FitInfo: its round trip is verified where the code performs it -- FitInfoFile.__iter__ (in-memory results are yielded as
# __setstate__(__getstate__(x)) copies: contracts/fitinfo_file.py, clause items_equal_the_results) -- with both methods inlined.
_make(EXT, _extinction, dict(wav='_wav', chi='_chi'), '__getstate__', '__setstate__', ('C14', 'C10', 'C17'), variants=('micron/cgs', 'AA/si'))
_make(EXT, _extinction, dict(wav='_wav', chi='_chi'), 'to_table', 'from_table', ('C14',), variants=('micron/cgs', 'AA/si'), cls_arg='table')
