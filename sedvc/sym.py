"""Symbolic values for sedvc: scalars over z3, sum normalisation, formulas with
generator-side quantifier handling.

Semantics assumed (see DESIGN.md 5.1): Python/numpy floats are mathematical reals
(A-REAL), Python/numpy ints are mathematical integers (A-INT).
"""
import fractions
import itertools
import math

import z3

# ---------------------------------------------------------------------------
# fresh names
# ---------------------------------------------------------------------------

_counter = itertools.count()


def fresh_name(prefix):
    return "%s!%d" % (prefix, next(_counter))


def counter_value():
    global _counter
    v = next(_counter)
    _counter = itertools.count(v)
    return v


def set_counter(v):
    global _counter
    _counter = itertools.count(v)


def fresh_int(prefix='k'):
    return z3.Int(fresh_name(prefix))


def fresh_real(prefix='r'):
    return z3.Real(fresh_name(prefix))


def fresh_bool(prefix='b'):
    return z3.Bool(fresh_name(prefix))


class Unsupported(Exception):
    """The executor met a construct outside its subset: obligations of the
    function become *undecided*, never a violation."""


# ---------------------------------------------------------------------------
# scalars
# ---------------------------------------------------------------------------

INF = z3.Real('inf!')      # an unconstrained real standing for +inf (never reasoned about)
NAN = z3.Real('nan!')


def realval(x):
    if isinstance(x, bool):
        return z3.RealVal(1 if x else 0)
    if isinstance(x, int):
        return z3.RealVal(x)
    if isinstance(x, fractions.Fraction):
        return z3.RealVal("%d/%d" % (x.numerator, x.denominator))
    if isinstance(x, float):
        if math.isinf(x):
            return INF if x > 0 else -INF
        if math.isnan(x):
            return NAN
        f = fractions.Fraction(repr(x))
        return z3.RealVal("%d/%d" % (f.numerator, f.denominator))
    raise TypeError(x)


def is_sym(x):
    return isinstance(x, Sc)


def is_concrete_num(x):
    return isinstance(x, (int, float, bool, fractions.Fraction)) and not isinstance(x, Sc)


class Sc(object):
    """A symbolic scalar: wraps a z3 Int, Real or Bool term."""
    __slots__ = ('t',)

    def __init__(self, t):
        assert isinstance(t, z3.ExprRef), t
        self.t = t

    # --- sorts
    @property
    def is_bool(self):
        return z3.is_bool(self.t)

    @property
    def is_int(self):
        return z3.is_int(self.t)

    @property
    def is_real(self):
        return z3.is_real(self.t)

    def __repr__(self):
        return "Sc(%s)" % self.t

    def __hash__(self):
        return hash(self.t)

    # --- arithmetic
    def _bin(self, other, op, rev=False):
        a, b = (other, self) if rev else (self, other)
        return arith(op, a, b)

    def __add__(self, o): return self._bin(o, '+')
    def __radd__(self, o): return self._bin(o, '+', True)
    def __sub__(self, o): return self._bin(o, '-')
    def __rsub__(self, o): return self._bin(o, '-', True)
    def __mul__(self, o): return self._bin(o, '*')
    def __rmul__(self, o): return self._bin(o, '*', True)
    def __truediv__(self, o): return self._bin(o, '/')
    def __rtruediv__(self, o): return self._bin(o, '/', True)
    def __floordiv__(self, o): return self._bin(o, '//')
    def __rfloordiv__(self, o): return self._bin(o, '//', True)
    def __mod__(self, o): return self._bin(o, '%')
    def __rmod__(self, o): return self._bin(o, '%', True)
    def __pow__(self, o): return self._bin(o, '**')
    def __rpow__(self, o): return self._bin(o, '**', True)
    def __neg__(self): return arith('-', 0, self)
    def __pos__(self): return self
    def __abs__(self): return sabs(self)

    # --- comparisons
    def __lt__(self, o): return compare('<', self, o)
    def __le__(self, o): return compare('<=', self, o)
    def __gt__(self, o): return compare('>', self, o)
    def __ge__(self, o): return compare('>=', self, o)
    def __eq__(self, o): return compare('==', self, o)
    def __ne__(self, o): return compare('!=', self, o)

    # --- boolean algebra (numpy style & | ~ on booleans)
    def __and__(self, o): return band(self, o)
    def __rand__(self, o): return band(o, self)
    def __or__(self, o): return bor(self, o)
    def __ror__(self, o): return bor(o, self)
    def __invert__(self): return bnot(self)

    def __bool__(self):
        raise Unsupported("truth value of a symbolic scalar used outside a branch: %s" % self.t)


def to_z3(x, want=None):
    """Python number / Sc -> z3 term.  want in (None,'real','int','bool')."""
    if isinstance(x, Sc):
        t = x.t
    elif isinstance(x, z3.ExprRef):
        t = x
    elif isinstance(x, bool):
        t = z3.BoolVal(x) if want in (None, 'bool') else (z3.IntVal(int(x)) if want == 'int' else z3.RealVal(int(x)))
    elif isinstance(x, int):
        t = z3.IntVal(x) if want in (None, 'int') else z3.RealVal(x)
    elif isinstance(x, (float, fractions.Fraction)):
        t = realval(x)
    else:
        raise Unsupported("cannot turn %r into a term" % (x,))
    if want == 'real':
        if z3.is_int(t):
            t = z3.ToReal(t)
        elif z3.is_bool(t):
            t = z3.If(t, z3.RealVal(1), z3.RealVal(0))
    elif want == 'int':
        if z3.is_bool(t):
            t = z3.If(t, z3.IntVal(1), z3.IntVal(0))
        elif z3.is_real(t):
            raise Unsupported("real used where int expected: %s" % t)
    elif want == 'bool':
        if not z3.is_bool(t):
            t = (t != 0)
    return t


def wrap(t):
    """z3 term -> scalar value (concrete python value if the term is a literal)."""
    if isinstance(t, Sc):
        t = t.t
    if not isinstance(t, z3.ExprRef):
        return t
    t = z3.simplify(t) if _cheap(t) else t
    if z3.is_true(t):
        return True
    if z3.is_false(t):
        return False
    if z3.is_int_value(t):
        return t.as_long()
    return Sc(t)


def _cheap(t):
    # only simplify small terms eagerly (keeps literal folding, avoids blow-up)
    return t.num_args() <= 3


def _num_kind(x):
    if isinstance(x, Sc):
        if x.is_bool:
            return 'bool'
        return 'int' if x.is_int else 'real'
    if isinstance(x, bool):
        return 'bool'
    if isinstance(x, int):
        return 'int'
    if isinstance(x, (float, fractions.Fraction)):
        return 'real'
    raise Unsupported("not a number: %r" % (x,))


# uninterpreted math
_log10 = z3.Function('log10', z3.RealSort(), z3.RealSort())
_ln = z3.Function('ln', z3.RealSort(), z3.RealSort())
_pow10 = z3.Function('pow10', z3.RealSort(), z3.RealSort())
_sqrt = z3.Function('sqrt', z3.RealSort(), z3.RealSort())
_powr = z3.Function('powr', z3.RealSort(), z3.RealSort(), z3.RealSort())
LN10 = z3.Real('ln10')

MATH_FUNCS = {'log10': _log10, 'ln': _ln, 'pow10': _pow10, 'sqrt': _sqrt, 'powr': _powr}


def arith(op, a, b):
    if not isinstance(a, Sc) and not isinstance(b, Sc):
        return _concrete_arith(op, a, b)
    ka, kb = _num_kind(a), _num_kind(b)
    if op == '/':
        za, zb = to_z3(a, 'real'), to_z3(b, 'real')
        return wrap(za / zb)
    if op in ('//', '%'):
        if ka == 'real' or kb == 'real':
            raise Unsupported("floor division / modulo on reals")
        za, zb = to_z3(a, 'int'), to_z3(b, 'int')
        # Python floor semantics coincide with z3 div/mod for positive divisors
        if not (isinstance(b, int) and b > 0):
            raise Unsupported("// or % by a non-constant or non-positive divisor")
        return wrap(za / zb) if op == '//' else wrap(za % zb)
    if op == '**':
        if isinstance(b, (int, float, fractions.Fraction)) and float(b) == int(b) and 0 <= int(b) <= 4:
            n = int(b)
            if n == 0:
                return 1
            za = to_z3(a, 'int' if (ka != 'real' and isinstance(b, int)) else 'real')
            r = za
            for _ in range(n - 1):
                r = r * za
            return wrap(r)
        if is_concrete_num(a) and float(a) == 10.0:
            return wrap(_pow10(to_z3(b, 'real')))
        return wrap(_powr(to_z3(a, 'real'), to_z3(b, 'real')))
    want = 'real' if (ka == 'real' or kb == 'real') else 'int'
    za, zb = to_z3(a, want), to_z3(b, want)
    if op == '+':
        return wrap(za + zb)
    if op == '-':
        return wrap(za - zb)
    if op == '*':
        return wrap(za * zb)
    raise Unsupported("operator %s" % op)


def _concrete_arith(op, a, b):
    if op == '/' and isinstance(a, (int, fractions.Fraction)) and isinstance(b, (int, fractions.Fraction)) and not isinstance(a, bool) and b != 0:
        return fractions.Fraction(a) / fractions.Fraction(b)     # exact (A-REAL)
    if op == '**' and isinstance(b, fractions.Fraction) and b.denominator == 1:
        b = int(b)
    if op == '+':
        return a + b
    if op == '-':
        return a - b
    if op == '*':
        return a * b
    if op == '/':
        return a / b
    if op == '//':
        return a // b
    if op == '%':
        return a % b
    if op == '**':
        return a ** b
    raise Unsupported(op)


def compare(op, a, b):
    if not isinstance(a, Sc) and not isinstance(b, Sc):
        return {'<': lambda: a < b, '<=': lambda: a <= b, '>': lambda: a > b, '>=': lambda: a >= b,
                '==': lambda: a == b, '!=': lambda: a != b}[op]()
    ka, kb = _num_kind(a), _num_kind(b)
    if ka == 'bool' and kb == 'bool':
        za, zb = to_z3(a, 'bool'), to_z3(b, 'bool')
    else:
        want = 'real' if (ka == 'real' or kb == 'real') else 'int'
        za, zb = to_z3(a, want), to_z3(b, want)
    if op == '<':
        return wrap(za < zb)
    if op == '<=':
        return wrap(za <= zb)
    if op == '>':
        return wrap(za > zb)
    if op == '>=':
        return wrap(za >= zb)
    if op == '==':
        return wrap(za == zb)
    if op == '!=':
        return wrap(za != zb)
    raise Unsupported(op)


def band(a, b):
    if isinstance(a, bool) and isinstance(b, bool):
        return a and b
    if a is True:
        return b
    if b is True:
        return a
    if a is False or b is False:
        return False
    return wrap(z3.And(to_z3(a, 'bool'), to_z3(b, 'bool')))


def bor(a, b):
    if isinstance(a, bool) and isinstance(b, bool):
        return a or b
    if a is False:
        return b
    if b is False:
        return a
    if a is True or b is True:
        return True
    return wrap(z3.Or(to_z3(a, 'bool'), to_z3(b, 'bool')))


def bnot(a):
    if isinstance(a, bool):
        return not a
    return wrap(z3.Not(to_z3(a, 'bool')))


def implies(a, b):
    return bor(bnot(a), b)


def ite(c, a, b):
    if c is True:
        return a
    if c is False:
        return b
    if not isinstance(a, Sc) and not isinstance(b, Sc) and type(a) == type(b) and a == b:
        return a
    if isinstance(a, str) or isinstance(b, str) or a is None or b is None:
        if a is b or a == b:
            return a
        raise Unsupported("ite over non-numeric values")
    ka, kb = _num_kind(a), _num_kind(b)
    if ka == 'bool' and kb == 'bool':
        return wrap(z3.If(to_z3(c, 'bool'), to_z3(a, 'bool'), to_z3(b, 'bool')))
    want = 'real' if (ka == 'real' or kb == 'real') else 'int'
    return wrap(z3.If(to_z3(c, 'bool'), to_z3(a, want), to_z3(b, want)))


def sabs(a):
    if not isinstance(a, Sc):
        return abs(a)
    return ite(a >= 0, a, -a)


def smin(a, b):
    if not isinstance(a, Sc) and not isinstance(b, Sc):
        return min(a, b)
    return ite(a <= b, a, b)     # Python: min(a, b) returns a unless b < a


def smax(a, b):
    if not isinstance(a, Sc) and not isinstance(b, Sc):
        return max(a, b)
    return ite(a >= b, a, b)


def mathfn(name, a):
    if not isinstance(a, Sc):
        a = float(a)
        if name == 'log10':
            return math.log10(a) if a > 0 else (float('-inf') if a == 0 else float('nan'))
        if name == 'ln':
            return math.log(a) if a > 0 else (float('-inf') if a == 0 else float('nan'))
        if name == 'sqrt':
            return math.sqrt(a) if a >= 0 else float('nan')
        if name == 'pow10':
            return 10. ** a
    if name == 'ln' and not isinstance(a, Sc) and a == 10.0:
        return Sc(LN10)
    return wrap(MATH_FUNCS[name](to_z3(a, 'real')))


def ln_const(a):
    """np.log(10.) -> the symbolic constant ln10 (axiom: ln10 > 0)."""
    if not isinstance(a, Sc) and float(a) == 10.0:
        return Sc(LN10)
    return mathfn('ln', a)


def to_int(a):
    """int(x) / np.int32(x) of a real: truncation toward zero (== floor for x >= 0)."""
    if not isinstance(a, Sc):
        return int(a)
    if a.is_int:
        return a
    t = a.t
    return wrap(z3.If(t >= 0, z3.ToInt(t), -z3.ToInt(-t)))


def floor(a):
    if not isinstance(a, Sc):
        return math.floor(a)
    if a.is_int:
        return a
    return wrap(z3.ToReal(z3.ToInt(a.t)))


def ceil(a):
    if not isinstance(a, Sc):
        return math.ceil(a)
    if a.is_int:
        return a
    return wrap(z3.ToReal(-z3.ToInt(-a.t)))


MATH_AXIOMS = [LN10 > 0]


# ---------------------------------------------------------------------------
# Sum normalisation (rules R1/R2 of DESIGN.md): a finite sum over a symbolic
# range becomes a linear combination of canonical "moment atoms".
# ---------------------------------------------------------------------------

class SumAtom(object):
    """One canonical sum  S = sum_{J=0}^{n-1} body(J)  named by a z3 constant."""

    def __init__(self, const, n, bound, body):
        self.const = const      # z3 Real/Int constant naming the sum
        self.n = n              # z3 Int term: range length
        self.bound = bound      # z3 Int constant: the canonical bound variable
        self.body = body        # z3 term mentioning self.bound

    def at(self, j):
        return z3.substitute(self.body, (self.bound, j))


class SumRegistry(object):
    def __init__(self):
        self.atoms = {}         # key -> SumAtom
        self.by_const = {}      # const id -> SumAtom

    def atom(self, n, jvar, body):
        """Return the z3 constant naming sum_{jvar<n} body."""
        J = z3.Int('J!')
        cbody = z3.simplify(z3.substitute(body, (jvar, J)))
        key = (n.sexpr() if isinstance(n, z3.ExprRef) else str(n), cbody.sexpr())
        a = self.atoms.get(key)
        if a is None:
            sort_real = z3.is_real(cbody)
            import hashlib
            name = "S[%s]" % hashlib.md5(('%s|%s' % key).encode()).hexdigest()[:10]     # content-addressed: independent of history
            const = z3.Real(name) if sort_real else z3.Int(name)
            nterm = n if isinstance(n, z3.ExprRef) else z3.IntVal(n)
            a = SumAtom(const, nterm, J, cbody)
            self.atoms[key] = a
            self.by_const[const.get_id()] = a
        return a.const

    def atoms_in(self, terms):
        """All SumAtoms whose constant occurs in the given z3 terms (transitively
        through atom bodies)."""
        seen, out = set(), []
        stack = list(terms)
        visited = set()
        while stack:
            t = stack.pop()
            if t.get_id() in visited:
                continue
            visited.add(t.get_id())
            if z3.is_const(t) and t.decl().kind() == z3.Z3_OP_UNINTERPRETED:
                a = self.by_const.get(t.get_id())
                if a is not None and a.const.get_id() not in seen:
                    seen.add(a.const.get_id())
                    out.append(a)
                    stack.append(a.body)
                    stack.append(a.n)
            else:
                stack.extend(t.children())
        return out


SUMS = SumRegistry()


class ExtremumAtom(object):
    def __init__(self, const, n, bound, body, which):
        self.const, self.n, self.bound, self.body, self.which = const, n, bound, body, which

    def at(self, j):
        return z3.substitute(self.body, (self.bound, j))


class ExtremumRegistry(object):
    """min / max of a 1-d family body(J), 0 <= J < n, named canonically (like sum atoms):
    the same array gives the same constant wherever it is reduced."""

    def __init__(self):
        self.atoms = {}
        self.by_const = {}

    def atom(self, n, jvar, body, which):
        J = z3.Int('J!')
        cbody = z3.simplify(z3.substitute(body, (jvar, J)))
        key = (which, n.sexpr(), cbody.sexpr())
        a = self.atoms.get(key)
        if a is None:
            import hashlib
            name = "%s[%s]" % (which.upper(), hashlib.md5(('%s|%s|%s' % key).encode()).hexdigest()[:10])
            if which == 'any':
                const = z3.Bool(name)
            else:
                const = z3.Real(name) if z3.is_real(cbody) else z3.Int(name)
            a = ExtremumAtom(const, n, J, cbody, which)
            self.atoms[key] = a
            self.by_const[const.get_id()] = a
        return a.const

    def atoms_in(self, terms):
        seen, out = set(), []
        stack, visited = list(terms), set()
        while stack:
            t = stack.pop()
            if t.get_id() in visited:
                continue
            visited.add(t.get_id())
            a = self.by_const.get(t.get_id())
            if a is not None:
                if a.const.get_id() not in seen:
                    seen.add(a.const.get_id())
                    out.append(a)
                    stack.append(a.body)
                continue
            sa = SUMS.by_const.get(t.get_id())
            if sa is not None:
                stack.append(sa.body)
                continue
            stack.extend(t.children())
        return out


EXTREMA = ExtremumRegistry()

RESET_HOOKS = []


def reset_globals():
    """Make every function verification independent of what the process verified before
    (names of sum atoms / fresh constants influence solver heuristics)."""
    global _counter
    _counter = itertools.count()
    SUMS.atoms.clear()
    SUMS.by_const.clear()
    EXTREMA.atoms.clear()
    EXTREMA.by_const.clear()
    for h in RESET_HOOKS:
        h()


def mentions(t, v):
    vid = v.get_id()
    stack, visited = [t], set()
    while stack:
        x = stack.pop()
        xid = x.get_id()
        if xid == vid:
            return True
        if xid in visited:
            continue
        visited.add(xid)
        stack.extend(x.children())
    return False


def _poly(t, j):
    """Expand z3 arithmetic term t as {monomial(tuple of dependent atom terms sorted): coefficient term}
    where a monomial collects the factors that mention j and the coefficient is a
    z3 term free of j.  Returns list of (coef_term, [dependent factor terms])."""
    if not mentions(t, j):
        return [(t, [])]
    k = t.decl().kind()
    ch = t.children()
    if k == z3.Z3_OP_ADD:
        out = []
        for c in ch:
            out.extend(_poly(c, j))
        return out
    if k == z3.Z3_OP_SUB:
        out = list(_poly(ch[0], j))
        for c in ch[1:]:
            out.extend([(-cf, fs) for cf, fs in _poly(c, j)])
        return out
    if k == z3.Z3_OP_UMINUS:
        return [(-cf, fs) for cf, fs in _poly(ch[0], j)]
    if k == z3.Z3_OP_MUL:
        acc = [(None, [])]
        for c in ch:
            pc = _poly(c, j)
            if len(acc) * len(pc) > 400:
                raise Unsupported("sum body too large to expand")
            acc = [(_mulc(c1, c2), f1 + f2) for (c1, f1) in acc for (c2, f2) in pc]
        return [(cf if cf is not None else _one(t), fs) for cf, fs in acc]
    if k == z3.Z3_OP_TO_REAL:
        inner = _poly(ch[0], j)
        return [(z3.ToReal(cf) if z3.is_int(cf) else cf, [z3.ToReal(f) if z3.is_int(f) else f for f in fs]) for cf, fs in inner]
    if k == z3.Z3_OP_DIV and not mentions(ch[1], j):
        return [(cf / ch[1], fs) for cf, fs in _poly(ch[0], j)]
    if k == z3.Z3_OP_POWER and z3.is_int_value(ch[1]) and 0 < ch[1].as_long() <= 4:
        return _poly(_prod([ch[0]] * ch[1].as_long()), j)
    # anything else (uninterpreted application, ite, division by a dependent term...) is an atom
    return [(_one(t), [t])]


def _one(t):
    return z3.RealVal(1) if z3.is_real(t) else z3.IntVal(1)


def _mulc(a, b):
    if a is None:
        return b
    if b is None:
        return a
    if z3.is_real(a) and z3.is_int(b):
        b = z3.ToReal(b)
    if z3.is_int(a) and z3.is_real(b):
        a = z3.ToReal(a)
    return a * b


def _prod(fs):
    r = fs[0]
    for f in fs[1:]:
        if z3.is_real(r) and z3.is_int(f):
            f = z3.ToReal(f)
        elif z3.is_int(r) and z3.is_real(f):
            r = z3.ToReal(r)
        r = r * f
    return r


def make_sum(n, jvar, body, opaque=False):
    """sum_{jvar=0}^{n-1} body  as a z3 term over moment atoms.

    body: z3 arithmetic term (Real or Int) possibly mentioning the z3 Int constant jvar.
    opaque=True keeps the whole body as one atom (used for spec-side sums that are
    compared pointwise with a code-side sum)."""
    nz = n if isinstance(n, z3.ExprRef) else z3.IntVal(n)
    if z3.is_bool(body):
        body = z3.If(body, z3.IntVal(1), z3.IntVal(0))
    if not mentions(body, jvar):
        nn = z3.ToReal(nz) if z3.is_real(body) else nz
        return nn * body
    if opaque:
        return SUMS.atom(nz, jvar, body)
    body = z3.simplify(body, som=False)
    terms = _poly(body, jvar)
    groups = {}
    for cf, fs in terms:
        if not fs:
            key = ()
            mono = None
        else:
            fs = sorted(fs, key=lambda f: f.sexpr())
            mono = _prod(fs)
            key = mono.sexpr()
        if key in groups:
            groups[key] = (groups[key][0] + cf if _same_sort(groups[key][0], cf) else _tor(groups[key][0]) + _tor(cf), mono)
        else:
            groups[key] = (cf, mono)
    total = None
    for key, (cf, mono) in groups.items():
        if mono is None:
            term = _mulc(z3.ToReal(nz) if z3.is_real(cf) else nz, cf)
        else:
            s = SUMS.atom(nz, jvar, mono)
            term = _mulc(cf, s)
        if total is None:
            total = term
        else:
            if z3.is_real(total) != z3.is_real(term):
                total, term = _tor(total), _tor(term)
            total = total + term
    return total


def _same_sort(a, b):
    return a.sort() == b.sort()


def _tor(a):
    return z3.ToReal(a) if z3.is_int(a) else a


# ---------------------------------------------------------------------------
# Formulas with generator-side quantifiers
# ---------------------------------------------------------------------------

class Stale(object):
    """Goal of an obligation that the contract set-up cannot decide (e.g. the code uses an attribute
    the set-up object was built without): reported as undecided, never as refuted."""

    def __init__(self, reason):
        self.reason = reason


class Forall(object):
    """forall k_0..k_{m-1} with 0 <= k_i < ranges[i] (ranges[i] None => unbounded Int,
    'real' => a real variable):  body(*ks)   where body returns a formula
    (bool scalar, Forall, or list of those)."""

    def __init__(self, ranges, body, name=None, lazy=False):
        if not isinstance(ranges, (list, tuple)):
            ranges = [ranges]
        self.ranges = list(ranges)
        self.body = body
        self.name = name
        self.lazy = lazy        # definitional axiom: only unfolded in the late proof stages

    def __repr__(self):
        return "Forall(%s, %s)" % (self.ranges, self.name)


def guard_of(r, k):
    if r is None or (isinstance(r, str) and r == 'real'):
        return True
    lo, hi = (0, r) if not isinstance(r, tuple) else r
    return band(compare('<=', lo, Sc(k)), compare('<', Sc(k), hi))


def flatten(f):
    """formula | list | dict  ->  list of atomic formulas (bool scalars / Forall)."""
    if f is None:
        return []
    if isinstance(f, (list, tuple)):
        out = []
        for x in f:
            out.extend(flatten(x))
        return out
    if isinstance(f, dict):
        return flatten(list(f.values()))
    return [f]


def deep_mentions(t, v, _seen=None):
    """Does term t mention constant v, looking THROUGH named sum / extremum atoms (whose constants stand for
    bodies that may mention v)?"""
    if mentions(t, v):
        return True
    for a in SUMS.atoms_in([t]):
        if mentions(a.body, v) or mentions(a.n, v):
            return True
    for a in EXTREMA.atoms_in([t]):
        if mentions(a.body, v) or mentions(a.n, v):
            return True
    return False


def deep_substitute(term, k, tz):
    """Substitute constant k by term tz in `term`, re-creating every named sum / extremum atom whose body
    (or range) mentions k, so that a value computed for a symbolic loop index can be generalised soundly."""
    if not deep_mentions(term, k):
        return term
    repl = []
    for a in SUMS.atoms_in([term]):
        if deep_mentions(a.body, k) or deep_mentions(a.n, k):
            nb = deep_substitute(a.body, k, tz)
            nn = deep_substitute(a.n, k, tz)
            repl.append((a.const, SUMS.atom(nn, a.bound, nb)))
    for a in EXTREMA.atoms_in([term]):
        if deep_mentions(a.body, k) or deep_mentions(a.n, k):
            nb = deep_substitute(a.body, k, tz)
            nn = deep_substitute(a.n, k, tz)
            repl.append((a.const, EXTREMA.atom(nn, a.bound, nb, a.which)))
    if repl:
        term = z3.substitute(term, *repl)
    return z3.substitute(term, (k, tz))


def subst_formula(f, k, t):
    """Substitute z3 constant k by term t in a formula (through Forall closures and named atoms)."""
    if isinstance(f, Sc):
        return wrap(deep_substitute(f.t, k, to_z3(t, 'int')))
    if isinstance(f, Forall):
        body = f.body
        return Forall(f.ranges, lambda *a: subst_formula(body(*a), k, t), f.name, f.lazy)
    if isinstance(f, (list, tuple)):
        return [subst_formula(x, k, t) for x in f]
    if isinstance(f, dict):
        return [subst_formula(x, k, t) for x in f.values()]
    return f
