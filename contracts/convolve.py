"""Contracts for sedfitter/convolve/convolve.py: _convolve_model_dir_2 (cube packages) and
_convolve_model_dir_1 (per-file packages)  (C06, C07, C08)."""
import z3

from sedvc import units
from sedvc.contractlib import Contract, contract, Ctx
from sedvc.loops import EventLoop
from sedvc.sym import Sc, compare, band, bor, bnot, implies, ite, arith, fresh_int
from sedvc.values import Quantity, Opaque, ObjRef, ListRef
from .integrate import make_filter, strictly_monotone, FILTER
from .convolved import CF
from .cube import CUBE
from .sed import SED

U = units.BASE
CONV = 'sedfitter.convolve.convolve.'


@contract
class CfWrite(Contract):
    name = CF + '.write'
    trusted = 'assumed (FITS I/O; round trip decided by the bounded run of C12): writes model names, fluxes, errors, apertures and central wavelength of this object to the named file'


def _filters(c, n=2):
    fs = []
    for i in range(n):
        f = make_filter(c, prefix='flt%d' % i)
        fs.append(f)
    return fs


def _filter_pre(c, fs):
    out = {}
    for i, f in enumerate(fs):
        nu = c.A(c.attr(f, '_nu'))
        out['filter%d_monotone' % i] = strictly_monotone(c, nu)
        out['filter%d_positive' % i] = c.forall(nu.n, lambda k, nu=nu: nu[k] > 0, 'nu>0')
        out['filter%d_lengths' % i] = compare('==', nu.n, c.A(c.attr(f, '_r')).n)
    return out


@contract
class ConvolveV2(Contract):
    """_convolve_model_dir_2: for every filter i the object written holds, for every model m and aperture a,
    flux = sum_k val[m,a,k] R_i[k] and error = sqrt(sum_k (unc[m,a,k] R_i[k])^2) (both times the unit factor to mJy)
    with R_i the filter re-binned to the cube's frequencies; model names and apertures are the cube's, the
    central wavelength is the filter's; one file per filter, named after it, in filter order; a parameter table
    whose names differ from the cube's is refused."""
    name = CONV + '_convolve_model_dir_2'
    properties = ('C07', 'C06', 'C08')
    variants = ('two_filters',)
    assume_pre_of = (CUBE + 'BaseCube.read',)

    def setup(self, c, variant):
        from sedvc.extmodels import table_new
        M, A, W = c.int('n_models'), c.int('n_ap'), c.int('n_wav')
        c.assume([M >= 1, A >= 1, W >= 2])
        self.cube = dict(wav=c.array('cube_wav', (W,)), ap=c.array('cube_ap', (A,)), val=c.array('cube_val', (M, A, W)), unc=c.array('cube_unc', (M, A, W)),
                         names=c.array('cube_names', (M,), kind='int'), valid=c.array('cube_valid', (M,), kind='int'), dist=c.real('cube_dist_cm'))
        c.interp.package_cube = self.cube
        c.interp.package_conf = {'name': 'pkg', 'version': 2}
        self.par_names = c.array('par_name', (M,), 'int')
        c.interp.package_par_table = table_new(c.st, dict(MODEL_NAME=self.par_names), M)
        c.interp.ext['os.path.exists'] = lambda interp, st, fr, args, kw: True
        self.filters = _filters(c)
        return dict(model_dir='MODELDIR', filters=c.list(self.filters), overwrite=False, memmap=False)

    def requires(self, c, a):
        return _filter_pre(c, self.filters)

    def raises(self, c, a):
        names, par = c.A(self.cube['names']), c.A(self.par_names)
        return {'ValueError': c.Any(names.n, lambda m: bnot(names[m] == par[m]))}

    def ensures(self, c, a, result, old):
        ev = c.st.events
        rebins = [e for e in ev if e[0] == 'ret' and e[1] == FILTER + '.rebin']
        rebin_calls = [e for e in ev if e[0] == 'call' and e[1] == FILTER + '.rebin']
        writes = [e for e in ev if e[0] == 'call' and e[1] == CF + '.write']
        out = {'every_filter_is_rebinned_once_to_the_cube_frequencies': len(rebins) == 2 and all(rebin_calls[i][2]['self'].addr == self.filters[i].addr for i in range(2)),
               'one_file_per_filter_in_filter_order': len(writes) == 2}
        if len(rebins) != 2 or len(writes) != 2:
            return out
        # the cube AS READ (the result of SEDCube.read(order='nu'), whose relation to the file is that function's
        # own contract): modular composition
        reads = [e for e in ev if e[0] == 'ret' and e[1] == CUBE + 'BaseCube.read']
        out['cube_read_once'] = len(reads) == 1
        if len(reads) != 1:
            return out
        cube = reads[0][2]
        qv, qe = c.attr(cube, '_val'), c.attr(cube, '_unc')
        V, E = c.A(qv), c.A(qe)
        fv, fe = qv.unit.scale / U['mJy'].scale, qe.unit.scale / U['mJy'].scale
        M, A, W = V.shape
        src = lambda k: k
        for i in range(2):
            cf = writes[i][2]['self']
            R = c.A(c.attr(rebins[i][2], '_r'))
            fl, er = c.attr(cf, '_flux'), c.attr(cf, '_error')
            FL, ER = c.A(fl), c.A(er)
            k_fl, k_er = fl.unit.scale / U['mJy'].scale, er.unit.scale / U['mJy'].scale
            out['flux(filter %d)' % i] = [compare('==', FL.shape[0], M), compare('==', FL.shape[1], A),
                                          c.forall([M, A], (lambda FL, R, k_fl: lambda m, ap: FL[m, ap] * k_fl == c.Sum(W, lambda k: V[m, ap, src(k)] * R[k]) * fv)(FL, R, k_fl), 'flux')]
            out['error(filter %d)' % i] = [compare('==', ER.shape[0], M), compare('==', ER.shape[1], A),
                                           c.forall([M, A], (lambda ER, R, k_er: lambda m, ap: ER[m, ap] * k_er == c.sqrt(c.Sum(W, lambda k: (E[m, ap, src(k)] * R[k]) * (E[m, ap, src(k)] * R[k]))) * fe)(ER, R, k_er), 'error')]
            nm = c.A(c.attr(cf, '_model_names'))
            CN = c.A(self.cube['names'])
            out['names(filter %d)' % i] = [compare('==', nm.n, M), c.forall(M, (lambda nm: lambda m: nm[m] == CN[m])(nm), 'names')]
            ap_ = c.attr(cf, '_apertures')
            AP, CA = c.A(ap_), c.A(self.cube['ap'])
            out['apertures(filter %d)' % i] = [compare('==', AP.n, A), c.forall(A, (lambda AP, ap_: lambda j: AP[j] * ap_.unit.scale == CA[j] * U['au'].scale)(AP, ap_), 'apertures')]
            cw, fw = c.attr(cf, '_wavelength'), c.attr(self.filters[i], '_wavelength')
            out['central_wavelength(filter %d)' % i] = isinstance(cw, Quantity) and compare('==', cw.value * cw.unit.scale, fw.value * fw.unit.scale)
            fn = writes[i][2]['filename']
            out['file_named_after_filter(filter %d)' % i] = _mentions(fn, c.attr(self.filters[i], 'name'))
        return out


def _mentions(value, needle, depth=0):
    """the (opaque) string value was built from `needle`"""
    if value is needle:
        return True
    if depth > 6:
        return False
    if isinstance(value, Opaque):
        info = value.info
        if info is needle:
            return True
        if isinstance(info, (tuple, list)):
            return any(_mentions(x, needle, depth + 1) for x in info)
        return _mentions(info, needle, depth + 1) if info is not None else False
    if isinstance(value, (tuple, list)):
        return any(_mentions(x, needle, depth + 1) for x in value)
    return False
