"""./check <Cxx> quick|thorough [--replay file]

Decides one property: E1 = contract obligations generated from /repo's current source and
discharged by z3 (sedvc), E2 = the bounded run-time stand-in (rtc).  Exit 0: held on
everything explored; exit 1 + `VIOLATION property=<id> replay=<path>`: violation; exit 3:
checker fault.  Undecided obligations (unsupported construct, solver unknown) are listed,
never reported as violations.
"""
import importlib
import json
import os
import sys
import time
import traceback

HERE = os.path.dirname(os.path.dirname(os.path.abspath(__file__)))
sys.path.insert(0, HERE)
REPO = os.environ.get('SEDVC_REPO', '/repo')
# where evidence/ and replays/ are written (tools/run_seeds_par.sh points it at a scratch directory so that runs on a
# seeded copy of the repository never touch the committed evidence)
OUT = os.environ.get('VERIF_OUT_DIR') or HERE
sys.path.insert(0, REPO)

from vcheck.table import PROPS          # noqa: E402


def load_known():
    findings, fixed = [], []
    path = os.path.join(HERE, 'known_findings.txt')
    if os.path.exists(path):
        for line in open(path):
            line = line.strip()
            if line.startswith('finding:'):
                parts = line[len('finding:'):].split()
                d = dict(p.split('=', 1) for p in parts[:2] if '=' in p)
                d['text'] = ' '.join(parts[2:])
                findings.append(d)
            elif line.startswith('fixed:'):
                fixed.append(line)
    return findings, fixed


def run_e1(prop, tier):
    from sedvc import engine
    names = PROPS[prop].get('e1', [])
    if not names:
        return None
    timeout_ms = 60000 if tier == "quick" else 240000
    t0 = time.time()
    res = engine.verify_many(names, timeout_ms=timeout_ms, repo_root=REPO)
    return dict(results=res, seconds=time.time() - t0)


def _xc_task(task):
    name, variant, samples, seed = task
    try:
        from sedvc import crosscheck
        r = crosscheck.crosscheck(name, variant, samples=samples, seed=seed, repo_root=REPO)
        r['disagree'] = r['disagree'][:2]
        return r
    except Exception as e:      # noqa
        return dict(function=name, variant=variant, agree=0, disagree=[], discarded=0, skipped=0, paths=0, reason='cross-check not possible: %s: %s' % (type(e).__name__, str(e)[:120]))


def run_crosscheck(prop, tier, seed):
    """CPython cross-check of the symbolic executor on the functions of this property (sedvc/crosscheck.py): tests the
    ENCODING the proofs were made in.  Returns (summary dict, list of disagreements)."""
    import multiprocessing as mp
    from sedvc import engine
    names = PROPS[prop].get('e1', [])
    if not names:
        return None, []
    it = engine.make_interp(REPO)
    tasks = []
    for nm in names:
        con = it.contracts.get(nm)
        if con is None or getattr(con, 'trusted', False):
            continue
        if getattr(con, 'crosscheck', True) is not True:
            continue
        for v in (getattr(con, 'variants', None) or (None,)):
            tasks.append((nm, v, 1 if tier == 'quick' else 3, seed))
    if not tasks:
        return None, []
    t0 = time.time()
    ctx = mp.get_context('fork')
    out = []
    with ctx.Pool(processes=max(2, (os.cpu_count() or 4) // 2), maxtasksperchild=1) as pool:
        pending = [(t, pool.apply_async(_xc_task, (t,))) for t in tasks]
        for t, h in pending:
            try:
                out.append(h.get(timeout=150))
            except Exception as e:      # noqa  (timeout: that function is simply not cross-checked in this run)
                out.append(dict(function=t[0], variant=t[1], agree=0, disagree=[], discarded=0, skipped=0, paths=0, reason='timed out'))
    summ = dict(what='executor vs CPython on sampled inputs (a test of the encoding, not a proof; DESIGN.md 6.4)',
                samples_agreeing=sum(r['agree'] for r in out), samples_agreeing_relationally=sum(r.get('agree_relational', 0) for r in out),
                samples_disagreeing=sum(len(r['disagree']) for r in out), samples_discarded=sum(r['discarded'] for r in out),
                samples_not_comparable=sum(r['skipped'] for r in out), seconds=round(time.time() - t0, 1),
                per_function=[dict(function=r['function'] + ('[%s]' % r['variant'] if r.get('variant') else ''), agree=r['agree'],
                                   agree_relational=r.get('agree_relational', 0), disagree=len(r['disagree']), discarded=r['discarded'],
                                   not_comparable=r['skipped'], reason=r.get('reason')) for r in out])
    dis = [(r['function'], r.get('variant'), d) for r in out for d in r['disagree']]
    return summ, dis


def run_e2(prop, tier, seed):
    spec = PROPS[prop].get('e2')
    if spec is None:
        return None, {}
    mod = importlib.import_module(spec[0])
    fn = getattr(mod, spec[1])
    rec, replayers = fn(tier, seed)
    return rec, replayers


def ledger():
    path = os.path.join(HERE, 'contracts', 'LEDGER.json')
    if os.path.exists(path):
        return json.load(open(path))
    return {}


MAX_CONCRETISE = 3


def native_counterexample(function, variant, obligation):
    """small-scope concretisation of a refuted obligation + run of the real function (sedvc/concretize.py)"""
    try:
        from sedvc import concretize
        cex = concretize.small_counterexample(function, variant, obligation, repo_root=REPO, timeout_ms=30000)
        if cex is None:
            return None
        rep = concretize.replay_native(cex)
        if not rep.get('agrees'):
            return None
        return dict(cex=cex, replay=rep)
    except Exception:
        return None


def write_replay(prop, name, payload):
    d = os.path.join(OUT, 'replays')
    os.makedirs(d, exist_ok=True)
    safe = ''.join(ch if ch.isalnum() or ch in '-_.' else '_' for ch in name)[:80]
    path = os.path.join(d, '%s-%s.json' % (prop, safe))
    with open(path, 'w') as f:
        json.dump(payload, f, indent=1, default=str)
    return os.path.relpath(path, OUT)


def main(argv):
    if len(argv) < 2:
        print(__doc__)
        return 3
    prop = argv[1]
    tier = os.environ.get('VERIF_TIER') or (argv[2] if len(argv) > 2 and not argv[2].startswith('--') else 'quick')
    seed = int(os.environ.get('VERIF_SEED', '20260926'))
    if '--replay' in argv:
        return replay(prop, argv[argv.index('--replay') + 1])
    if prop not in PROPS:
        print("unknown property", prop)
        return 3
    t0 = time.time()
    info = PROPS[prop]
    findings, fixed = load_known()
    violations = []         # (key, message, replay path, has_input)
    undecided = []
    crashes = []
    e1_summary = None
    # ---------------- E1
    try:
        e1 = run_e1(prop, tier)
    except Exception:
        e1 = None
        crashes.append('E1 driver: ' + traceback.format_exc()[-1500:])
    obligations = discharged = 0
    n_concretised = [0]
    functions = []
    solver_s = 0.0
    samples = []
    assumptions = set(info.get('assumptions', []))
    led = ledger().get(prop, {})
    seen_names = set()
    if e1:
        for r in e1['results']:
            fname = r['function'] + ('[%s]' % r['variant'] if r.get('variant') else '')
            functions.append(dict(function=fname, status=r['status'], paths=r.get('paths'), inlined=r.get('inlined', []),
                                  callee_contracts=r.get('callee_contracts', []), dropped=r.get('dropped', {}), seconds=r['seconds'],
                                  vacuity=r.get('vacuity'), reachable_return_paths=r.get('reachable_return_paths'), return_paths=r.get('return_paths')))
            if r['status'] == 'unsupported':
                undecided.append('%s: %s' % (fname, r['error']))
                continue
            if r['status'] == 'crash':
                crashes.append('%s: %s' % (fname, r['error']))
                continue
            if r.get('vacuity') == 'unsat':
                crashes.append('%s: contradictory precondition (vacuous)' % fname)
            for o in r['obligations']:
                obligations += 1
                seen_names.add(o['name'])
                solver_s += o['seconds']
                if o['status'] == 'proved':
                    discharged += 1
                    if len(samples) < 6:
                        samples.append(dict(obligation=o['name'], status='proved', seconds=o['seconds'], subqueries=o['subqueries']))
                elif o['status'] == 'refuted':
                    payload = dict(property=prop, kind='E1-obligation', obligation=o['name'], function=fname,
                                   verifier_output=o['detail'], counter_model=o['model'],
                                   note='obligation generated from %s and refuted by z3; see DESIGN.md 6' % REPO)
                    msg = 'obligation %s refuted' % o['name']
                    has_input = False
                    if n_concretised[0] < MAX_CONCRETISE and time.time() - t0 < 600:
                        n_concretised[0] += 1
                        nat = native_counterexample(r['function'], r.get('variant'), o['name'])
                        if nat is not None:
                            payload.update(kind='E1-native', counterexample=nat['cex'], native_replay=nat['replay'])
                            has_input = True
                            msg += '; the real function, run on the small counterexample of the verifier, returns the values the verifier predicted (%s)' % nat['replay']['detail']
                    path = write_replay(prop, o['name'], payload)
                    violations.append(('E1:' + o['name'], msg, path, has_input))
                else:
                    # undecided at symbolic size: a small concrete counterexample confirmed by the real code still decides it
                    nat = None
                    if n_concretised[0] < MAX_CONCRETISE and time.time() - t0 < 600 and 'out of date' not in str(o['detail']):
                        n_concretised[0] += 1
                        nat = native_counterexample(r['function'], r.get('variant'), o['name'])
                    if nat is not None:
                        payload = dict(property=prop, kind='E1-native', obligation=o['name'], function=fname, verifier_output='undecided for symbolic lengths (%s); refuted for the lengths %s'
                                       % (o['detail'], nat['cex']['sizes']), counterexample=nat['cex'], native_replay=nat['replay'])
                        path = write_replay(prop, o['name'], payload)
                        violations.append(('E1:' + o['name'], 'obligation %s refuted for small array lengths; the real function, run on that counterexample, returns the values the verifier predicted (%s)'
                                           % (o['name'], nat['replay']['detail']), path, True))
                    else:
                        undecided.append('%s: %s' % (o['name'], o['detail']))
        missing = [n for n in led.get('obligations', []) if n not in seen_names]
        # obligations that vanish (on a tree where the function still verifies) would make a pass vacuous
        for n in missing:
            if not any(n.split('/')[0] in u for u in undecided) and not crashes:
                undecided.append('%s: expected by the ledger but not generated' % n)
        e1_summary = dict(functions=functions, obligations=obligations, discharged=discharged, solver_seconds=round(solver_s, 2),
                          wall_seconds=round(e1['seconds'], 2), ledger_expected=len(led.get('obligations', [])), ledger_missing=missing)
        if obligations == 0 and info.get('e1') and not undecided and not crashes:
            crashes.append('E1 generated zero obligations')
    # ---------------- cross-check of the encoding against CPython
    xc_summary = None
    if os.environ.get('SEDVC_NO_CROSSCHECK') != '1':
        try:
            xc_summary, xc_dis = run_crosscheck(prop, tier, seed)
            for fn_, var_, d in xc_dis:
                path = write_replay(prop, 'crosscheck-%s-%s' % (fn_.split('.')[-1], d.get('path')), dict(property=prop, kind='engine-crosscheck', function=fn_, variant=var_, disagreement=d))
                undecided.append('engine cross-check: the symbolic executor and CPython disagree on %s%s (%s); proofs through this function are not trusted until resolved; see %s'
                                 % (fn_, '[%s]' % var_ if var_ else '', d.get('detail'), path))
        except Exception:
            undecided.append('engine cross-check did not run: ' + traceback.format_exc()[-400:])
    # ---------------- E2
    rec = None
    try:
        rec, replayers = run_e2(prop, tier, seed)
    except Exception:
        crashes.append('E2 driver: ' + traceback.format_exc()[-2500:])
    if rec is not None:
        for v in rec.violations:
            payload = dict(property=prop, kind='E2-case', key=v.key, message=v.message, case=v.case)
            path = write_replay(prop, '%s-%s' % (v.key, __import__('zlib').crc32(json.dumps(v.case, sort_keys=True, default=str).encode()) % 10 ** 8), payload)
            violations.append(('E2:' + str(v.key), v.message, path, True))
    # ---------------- verdict
    new_violations = []
    for key, msg, path, has_input in violations:
        known = [f for f in findings if f.get('property') == prop and f.get('key') and f['key'] in key]
        if known:
            print("KNOWN-FINDING: property=%s %s" % (prop, known[0]['text']))
        else:
            new_violations.append((key, msg, path, has_input))
    for key, msg, path, has_input in new_violations:
        # a violation line without a native failing input of its own says so
        tail = '' if has_input else ' no-failing-input-found'
        print("VIOLATION property=%s replay=%s%s" % (prop, path, tail))
        print("  %s: %s" % (key, msg))
    for u in undecided:
        print("UNDECIDED %s" % u)
    for c in crashes:
        print("CHECKER-FAULT %s" % c)
    wall = time.time() - t0
    write_evidence(prop, tier, seed, info, e1_summary, rec, samples, assumptions, undecided, len(new_violations), wall, xc_summary)
    if new_violations:
        return 1
    if crashes:
        return 3
    print("OK property=%s tier=%s obligations=%d discharged=%d undecided=%d e2_evaluations=%d wall=%.1fs" % (
        prop, tier, obligations, discharged, len(undecided), rec.evaluations if rec else 0, wall))
    return 0


def lemma_base(prop, tier):
    """state of the Lean lemma base the sum normaliser relies on: the committed STAMP must match the lemma file; the
    thorough tier of the properties that rely on the lemmas (C01, C05, C16) re-runs Lean on it"""
    import hashlib
    import subprocess
    d = os.path.join(HERE, 'lemmas')
    try:
        sha = hashlib.sha256(open(os.path.join(d, 'SumLemmas.lean'), 'rb').read()).hexdigest()
        stamp = open(os.path.join(d, 'STAMP')).read().split()
        out = dict(file='lemmas/SumLemmas.lean', sha256=sha, stamp_matches=bool(stamp) and stamp[0] == sha)
    except Exception as e:
        return dict(error=str(e))
    if tier == 'thorough' and prop in ('C01', 'C05', 'C16'):
        try:
            r = subprocess.run([os.path.join(HERE, 'tools', 'check_lemmas.sh')], capture_output=True, text=True, timeout=1500)
            out['lean_recheck'] = 'ok' if r.returncode == 0 else 'FAILED: ' + (r.stdout + r.stderr)[-300:]
        except Exception as e:
            out['lean_recheck'] = 'not run: %s' % e
    return out


def write_evidence(prop, tier, seed, info, e1s, rec, samples, assumptions, undecided, nviol, wall, xc=None):
    level = info['level']
    cov = {}
    if xc is not None:
        cov['engine_crosscheck'] = xc
    cov['lemma_base'] = lemma_base(prop, tier)
    if rec is not None:
        cov.update(rec.summary())
    else:
        cov.update(dict(evaluations=0, distinct_nontrivial=0, rule='no bounded part', samples=[]))
    cov['bounded_part'] = dict(evaluations=cov.get('evaluations', 0), distinct_nontrivial=cov.get('distinct_nontrivial', 0),
                               exhaustive=cov.get('exhaustive', False), label='bounded stand-in (never counted as proved)')
    if e1s is not None:
        cov['obligations'] = e1s['obligations']
        cov['discharged'] = e1s['discharged']
        cov['checker_cmd'] = './check %s %s  (sedvc: obligations from %s, z3 %s via %s)' % (prop, tier, REPO, _z3v(), os.environ.get('SEDVC_Z3', 'z3-new'))
        cov['trusted_base'] = sorted(assumptions)
        cov['functions_under_contract'] = e1s['functions']
        cov['solver_seconds'] = e1s['solver_seconds']
        cov['ledger_expected'] = e1s['ledger_expected']
        cov['ledger_missing'] = e1s['ledger_missing']
        cov['samples'] = (cov.get('samples') or []) + samples
        cov['undecided'] = undecided
    cov['explanation'] = info.get('explanation', '')
    if not cov.get('samples'):
        cov['samples'] = [dict(note='no case recorded')]
    ev = dict(property_id=prop, tier=tier, seed=seed, level=level, coverage=cov, assumptions=sorted(assumptions),
              wall_s=round(wall, 2), violations=nviol)
    d = os.path.join(OUT, 'evidence')
    os.makedirs(d, exist_ok=True)
    with open(os.path.join(d, prop + '.json'), 'w') as f:
        json.dump(ev, f, indent=1, default=str)


def _z3v():
    try:
        import z3
        return z3.get_version_string()
    except Exception:
        return '?'


def replay(prop, path):
    full = path if os.path.isabs(path) else os.path.join(OUT, path)
    payload = json.load(open(full))
    if payload.get('kind') == 'E2-case':
        from rtc.core import Recorder
        spec = PROPS[prop]['e2']
        mod = importlib.import_module(spec[0])
        rec0, replayers = getattr(mod, spec[1])('replay', 0) if False else (None, None)
        # replayers are looked up without running the whole driver
        rp = getattr(mod, 'REPLAY', None)
        case = payload['case']
        tag = case.get('tag')
        fn = None
        if rp and tag in rp:
            fn = rp[tag]
        if fn is None:
            print("no replayer for tag", tag)
            return 3
        rec = Recorder(prop, 'replay')
        fn(rec, case)
        if rec.violations:
            for v in rec.violations:
                print("VIOLATION property=%s replay=%s" % (prop, path))
                print("  %s: %s" % (v.key, v.message))
            return 1
        print("replay passed: the case no longer violates the property")
        return 0
    if payload.get('kind') == 'E1-native':
        from sedvc import concretize
        rep = concretize.replay_native(payload['counterexample'])
        if rep.get('agrees'):
            print("VIOLATION property=%s replay=%s" % (prop, path))
            print("  obligation %s: the real function still returns, on the recorded input, the values for which the clause is false (%s)" % (payload['obligation'], rep['detail']))
            return 1
        print("replay passed: on the recorded input the real function no longer returns the violating values (%s)" % rep.get('detail'))
        return 0
    if payload.get('kind') == 'E1-obligation':
        from sedvc import engine
        fname = payload['function']
        variant = None
        if fname.endswith(']'):
            fname, variant = fname[:-1].split('[')
        r = engine.verify_contract(fname, repo_root=REPO, variant=variant)
        bad = [o for o in r['obligations'] if o['name'] == payload['obligation'] and o['status'] == 'refuted']
        if bad:
            print("VIOLATION property=%s replay=%s no-failing-input-found" % (prop, path))
            print("  obligation %s still refuted: %s" % (payload['obligation'], bad[0]['detail']))
            return 1
        print("replay passed: obligation %s is discharged (or undecided) on the current tree" % payload['obligation'])
        return 0
    return 3


if __name__ == '__main__':
    sys.exit(main(sys.argv))
