"""Contracts for the text writers of C09: write_parameters.

The printed TEXT (number formatting, column widths) is outside E1; what is proved is WHICH value is formatted
where: for an arbitrary record of the input and an arbitrary fit of it, the line written for fit i shows, in
order, i+1, the model name, chi^2, A_V and scale of fit i and then, for every parameter column, entry i of the
table returned by FitInfo.filter_table for THAT record (whose row i is the parameter-file row of the model named
in fit i: filter_table's own contract); the record is cut by the given selector before the table is made; the
parameter table is the package's, stripped and sorted by name once.
"""
from sedvc.contractlib import Contract, contract, Ctx
from sedvc.loops import EventLoop
from sedvc.sym import Sc, compare, band, bor, bnot, implies, ite, arith, fresh_int
from sedvc.values import Opaque, ObjRef, Quantity, ListRef, DictRef
from .fit_info import make_fitinfo, FITINFO
from .fitinfo_file import _new_record, FIF
from .source import SOURCE

WP = 'sedfitter.write_parameters.write_parameters'


def _written(ev, fout):
    return [e[2] for e in ev if e[0] == 'file.write' and (e[1] == fout.addr if isinstance(fout, ObjRef) else True)]


def _fmt(x):
    """('%', template, value) of a %-formatted string, else (None, None)"""
    if isinstance(x, Opaque) and x.tag == 'str' and isinstance(x.info, tuple) and len(x.info) == 3 and x.info[0] == '%':
        return x.info[1], x.info[2]
    return None, None


def _is(v, w):
    if v is w:
        return True
    if isinstance(v, Sc) and isinstance(w, Sc):
        return compare('==', v, w)
    if isinstance(v, (int, str)) and isinstance(w, (int, str)):
        return v == w
    if isinstance(v, Sc) or isinstance(w, Sc):
        return compare('==', v, w)
    return False


def _same_tuple(x, y):
    return isinstance(x, tuple) and isinstance(y, tuple) and len(x) == len(y) and all(p is q or (isinstance(p, str) and p == q) or (isinstance(p, Sc) and isinstance(q, Sc) and p.t.eq(q.t)) for p, q in zip(x, y))


def _same_opaque(x, y):
    return x is y or (isinstance(x, Opaque) and isinstance(y, Opaque) and x.tag == y.tag and x.info == y.info and x.info is not None)


def _all(fs):
    out = True
    for f in fs:
        if f is False:
            return False
        if f is True:
            continue
        out = band(out, f)
    return out


def _record_check(c, paths):
    """loop 2: one record of the input."""
    obs = []
    e0 = c.st.env
    sel, t, add, fout = e0['select_format'], e0['t'], e0['additional'], e0['fout']
    for s, ev, status in paths:
        if status == 'raise':
            continue        # filter_table refused the parameter table: an exception, nothing wrong is written (function-level raises clause)
        if status not in ('run', 'continue'):
            obs.append((s, 'record_is_processed', False))
            continue
        info = s.env['info']
        calls = [(e[1].split('.')[-1], e[2]) for e in ev if e[0] == 'call']
        rets = dict((e[1].split('.')[-1], e[2]) for e in ev if e[0] == 'ret')
        names = [n for n, _ in calls if n in ('keep', 'filter_table')]
        obs.append((s, 'selector_applied_before_the_table_is_made', names == ['keep', 'filter_table']))
        if names != ['keep', 'filter_table']:
            continue
        b = dict(calls)
        obs.append((s, 'the_given_selector_on_this_record', b['keep']['self'].addr == info.addr and _same_tuple(b['keep']['select_format'], sel)))
        obs.append((s, 'table_made_for_this_record_from_the_package_table', b['filter_table']['self'].addr == info.addr and b['filter_table']['input_table'].addr == t.addr
                    and b['filter_table']['additional'].addr == add.addr and s.env['tsorted'].addr == rets['filter_table'].addr))
        w = _written(ev, fout)
        cs = Ctx(c.interp, s, c.fr)
        src = cs.attr(info, 'source')
        hdr = [_fmt(x) for x in w[:3]]
        chi2 = cs.A(cs.attr(info, 'chi2'))
        nd = rets.get('n_data')
        obs.append((s, 'header_line_names_the_source_its_n_data_and_n_fits',
                    _all([len(w) >= 4, _same_opaque(hdr[0][1], cs.attr(src, '_name')), _is(hdr[1][1], nd) if nd is not None else False, _is(hdr[2][1], chi2.n), w[3] == '\n'])
                    if len(w) >= 4 else False))
    return obs


def _fit_item(c, it):
    k = Sc(fresh_int('fit_id'))
    c.interp.wp_range = it
    c.st.assume_pc(band(compare('<=', it.start, k), compare('<', k, it.stop)))
    return k


def _fit_check(c, paths):
    """loop 3: the line of one fit."""
    e0 = c.st.env
    info, tsorted, fout = e0['info'], e0['tsorted'], e0['fout']
    rng = c.interp.wp_range
    chi2 = c.A(c.attr(info, 'chi2'))
    obs = [(c.st, 'one_line_per_selected_fit', _all([_is(rng.start, 0), _is(rng.stop, chi2.n), _is(rng.step, 1)]))]
    cols = c.st.heap[tsorted.addr].attrs['@cols']
    pars = [k for k in c.st.heap[tsorted.addr].attrs['colnames'] if k != 'MODEL_NAME']
    for s, ev, status in paths:
        if status not in ('run', 'continue'):
            obs.append((s, 'line_is_written', False))
            continue
        i = s.env['fit_id']
        w = [_fmt(x) for x in _written(ev, fout)[:-1]]
        last = _written(ev, fout)[-1] if _written(ev, fout) else None
        A = lambda nm: c.A(c.attr(info, nm))
        want = [arith('+', i, 1), A('model_name')[i], A('chi2')[i], A('av')[i], A('sc')[i]] + [c.A(cols[p].value if isinstance(cols[p], Quantity) else cols[p])[i] for p in pars]
        ok = len(w) == len(want) and last == '\n'
        obs.append((s, 'line_shows_rank_name_chi2_av_scale_then_the_parameters_of_row_i', _all([_is(w[k][1], want[k]) for k in range(len(want))]) if ok else False))
    return obs


@contract
class WriteParameters(Contract):
    name = WP
    properties = ('C09', 'C08')
    variants = ('file',)
    loops = {2: EventLoop('records', _record_check, item=_new_record),
             3: EventLoop('fits', _fit_check, item=_fit_item)}
    assume_pre_of = (FITINFO + '.keep', FITINFO + '.filter_table', SOURCE + '.n_data')

    def setup(self, c, variant):
        from sedvc.extmodels import table_new
        R = c.int('par_rows')
        c.assume(R >= 0)
        self.table = table_new(c.st, dict(MODEL_NAME=c.array('par_name', (R,), 'int'), par1=c.array('par_par1', (R,)), par2=c.array('par_par2', (R,))), R)
        c.interp.package_par_table = self.table
        return dict(input_fits='in.fitinfo', output_file='out.txt', select_format=('N', c.int('n_keep')), additional=c.dict({}))

    def raises(self, c, a):
        return {'EOFError': ('may', True), 'UnpicklingError': ('may', True), 'Exception': ('may', True), 'IndexError': ('may', True)}

    def ensures(self, c, a, result, old):
        from sedvc.extmodels import strip_code
        ev = c.st.events
        loads = [e for e in ev if e[0] == 'call' and e[1].endswith('load_parameter_table')]
        out = {'package_table_loaded_once': len(loads) == 1}
        # the table handed to filter_table: names stripped, rows sorted by name, whole rows moved together
        cell = c.st.heap[self.table.addr]
        cols0 = old.st.heap[self.table.addr].attrs['@cols']
        cols1 = cell.attrs['@cols']
        org = cell.attrs['@origin']
        N0, N1 = old.A(cols0['MODEL_NAME']), c.A(cols1['MODEL_NAME'])
        R = N0.n
        out['names_stripped_rows_sorted_together'] = [c.forall(R, lambda k: band(org(k) >= 0, org(k) < R), 'row map'),
                                                      c.forall(R, lambda k: N1[k] == strip_code(N0[org(k)]), 'names'),
                                                      c.forall(R, lambda k: band(c.A(cols1['par1'])[k] == old.A(cols0['par1'])[org(k)], c.A(cols1['par2'])[k] == old.A(cols0['par2'])[org(k)]), 'rows'),
                                                      c.forall([R, R], lambda k, l: implies(k <= l, N1[k] <= N1[l]), 'sorted')]
        return out


# ---------------------------------------------------------------------------------------------
# write_parameter_ranges
# ---------------------------------------------------------------------------------------------

WPR = 'sedfitter.write_parameter_ranges.write_parameter_ranges'


def _triple(x):
    t, v = _fmt(x)
    return v if isinstance(v, tuple) and len(v) == 3 else None


def _ranges_check(c, paths):
    obs = []
    e0 = c.st.env
    sel, t, add, fout = e0['select_format'], e0['t'], e0['additional'], e0['fout']
    for s, ev, status in paths:
        if status == 'raise':
            continue
        if status not in ('run', 'continue'):
            obs.append((s, 'record_is_processed', False))
            continue
        info = s.env['info']
        calls = [(e[1].split('.')[-1], e[2]) for e in ev if e[0] == 'call']
        rets = dict((e[1].split('.')[-1], e[2]) for e in ev if e[0] == 'ret')
        names = [n for n, _ in calls if n in ('keep', 'filter_table')]
        obs.append((s, 'selector_applied_before_the_table_is_made', names == ['keep', 'filter_table']))
        if names != ['keep', 'filter_table']:
            continue
        b = dict(calls)
        obs.append((s, 'the_given_selector_on_this_record', b['keep']['self'].addr == info.addr and _same_tuple(b['keep']['select_format'], sel)))
        obs.append((s, 'table_made_for_this_record_from_the_package_table', b['filter_table']['self'].addr == info.addr and b['filter_table']['input_table'].addr == t.addr
                    and b['filter_table']['additional'].addr == add.addr and s.env['tsorted'].addr == rets['filter_table'].addr))
        cs = Ctx(c.interp, s, c.fr)
        w = _written(ev, fout)
        tsorted = s.env['tsorted']
        cols = s.heap[tsorted.addr].attrs['@cols']
        pars = [k for k in s.heap[tsorted.addr].attrs['colnames'] if k != 'MODEL_NAME']
        chi2 = cs.A(cs.attr(info, 'chi2'))
        empty = 'E' if any(isinstance(x, str) for x in w[3:6]) else 'N'
        if len(w) != 3 + 3 + len(pars) + 1:
            obs.append((s, 'one_triple_per_quantity', False))
            continue
        trip = [_triple(x) for x in w[3:-1]]
        if any(tr is None for tr in trip):
            obs.append((s, 'one_triple_per_quantity', False))
            continue
        arrays = [cs.A(cs.attr(info, nm)) for nm in ('chi2', 'av', 'sc')] + [cs.A(cols[p].value if isinstance(cols[p], Quantity) else cols[p]) for p in pars]
        goals = []
        for tr, X in zip(trip, arrays):
            if any(isinstance(x, str) for x in tr):
                goals.append(compare('==', chi2.n, 0))          # placeholders only when no fit is selected
            else:
                goals += [compare('>', chi2.n, 0), _is(tr[0], cs.Min(X)), _is(tr[1], X[0]), _is(tr[2], cs.Max(X))]
        obs.append((s, 'each_triple_is_minimum_best_fit_maximum_over_the_selected_fits', _all(goals)))
    return obs


@contract
class WriteParameterRanges(Contract):
    """write_parameter_ranges: for an arbitrary record, after the selector is applied and filter_table has produced
    the parameter rows of the selected fits (row i = the model named in fit i), the line shows for chi^2, A_V, scale
    and every parameter column the triple (minimum over the selected fits, value of the best fit = rank 1, maximum);
    placeholders only when no fit is selected."""
    name = WPR
    properties = ('C09',)
    variants = ('file',)
    loops = {4: EventLoop('records', _ranges_check, item=_new_record)}
    assume_pre_of = (FITINFO + '.keep', FITINFO + '.filter_table', SOURCE + '.n_data')

    setup = WriteParameters.setup
    raises = WriteParameters.raises
    ensures = WriteParameters.ensures


# ---------------------------------------------------------------------------------------------
# extract_parameters
# ---------------------------------------------------------------------------------------------

EP = 'sedfitter.extract_parameters.extract_parameters'


def _flatten(x, out):
    """formatted values of a string built by %, +, join -- in the order they appear in the text"""
    if isinstance(x, Opaque) and x.tag == 'str' and isinstance(x.info, tuple) and x.info:
        kind = x.info[0]
        if kind == '%':
            v = x.info[2]
            for y in (v if isinstance(v, tuple) else (v,)):
                out.append(y)
        elif kind == 'concat':
            _flatten(x.info[1], out)
            _flatten(x.info[2], out)
        elif kind == 'join':
            for y in x.info[2]:
                _flatten(y, out)
    return out


def _ep_record_check(c, paths):
    obs = []
    e0 = c.st.env
    sel, t = e0['select_format'], e0['t']
    for s, ev, status in paths:
        if status == 'raise':
            continue
        if status not in ('run', 'continue'):
            obs.append((s, 'record_is_processed', False))
            continue
        info = s.env['info']
        calls = [(e[1].split('.')[-1], e[2]) for e in ev if e[0] == 'call']
        rets = dict((e[1].split('.')[-1], e[2]) for e in ev if e[0] == 'ret')
        names = [n for n, _ in calls if n in ('keep', 'filter_table')]
        obs.append((s, 'selector_applied_before_the_table_is_made', names == ['keep', 'filter_table']))
        if names != ['keep', 'filter_table']:
            continue
        b = dict(calls)
        obs.append((s, 'the_given_selector_on_this_record', b['keep']['self'].addr == info.addr and _same_tuple(b['keep']['select_format'], sel)))
        obs.append((s, 'table_made_for_this_record_from_the_package_table', b['filter_table']['self'].addr == info.addr and b['filter_table']['input_table'].addr == t.addr
                    and s.env['tsorted'].addr == rets['filter_table'].addr))
    return obs


def _ep_fit_item(c, it):
    k = Sc(fresh_int('i'))
    c.interp.ep_range = it
    c.st.assume_pc(band(compare('<=', it.start, k), compare('<', k, it.stop)))
    return k


def _ep_fit_check(c, paths):
    e0 = c.st.env
    info, tsorted, fout, parameters = e0['info'], e0['tsorted'], e0['fout'], e0['parameters']
    rng = c.interp.ep_range
    chi2 = c.A(c.attr(info, 'chi2'))
    obs = [(c.st, 'one_line_per_selected_fit', _all([_is(rng.start, 0), _is(rng.stop, chi2.n), _is(rng.step, 1)]))]
    cols = c.st.heap[tsorted.addr].attrs['@cols']
    pars = list(parameters) if isinstance(parameters, tuple) else list(c.st.heap[parameters.addr].items)
    for s, ev, status in paths:
        if status not in ('run', 'continue'):
            obs.append((s, 'line_is_written', False))
            continue
        i = s.env['i']
        w = _written(ev, fout)
        A = lambda nm: c.A(c.attr(info, nm))
        want = [A('chi2')[i], A('av')[i], A('sc')[i]] + [c.A(cols[p].value if isinstance(cols[p], Quantity) else cols[p])[i] for p in pars]
        got = _flatten(w[0], []) if len(w) == 1 else None
        ok = got is not None and len(got) == len(want)
        obs.append((s, 'line_shows_chi2_av_scale_then_the_parameters_of_row_i', _all([_is(got[k], want[k]) for k in range(len(want))]) if ok else False))
    return obs


@contract
class ExtractParameters(Contract):
    """extract_parameters: one output file per record; for an arbitrary record (cut by the given selector) and an
    arbitrary selected fit i the line written shows chi^2, A_V, scale of fit i and then, for every requested
    parameter, entry i of the table returned by filter_table for that record (row i = the model named in fit i),
    taken from the package table stripped and sorted by name once."""
    name = EP
    properties = ('C09',)
    variants = ('all',)
    loops = {2: EventLoop('records', _ep_record_check, item=_new_record),
             3: EventLoop('fits', _ep_fit_check, item=_ep_fit_item)}
    assume_pre_of = (FITINFO + '.keep', FITINFO + '.filter_table', SOURCE + '.n_data')

    def setup(self, c, variant):
        WriteParameters.setup(self, c, variant)
        return dict(input='in.fitinfo', output_prefix='pre_', output_suffix='.txt', parameters='all', select_format=('N', c.int('n_keep')), header=True)

    raises = WriteParameters.raises
    ensures = WriteParameters.ensures
