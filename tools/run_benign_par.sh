#!/bin/bash
# usage: run_benign_par.sh [-j N] [ids...]  -- like run_benign.sh, on scratch worktrees (see run_seeds_par.sh): every
# line must say rc=0 violations=0.
cd "$(dirname "$0")/.." || exit 2
V=$(pwd)
J=3
if [ "$1" = "-j" ]; then J=$2; shift; shift; fi
ids="$@"; [ -z "$ids" ] && ids=$(ls benign | sed 's/\.diff$//')
ncpu=$(nproc)
export SEDVC_MAX_SOLVERS=$(( (ncpu + J - 1) / J ))
[ "$SEDVC_MAX_SOLVERS" -lt 4 ] && export SEDVC_MAX_SOLVERS=4
one() {
  id=$1; V=$2
  f=$V/benign/$id.diff
  [ -f "$f" ] || exit 0
  prop=$(head -1 "$f" | sed 's/.*property=\([A-Z0-9]*\).*/\1/')
  d=$(mktemp -d /var/tmp/benrun.XXXXXX)
  git -C /repo worktree add -q --detach "$d/repo" HEAD || { echo "$id: cannot make a worktree"; rm -rf "$d"; exit 0; }
  if ! (cd "$d/repo" && tail -n +2 "$f" | patch -p1 -s >/dev/null 2>&1); then
    echo "$id: patch does not apply"
  else
    out=$(cd "$V" && SEDVC_REPO="$d/repo" VERIF_OUT_DIR="$d/out" ./check "$prop" quick 2>&1); rc=$?
    v=$(echo "$out" | grep -c '^VIOLATION')
    und=$(echo "$out" | grep -c '^UNDECIDED')
    first=$(echo "$out" | grep -A1 -e '^VIOLATION' -e '^UNDECIDED' | head -2 | tr '\n' ' ' | cut -c1-220)
    echo "$id ($prop) rc=$rc violations=$v undecided=$und :: $first"
  fi
  git -C /repo worktree remove --force "$d/repo" 2>/dev/null
  rm -rf "$d"
}
export -f one
echo $ids | tr ' ' '\n' | xargs -P "$J" -I{} bash -c 'one {} '"$V" | sort
git -C /repo worktree prune
