#!/usr/bin/env python3
"""Regenerates MANIFEST.json from vcheck/table.py (single source of truth)."""
import json, os, sys
HERE = os.path.dirname(os.path.dirname(os.path.abspath(__file__)))
sys.path.insert(0, HERE)
from vcheck.table import PROPS
props = [json.loads(l) for l in open(os.path.join(HERE, 'properties.jsonl'))]
checks, na = [], []
for p in props:
    pid = p['id']
    info = PROPS.get(pid)
    if info is None or info.get('not_applicable'):
        na.append(dict(property_id=pid, reason=(info or {}).get('not_applicable', 'no check built yet for this property in this round (see DESIGN.md section 7 for the plan)')))
        continue
    checks.append(dict(
        property_id=pid,
        quick_cmd='./check %s quick' % pid,
        thorough_cmd='./check %s thorough' % pid,
        evidence_file='evidence/%s.json' % pid,
        replay_cmd_template='./check %s --replay {path}' % pid,
        engine='sedvc+rtc',
        level_claimed=dict(category=info['level'], text=info['explanation'], design_ref='DESIGN.md section 7 (%s)' % pid),
        level_note='; '.join(info.get('assumptions', [])),
        technique=info.get('technique', 'contract-based deductive verification: sidecar contracts on the real functions, verification conditions '
                           'generated from the repository AST on every run and discharged by z3 (unbounded); bounded run-time contract checks as labelled stand-in'),
    ))
m = dict(
    version=1,
    setup_cmd='./tools/setup_venv.sh',
    hooks=dict(guard='SEDFITTER_VERIF', enable='none needed: contracts are sidecar files under /verif/contracts, the repository is read, never instrumented',
               baseline_off_cmd='cd /repo && /venv/bin/python -m pytest -ra -q -p no:cacheprovider --timeout=900 --continue-on-collection-errors',
               source_commits=[], add_only=True),
    engines=[dict(name='sedvc', path='sedvc/', serves_properties=sorted(PROPS), kind_free_text='VC generator: symbolic execution of the real Python AST against sidecar contracts; z3 (CLI, hard timeouts) incl. nlsat on a real relaxation; Lean lemma base'),
             dict(name='rtc', path='rtc/', serves_properties=sorted(PROPS), kind_free_text='bounded stand-in: enumeration / seeded random runs of the real code against independent oracles; native replay')],
    checks=checks,
    not_applicable=na,
    notes='Exit 0 held / 1 VIOLATION / 3 checker fault; undecided obligations are printed as UNDECIDED and never reported as violations. Seed via VERIF_SEED.',
)
json.dump(m, open(os.path.join(HERE, 'MANIFEST.json'), 'w'), indent=1)
print(len(checks), 'checks;', len(na), 'not applicable')
