"""Contracts for FitInfoFile (sedfitter/fit_info.py), filter_output and the main loop of fit()
(C10, C18, C19)."""
from sedvc import files
from sedvc.contractlib import Contract, contract, Ctx
from sedvc.loops import EventLoop
from sedvc.sym import Sc, compare, band, bor, bnot, implies, ite, arith, fresh_int, fresh_bool
from sedvc.values import Opaque, ObjRef, Quantity
from .fit_info import make_fitinfo, FITINFO, META
from .source import make_source, source_arrays, SOURCE

FIF = 'sedfitter.fit_info.FitInfoFile'


def make_meta(c):
    return c.obj(META, model_dir='models_dir', filters=c.list([]), extinction_law=c.obj('sedfitter.extinction.extinction.Extinction', _wav=None, _chi=None))


def is_frame(v, fh, k=None):
    return isinstance(v, Opaque) and v.tag == 'frame' and v.info[0] == fh.addr and (k is None or v.info[1] is k or (not isinstance(v.info[1], Sc) and v.info[1] == k))


@contract
class FifInit(Contract):
    """FitInfoFile(fits, mode): a file name opens the file (read: the three metadata frames are read
    first), a FitInfo object or a list/tuple of them is kept in memory.  Every branch defines every
    attribute the other methods read."""
    name = FIF + '.__init__'
    properties = ('C10', 'C09', 'C18', 'C19')
    variants = ('str/r', 'str/w', 'object', 'list')
    modifies = ('self',)

    def setup(self, c, variant):
        self_ = c.obj(FIF)
        if variant.startswith('str'):
            return dict(self=self_, fits='out.fitinfo', mode=variant[-1])
        M, N = c.int('M'), c.int('N')
        c.assume([M >= 0, N >= 0])
        meta = make_meta(c)
        a = make_fitinfo(c, M, N, prefix='fa')
        c.set_attr(a, 'meta', meta)
        if variant == 'object':
            return dict(self=self_, fits=a, mode='r')
        b = make_fitinfo(c, M, N, prefix='fb')
        c.set_attr(b, 'meta', meta)
        return dict(self=self_, fits=c.list([a, b]), mode='r')

    def raises(self, c, a):
        if isinstance(a.fits, str) and a.mode == 'r':
            # a file that ends inside the three metadata frames: an error, never an object
            return {'EOFError': ('may', True), 'UnpicklingError': ('may', True)}
        return {}

    def ensures(self, c, a, result, old):
        s = a.self
        out = {'fits_defined': c.has_attr(s, '_fits')}
        if isinstance(a.fits, str):
            h = c.attr(s, '_handle')
            out['handle'] = isinstance(h, ObjRef) and c.cls(h) == files.FILE and c.attr(h, 'mode') == a.mode + 'b'
            out['in_file_mode'] = c.attr(s, '_fits') is None and c.attr(s, '_mode') == a.mode
            if a.mode == 'r':
                m = c.attr(s, '_first_meta')
                out['metadata_are_the_first_three_frames'] = (isinstance(m, ObjRef) and is_frame(c.attr(m, 'model_dir'), h, 0) and is_frame(c.attr(m, 'filters'), h, 1)
                                                              and is_frame(c.attr(m, 'extinction_law'), h, 2))
                out['positioned_after_metadata'] = compare('==', c.attr(h, 'pos'), 3)
            else:
                out['no_metadata_yet'] = c.attr(s, '_first_meta') is None
                out['file_starts_empty'] = compare('==', c.attr(h, 'written'), 0)
        else:
            f = c.attr(s, '_fits')
            from sedvc.values import ListRef
            items = c.st.heap[f.addr].items if isinstance(f, ListRef) else None
            exp = [a.fits] if isinstance(a.fits, ObjRef) else c.st.heap[a.fits.addr].items
            out['fits_are_the_given_results'] = items is not None and len(items) == len(exp) and all(x.addr == y.addr for x, y in zip(items, exp))
        return out


@contract
class FifWrite(Contract):
    """write(info): the first record is preceded by the three metadata frames (once); every record
    is one frame holding that very object; metadata of later records must equal the first."""
    name = FIF + '.write'
    properties = ('C10', 'C18', 'C19')
    variants = ('first', 'later')
    modifies = ('self._first_meta', 'self._handle')

    def setup(self, c, variant):
        M, N = c.int('M'), c.int('N')
        c.assume([M >= 0, N >= 0])
        info = make_fitinfo(c, M, N)
        meta = make_meta(c)
        c.set_attr(info, 'meta', meta)
        h = files.open_file(c.st, 'out', 'wb')
        if variant == 'later':
            k = c.int('already_written')
            c.assume(k >= 4)
            c.set_attr(h, 'written', k)
        s = c.obj(FIF, _handle=h, _mode='w', _first_meta=None if variant == 'first' else meta, _fits=None)
        return dict(self=s, info=info)

    def requires(self, c, a):
        return {'open_for_writing': c.attr(a.self, '_mode') == 'w'}

    def havoc(self, c, a):
        h = c.attr(a.self, '_handle')
        first = c.attr(a.self, '_first_meta') is None
        m = c.attr(a.info, 'meta')
        log = c.attr(h, 'log')
        if first:
            log = log + (c.attr(m, 'model_dir'), c.attr(m, 'filters'), c.attr(m, 'extinction_law'))
            c.set_attr(a.self, '_first_meta', m)
        c.set_attr(h, 'log', log + (a.info,))
        c.set_attr(h, 'written', arith('+', c.attr(h, 'written'), 4 if first else 1))
        c.st.events.append(('dump', h.addr, a.info))

    def ensures(self, c, a, result, old):
        h = c.attr(a.self, '_handle')
        first = old.attr(a.self, '_first_meta') is None
        new = c.attr(h, 'log')[len(old.attr(h, 'log')):]
        m = c.attr(a.info, 'meta')
        out = {'record_is_one_frame_holding_the_object': len(new) >= 1 and isinstance(new[-1], ObjRef) and new[-1].addr == a.info.addr,
               'frames_appended': compare('==', c.attr(h, 'written'), arith('+', old.attr(h, 'written'), 4 if first else 1))}
        if first:
            out['metadata_once_before_first_record'] = (len(new) == 4 and new[0] == c.attr(m, 'model_dir') and getattr(new[1], 'addr', None) == c.attr(m, 'filters').addr
                                                        and getattr(new[2], 'addr', None) == c.attr(m, 'extinction_law').addr)
            out['first_meta_remembered'] = getattr(c.attr(a.self, '_first_meta'), 'addr', None) == m.addr
        else:
            out['no_metadata_again'] = len(new) == 1
        return out


def _iter_check(c, paths):
    """One iteration of the reading loop, started at an arbitrary position p >= 3 of the file."""
    obs = []
    s0 = c.st
    self_ = s0.env['self']
    h = s0.heap[self_.addr].attrs['_handle']
    p0 = s0.heap[h.addr].attrs['pos']
    n = s0.heap[h.addr].attrs['n']
    tail = s0.heap[h.addr].attrs['tail']
    for s, ev, status in paths:
        ys = [e for e in ev if e[0] == 'yield']
        if status in ('run', 'continue'):
            ok = len(ys) == 1 and is_frame(ys[0][1], h) and ys[0][1].info[1] is p0
            obs.append((s, 'yields_exactly_the_next_complete_frame', ok))
            obs.append((s, 'only_complete_frames_are_yielded', compare('<', p0, n)))
            obs.append((s, 'position_advances_by_one', compare('==', s.heap[h.addr].attrs['pos'], arith('+', p0, 1))))
        elif status == 'return':
            obs.append((s, 'stops_without_yielding', len(ys) == 0))
            obs.append((s, 'stops_only_at_end_of_complete_frames', compare('>=', p0, n)))
        elif status == 'raise':
            obs.append((s, 'error_without_yielding', len(ys) == 0))
            obs.append((s, 'error_only_for_a_truncated_frame', band(compare('>=', p0, n), tail)))
        else:
            obs.append((s, 'unexpected_exit(%s)' % status, False))
    return obs


def _iter_havoc(c):
    self_ = c.st.env['self']
    h = c.st.heap[self_.addr].attrs['_handle']
    p = Sc(fresh_int('pos'))
    c.set_attr(h, 'pos', p)


def _iter_inv(c):
    self_ = c.st.env['self']
    h = c.st.heap[self_.addr].attrs['_handle']
    return {'position_after_metadata': compare('>=', c.attr(h, 'pos'), 3)}


@contract
class FifIterFile(Contract):
    """Iterating a file opened for reading yields the complete frames after the metadata, in order,
    each exactly once, and then stops; an incomplete last frame gives an error (EOFError, in which
    case the iteration just stops, or UnpicklingError, which propagates) and is never yielded."""
    name = FIF + '.__iter__'
    properties = ('C19', 'C10')
    variants = ('file', 'memory')
    loops = {('file', 1): EventLoop('read-loop', _iter_check, havoc=_iter_havoc, invariant=_iter_inv)}
    modifies = ('self._handle.pos',)

    def setup(self, c, variant):
        if variant == 'file':
            n = c.int('n_frames')
            c.assume(n >= 3)
            h = files.given_file(c.st, 'out', 'rb', n, c.bool('partial_frame_follows'))
            c.set_attr(h, 'pos', 3)
            return dict(self=c.obj(FIF, _handle=h, _mode='r', _first_meta=make_meta(c), _fits=None))
        M, N = c.int('M'), c.int('N')
        c.assume([M >= 0, N >= 0])
        meta = make_meta(c)
        xs = []
        for k in range(2):
            f = make_fitinfo(c, M, N, prefix='f%d' % k)
            c.set_attr(f, 'meta', meta)
            xs.append(f)
        return dict(self=c.obj(FIF, _fits=c.list(xs)))

    def raises(self, c, a):
        if c.attr(a.self, '_fits') is not None:
            return {}
        h = c.attr(a.self, '_handle')
        return {'UnpicklingError': ('may', c.attr(h, 'tail'))}        # only when an incomplete frame follows (see the loop obligations)

    def ensures(self, c, a, result, old):
        if old.attr(a.self, '_fits') is None:
            return {}
        # in-memory results: one item per given result, equal field by field, but NOT the caller's object
        given = old.st.heap[old.attr(a.self, '_fits').addr].items
        ys = [e[1] for e in c.st.events if e[0] == 'yield']
        ok = len(ys) == len(given)
        fields = True
        alias = False
        for y, g in zip(ys, given):
            if not isinstance(y, ObjRef):
                ok = False
                continue
            if y.addr == g.addr:
                alias = True
            for nm in ('source', 'av', 'sc', 'chi2', 'model_id', 'model_name', 'model_fluxes', 'meta'):
                x1, x2 = c.attr(y, nm), old.attr(g, nm)
                same = (x1 is x2) or (getattr(x1, 'addr', 0) == getattr(x2, 'addr', 1))
                fields = fields and same
        return {'one_item_per_result_in_order': ok, 'items_equal_the_results': fields, 'items_are_not_the_callers_objects': not alias}


# --- call-site behaviour of the constructor -------------------------------------------------------

def _fif_havoc(self, c, a):
    s = a.self
    if isinstance(a.fits, str) or isinstance(a.fits, Opaque):
        h = files.open_file(c.st, a.fits, a.mode + 'b')
        c.set_attr(s, '_handle', h)
        c.set_attr(s, '_mode', a.mode)
        c.set_attr(s, '_fits', None)
        if a.mode == 'r':
            c.assume(compare('>=', c.attr(h, 'n'), 3))
            c.set_attr(h, 'pos', 3)
            c.set_attr(s, '_first_meta', c.obj(META, model_dir=Opaque('frame', (h.addr, 0)), filters=Opaque('frame', (h.addr, 1)),
                                               extinction_law=Opaque('frame', (h.addr, 2))))
        else:
            c.set_attr(s, '_first_meta', None)
    elif isinstance(a.fits, ObjRef):
        c.set_attr(s, '_fits', c.list([a.fits]))
    else:
        c.set_attr(s, '_fits', a.fits)


FifInit.havoc = _fif_havoc

FO = 'sedfitter.filter_output.filter_output'


def writer_state_cases(*names):
    """Loop-carried state of FitInfoFile writers held in local variables `names`: each has either written nothing
    yet (_first_meta None) or some records (then _first_meta is the metadata of the first one); the handle has
    an arbitrary number of frames so far.  Returns the list of alternative havoc functions (2^len(names) cases)."""
    import itertools

    def make(pattern):
        def hv(c):
            for nm, started in zip(names, pattern):
                w = c.st.env[nm]
                h = c.attr(w, '_handle')
                k = Sc(fresh_int('frames_so_far'))
                c.assume(k >= (4 if started else 0))
                c.set_attr(h, 'written', k)
                c.set_attr(h, 'log', (Opaque('earlier frames', nm),))
                c.set_attr(w, '_first_meta', make_meta(c) if started else None)
        return hv
    return [make(p) for p in itertools.product((False, True), repeat=len(names))]


def _new_record(c, it):
    """An arbitrary record yielded by the input (at least one fit, at least one fitted point)."""
    M, N = Sc(fresh_int('rec_fits')), Sc(fresh_int('rec_filters'))
    c.assume([M >= 1, N >= 0])
    info = make_fitinfo(c, M, N, prefix='rec%d' % len(c.st.heap))
    v, f, e = source_arrays(c, c.attr(info, 'source'))
    c.assume(c.Sum(v.n, lambda j: ite(bor(v[j] == 1, v[j] == 4), 1, 0), opaque=True) >= 1)      # n_data >= 1 (property quantifier)
    return info


def _fo_check(c, paths):
    obs = []
    env = c.st.env
    chi, cpd = env.get('chi'), env.get('cpd')
    good, bad = env['fout_good'], env['fout_bad']
    info = None
    for s, ev, status in paths:
        info = s.env.get('info')
        writes = [e for e in ev if e[0] == 'call' and e[1] == FIF + '.write']
        obs.append((s, 'exactly_one_write_per_record', status in ('run', 'continue') and len(writes) == 1))
        if len(writes) != 1:
            continue
        w = writes[0][2]
        obs.append((s, 'the_record_itself_is_written', isinstance(w['info'], ObjRef) and w['info'].addr == info.addr))
        # unchanged: same heap cell as at the start of the iteration
        obs.append((s, 'record_unmodified', s.heap[info.addr] is c.st.heap.get(info.addr, s.heap[info.addr]) or
                    all(_same(s.heap[info.addr].attrs[k], v) for k, v in _entry_attrs(c, s, info).items())))
        tgt = w['self']
        is_good = tgt.addr == good.addr
        obs.append((s, 'written_to_one_of_the_two_outputs', tgt.addr in (good.addr, bad.addr)))
        sc = Ctx(c.interp, s, c.fr)
        chi2 = sc.A(sc.attr(info, 'chi2'))
        v, f, e = source_arrays(sc, sc.attr(info, 'source'))
        nd = sc.Sum(v.n, lambda j: ite(bor(v[j] == 1, v[j] == 4), 1, 0), opaque=True)
        if chi is not None:
            q, thr = chi2[0], chi
        else:
            q, thr = chi2[0] / nd, cpd
        # below the threshold -> good, above -> bad (equality is left open, as the quantifier does)
        obs.append((s, 'criterion', (q <= thr) if is_good else (q >= thr)))
    return obs


def _entry_attrs(c, s, info):
    return {}


def _same(a, b):
    return a is b


@contract
class FilterOutput(Contract):
    """filter_output: every record of the input is written, unchanged, to exactly one of the two
    output files: 'good' if its best chi^2 (chi=) / best chi^2 per fitted point (cpd=) is below the
    threshold, 'bad' if above; automatic names are input + '_good' / '_bad'; a non-file input
    without explicit names is refused."""
    name = FO
    properties = ('C18',)
    variants = ('chi/auto', 'cpd/explicit', 'object/no-names', 'chi/good-explicit', 'cpd/bad-explicit')
    loops = {1: EventLoop('records', _fo_check, item=_new_record, havoc=writer_state_cases('fout_good', 'fout_bad'))}

    def setup(self, c, variant):
        if variant == 'chi/auto':
            return dict(input_fits='in.fitinfo', output_good='auto', output_bad='auto', chi=c.real('chi'), cpd=None)
        if variant == 'cpd/explicit':
            return dict(input_fits='in.fitinfo', output_good='G', output_bad='B', chi=None, cpd=c.real('cpd'))
        # one name given, the other left automatic
        if variant == 'chi/good-explicit':
            return dict(input_fits='in.fitinfo', output_good='G', output_bad='auto', chi=c.real('chi'), cpd=None)
        if variant == 'cpd/bad-explicit':
            return dict(input_fits='in.fitinfo', output_good='auto', output_bad='B', chi=None, cpd=c.real('cpd'))
        M, N = c.int('M'), c.int('N')
        c.assume([M >= 1, N >= 0])
        f = make_fitinfo(c, M, N)
        return dict(input_fits=f, output_good='auto', output_bad='G', chi=c.real('chi'), cpd=None)

    def requires(self, c, a):
        thr = a.chi if a.chi is not None else a.cpd
        return {'threshold_nonzero': bnot(thr == 0)}     # a zero threshold is 'not given' to the code

    def raises(self, c, a):
        r = {'ValueError': (not isinstance(a.input_fits, str)) and (a.output_good == 'auto' or a.output_bad == 'auto')}
        if isinstance(a.input_fits, str):
            # an input file that ends inside its metadata cannot be opened: an error from the reader
            r['EOFError'] = ('may', True)
            r['UnpicklingError'] = ('may', True)
        return r

    def ensures(self, c, a, result, old):
        opened = [e for e in c.st.events if e[0] == 'call' and e[1] == FIF + '.__init__']
        names = [(e[2]['fits'], e[2]['mode']) for e in opened]
        exp_good = a.input_fits + '_good' if a.output_good == 'auto' else a.output_good
        exp_bad = a.input_fits + '_bad' if a.output_bad == 'auto' else a.output_bad
        return {'output_names': (exp_good, 'w') in names and (exp_bad, 'w') in names and (a.input_fits, 'r') in names}
