"""Contracts for sedfitter/sed/cube.py: BaseCube.read (C12) and SEDCube.get_sed (C12, C07)."""
from sedvc import units
from sedvc.contractlib import Contract, contract
from sedvc.sym import Sc, compare, band, bor, bnot, implies, ite, arith
from sedvc.values import Quantity, Opaque
from .fitsmodel import hdu, hdulist

CUBE = 'sedfitter.sed.cube.'
U = units.BASE


@contract
class CubeRead(Contract):
    """SEDCube.read(filename, order): wavelengths, values and uncertainties come back either as stored
    or reversed along the spectral axis -- all three together -- so that the requested order holds;
    every (model, aperture, wavelength) cell keeps its value; names, validity and apertures untouched."""
    name = CUBE + 'BaseCube.read'
    properties = ('C12',)
    variants = ('nu/unc/ap', 'wav/unc/ap', 'nu/nounc/noap', 'wav/nounc/ap', 'nu/unc/ap/Jy')

    def setup(self, c, variant):
        from sedvc.interp import ClassVal
        order, unc, ap = variant.split('/')[:3]
        bunit = U['Jy'] if variant.endswith('/Jy') else U['mJy']       # the unit the cube is stored in (BUNIT)
        M, A, W = c.int('n_models'), c.int('n_ap'), c.int('n_wav')
        c.assume([M >= 1, A >= 1, W >= 2])
        if ap == 'noap':
            A = 1
        self.file = f = dict(wav=c.array('file_wav', (W,)), ap=c.array('file_ap', (A,)) if ap == 'ap' else None,
                             val=c.array('file_val', (M, A, W)), unc=c.array('file_unc', (M, A, W)) if unc == 'unc' else None,
                             names=c.array('file_names', (M,), kind='int'), valid=c.array('file_valid', (M,), kind='int'),
                             dist=c.real('file_dist_cm'), bunit=bunit)
        names = {'MODEL_NAMES': hdu(c, fields={'MODEL_NAME': f['names']}, units=[None]),
                 'SPECTRAL_INFO': hdu(c, fields={'WAVELENGTH': f['wav']}, units=[U['micron'], U['Hz']]),
                 'VALUES': hdu(c, header={'BUNIT': bunit}, data=f['val'])}
        if f['ap'] is not None:
            names['APERTURES'] = hdu(c, fields={'APERTURE': f['ap']}, units=[U['au']])
        if f['unc'] is not None:
            names['UNCERTAINTIES'] = hdu(c, header={'BUNIT': bunit}, data=f['unc'])
        h0 = hdu(c, header={'DISTANCE': f['dist']}, data=f['valid'])
        hl = hdulist(c, [h0], names=names)
        c.interp.ext['astropy.io.fits.open'] = lambda interp, st, fr, args, kw: hl
        ci = c.interp.repo.find_class(CUBE + 'SEDCube')
        return dict(cls=ClassVal(ci), filename='flux.fits', order=order)

    def _file(self, c, a):
        """Content of the cube file: the set-up's while verifying read itself; at a call site the content declared
        by the caller's contract (`interp.package_cube`) or fresh symbolic content."""
        if hasattr(self, 'file'):
            return self.file
        f = getattr(c.interp, 'package_cube', None)
        if f is None:
            M, A, W = c.int('cube_n_models'), c.int('cube_n_ap'), c.int('cube_n_wav')
            c.assume([M >= 1, A >= 1, W >= 2])
            f = dict(wav=c.array('cube_wav', (W,)), ap=c.array('cube_ap', (A,)), val=c.array('cube_val', (M, A, W)), unc=c.array('cube_unc', (M, A, W)),
                     names=c.array('cube_names', (M,), kind='int'), valid=c.array('cube_valid', (M,), kind='int'), dist=c.real('cube_dist_cm'))
            c.interp.package_cube = f
        return f

    def result(self, c, a):
        f = self._file(c, a)
        M, W = c.A(f['names']).n, c.A(f['wav']).n
        A = c.A(f['val']).shape[1]
        bunit = f.get('bunit', U['mJy'])
        attrs = dict(_valid=None, _names=f['names'], _distance=Quantity(f['dist'], U['cm']), _nu=None,
                     _wav=Quantity(c.fresh_array('cube_r_wav', (W,)), U['micron']),
                     _apertures=Quantity(f['ap'], U['au']) if f['ap'] is not None else None,
                     _val=Quantity(c.fresh_array('cube_r_val', (M, A, W)), bunit),
                     _unc=Quantity(c.fresh_array('cube_r_unc', (M, A, W)), bunit) if f['unc'] is not None else None)
        return c.obj(CUBE + 'SEDCube', **attrs)

    def requires(self, c, a):
        f = self._file(c, a)
        wav = c.A(f['wav'])
        return {'positive': [c.forall(wav.n, lambda k: wav[k] > 0, 'wav>0'), f['dist'] > 0]}

    def ensures(self, c, a, result, old):
        f = self._file(c, a)
        wav = c.A(f['wav'])
        n = wav.n
        r_wav = c.attr(result, '_wav')
        RW = c.A(r_wav)
        # order='nu' asks for increasing frequency = decreasing wavelength
        rev = (wav[0] < wav[n - 1]) if a.order == 'nu' else (wav[0] > wav[n - 1])
        src = lambda k: ite(rev, n - 1 - k, k)
        out = {'axis_length': compare('==', RW.n, n),
               'wavelengths': c.forall(n, lambda k: RW[k] * r_wav.unit.scale == wav[src(k)] * U['micron'].scale, 'wav'),
               'requested_order': (RW[0] >= RW[n - 1]) if a.order == 'nu' else (RW[0] <= RW[n - 1]),
               }
        # the frequencies a consumer sees (the `nu` property: derived from the wavelengths unless stored)
        r_nu = c.attr(result, '_nu')
        if r_nu is None:
            out['frequencies_match_wavelengths'] = True
        else:
            RN = c.A(r_nu)
            from sedvc.units import C_SI
            out['frequencies_match_wavelengths'] = [compare('==', RN.n, n),
                                                    c.forall(n, lambda k: RN[k] * r_nu.unit.scale * (RW[k] * r_wav.unit.scale) == Sc(C_SI), 'nu*wav=c')]
        for nm, key in (('_val', 'val'), ('_unc', 'unc')):
            q = c.attr(result, nm)
            if f[key] is None:
                out['absent(%s)' % nm] = q is None
                continue
            if q is None:
                out['present(%s)' % nm] = False
                continue
            T, G = c.A(f[key]), c.A(q)
            out['cells(%s)' % nm] = [compare('==', G.shape[0], T.shape[0]), compare('==', G.shape[1], T.shape[1]), compare('==', G.shape[2], n),
                                     c.forall([T.shape[0], T.shape[1], n], (lambda G, T, q: lambda m, i, k: G[m, i, k] * q.unit.scale == T[m, i, src(k)] * f.get('bunit', U['mJy']).scale)(G, T, q), 'cells'),
                                     # (and in the unit it is stored in: consumers that work on bare values rely on it)
                                     q.unit.scale == f.get('bunit', U['mJy']).scale]
        nm_ = c.A(c.attr(result, '_names'))
        FN = c.A(f['names'])
        out['names'] = [compare('==', nm_.n, FN.n), c.forall(FN.n, lambda m: nm_[m] == FN[m], 'names')]
        ap = c.attr(result, '_apertures')
        if f['ap'] is None:
            out['apertures'] = ap is None
        else:
            FA, RA = c.A(f['ap']), c.A(ap)
            out['apertures'] = [compare('==', RA.n, FA.n), c.forall(FA.n, lambda i: RA[i] * ap.unit.scale == FA[i] * U['au'].scale, 'ap')]
        return out


def make_cube(c, unc=True, ap=True, prefix='cube'):
    M, W = c.int(prefix + '_n_models'), c.int(prefix + '_n_wav')
    A = c.int(prefix + '_n_ap') if ap else 1
    c.assume([M >= 1, A >= 1, W >= 1])
    dist = c.real(prefix + '_dist')
    # object invariant: `_distance` is only ever stored by the validating setter (validate_scalar, 'positive': >= 0)
    c.assume(dist >= 0)
    attrs = dict(_valid=None, _names=c.array(prefix + '_names', (M,), kind='int'),
                 _distance=Quantity(dist, U['kpc']),
                 _wav=Quantity(c.array(prefix + '_wav', (W,)), U['micron']), _nu=None,
                 _apertures=Quantity(c.array(prefix + '_ap', (A,)), U['au']) if ap else None,
                 _val=Quantity(c.array(prefix + '_val', (M, A, W)), U['mJy']),
                 _unc=Quantity(c.array(prefix + '_unc', (M, A, W)), U['mJy']) if unc else None)
    return c.obj(CUBE + 'SEDCube', **attrs)


@contract
class CubeGetSed(Contract):
    """SEDCube.get_sed(name): the SED of the FIRST cube row carrying that name -- its fluxes and
    uncertainties cell for cell, on the cube's own wavelength grid and apertures; ValueError when
    no row has the name.  The cube itself is not modified."""
    name = CUBE + 'SEDCube.get_sed'
    properties = ('C12', 'C07')
    variants = ('unc/ap', 'nounc/noap')
    modifies = ()

    def setup(self, c, variant):
        unc, ap = variant.split('/')
        return dict(self=make_cube(c, unc == 'unc', ap == 'ap'), model_name=c.int('wanted_name'))

    def requires(self, c, a):
        wav = c.A(c.attr(a.self, '_wav'))
        return {'positive': c.forall(wav.n, lambda k: wav[k] > 0, 'wav>0')}

    def raises(self, c, a):
        names = c.A(c.attr(a.self, '_names'))
        return {'ValueError': bnot(c.Any(names.n, lambda m: names[m] == a.model_name))}

    def result(self, c, a):
        # at a call site: a fresh SED related to the cube by `ensures`
        from sedvc.sym import fresh_name
        cube = a.self
        vq = c.attr(cube, '_val')
        M, A, W = c.A(vq).shape
        tag = fresh_name('cubesed')
        uq = c.attr(cube, '_unc')
        return c.obj('sedfitter.sed.sed.SED', name=a.model_name, distance=c.attr(cube, '_distance'), _wav=c.attr(cube, '_wav'), _nu=None,
                     _apertures=c.attr(cube, '_apertures'), _flux=Quantity(c.fresh_array(tag + '_flux', (A, W)), vq.unit),
                     _error=Quantity(c.fresh_array(tag + '_err', (A, W)), uq.unit) if uq is not None else None)

    def ensures(self, c, a, result, old):
        names = c.A(c.attr(a.self, '_names'))
        wav, V = c.A(c.attr(a.self, '_wav')), c.A(c.attr(a.self, '_val'))
        rw, rf = c.A(c.attr(result, '_wav')), c.A(c.attr(result, '_flux'))
        # existential witness: the row the SED was taken from (the implementation's `sed_index`)
        r = c.witness_scalar('sed_index')
        match = lambda m: names[m] == a.model_name
        out = {'row_is_first_match': [r >= 0, r < names.n, match(r), c.forall(names.n, lambda j: implies(j < r, bnot(match(j))), 'first')],
               'grid': [compare('==', rw.n, wav.n), c.forall(wav.n, lambda k: rw[k] == wav[k], 'wav')],
               'flux_shape': [compare('==', rf.shape[0], V.shape[1]), compare('==', rf.shape[1], V.shape[2])],
               'flux_cells': c.forall([V.shape[1], V.shape[2]], lambda i, k: rf[i, k] == V[r, i, k], 'cells')}
        unc = c.attr(a.self, '_unc')
        re_ = c.attr(result, '_error')
        if unc is None:
            out['no_error'] = re_ is None
        else:
            E, RE = c.A(unc), c.A(re_)
            out['error_cells'] = [compare('==', RE.shape[0], E.shape[1]), compare('==', RE.shape[1], E.shape[2]),
                                  c.forall([E.shape[1], E.shape[2]], lambda i, k: RE[i, k] == E[r, i, k], 'cells')]
        ap = c.attr(a.self, '_apertures')
        rap = c.attr(result, '_apertures')
        if ap is None:
            out['apertures'] = rap is None
        else:
            P, RP = c.A(ap), c.A(rap)
            out['apertures'] = [compare('==', RP.n, P.n), c.forall(P.n, lambda i: RP[i] == P[i], 'ap')]
        return out


@contract
class TableToHdu(Contract):
    name = 'sedfitter.sed.helpers.table_to_hdu'
    trusted = 'assumed (astropy Table -> BinTableHDU): the HDU holds the table\'s columns with their units'

    def result(self, c, a):
        from sedvc.extmodels import _new_hdu
        return _new_hdu(c.st, a.table)


@contract
class CubeWrite(Contract):
    """SEDCube.write(filename): the file gets, under the documented extension names, the validity flags, the
    distance in cm, the model names, the wavelengths and the frequencies derived from them, the apertures (if
    any), the values and (if any) the uncertainties with their units -- element for element, in the cube's own
    order (no re-ordering on write); the cube is not modified."""
    name = CUBE + 'BaseCube.write'
    properties = ('C12',)
    variants = ('unc/ap', 'nounc/noap')
    modifies = ()

    def setup(self, c, variant):
        unc, ap = variant.split('/')
        return dict(self=make_cube(c, unc == 'unc', ap == 'ap'), filename='flux.fits', overwrite=False, meta=c.dict({}))

    def requires(self, c, a):
        wav = c.A(c.attr(a.self, '_wav'))
        return {'positive': c.forall(wav.n, lambda k: wav[k] > 0, 'wav>0')}

    def ensures(self, c, a, result, old):
        from sedvc.extmodels import is_table
        from sedvc.units import C_SI
        ev = [e for e in c.st.events if e[0] == 'fits.writeto']
        out = {'written_once_to_the_named_file': len(ev) == 1 and ev[0][1] == 'flux.fits'}
        if not out['written_once_to_the_named_file']:
            return out
        hdus = ev[0][2]
        by_name = dict((c.attr(h, 'name'), h) for h in hdus[1:])
        has_unc, has_ap = c.attr(a.self, '_unc') is not None, c.attr(a.self, '_apertures') is not None
        want = ['MODEL_NAMES', 'SPECTRAL_INFO'] + (['APERTURES'] if has_ap else []) + ['VALUES'] + (['UNCERTAINTIES'] if has_unc else [])
        out['extensions_in_the_documented_order'] = [c.attr(h, 'name') for h in hdus[1:]] == want
        if not out['extensions_in_the_documented_order']:
            return out

        def cols(h):
            d = c.attr(h, 'data')
            return c.st.heap[d.addr].attrs['@cols'] if is_table(c.st, d) else {}
        hdr0 = c.st.heap[c.attr(hdus[0], 'header').addr].items
        dist = c.attr(a.self, '_distance')
        dv = hdr0.get('distance')
        dv = dv[0] if isinstance(dv, tuple) else dv
        out['distance_in_cm'] = compare('==', dv * U['cm'].scale, dist.value * dist.unit.scale)
        names = c.A(c.attr(a.self, '_names'))
        SN = c.A(cols(by_name['MODEL_NAMES'])['MODEL_NAME'])
        out['model_names'] = [compare('==', SN.n, names.n), c.forall(names.n, lambda m: SN[m] == names[m], 'names')]
        wq = c.attr(a.self, '_wav')
        W = c.A(wq)
        sc = cols(by_name['SPECTRAL_INFO'])
        sw, sn = sc['WAVELENGTH'], sc['FREQUENCY']
        SW, SNU = c.A(sw), c.A(sn)
        out['wavelengths_and_frequencies'] = [compare('==', SW.n, W.n), c.forall(W.n, lambda k: SW[k] * sw.unit.scale == W[k] * wq.unit.scale, 'wav'),
                                              c.forall(W.n, lambda k: SNU[k] * sn.unit.scale * (W[k] * wq.unit.scale) == Sc(C_SI), 'nu*wav=c')]
        if has_ap:
            aq = c.attr(a.self, '_apertures')
            sa = cols(by_name['APERTURES'])['APERTURE']
            SA, AP = c.A(sa), c.A(aq)
            out['apertures'] = [compare('==', SA.n, AP.n), c.forall(AP.n, lambda i: SA[i] * sa.unit.scale == AP[i] * aq.unit.scale, 'ap')]
        for nm, attr in (('VALUES', '_val'),) + ((('UNCERTAINTIES', '_unc'),) if has_unc else ()):
            q = c.attr(a.self, attr)
            h = by_name[nm]
            D, V = c.A(c.attr(h, 'data')), c.A(q)
            hdr = c.st.heap[c.attr(h, 'header').addr].items
            bu = hdr.get('BUNIT')
            out['%s_cell_for_cell_with_unit' % nm.lower()] = [isinstance(bu, Opaque) and bu.tag == 'unitstr' and bu.info is q.unit,
                                                              compare('==', D.shape[0], V.shape[0]), compare('==', D.shape[1], V.shape[1]), compare('==', D.shape[2], V.shape[2]),
                                                              c.forall(list(V.shape), (lambda D, V: lambda m, i, k: D[m, i, k] == V[m, i, k])(D, V), 'cells')]
        return out


MONOF = 'sedfitter.convolved_fluxes.convolved_fluxes.MonochromaticFluxes'


@contract
class FromSedCube(Contract):
    """MonochromaticFluxes.from_sed_cube(cube, k): the slice of the cube at wavelength index k -- flux[m, a] =
    val[m, a, k], error[m, a] = unc[m, a, k] -- with the cube's model names and apertures and the wavelength
    cube.wav[k] as central wavelength; the cube is not modified."""
    name = MONOF + '.from_sed_cube'
    properties = ('C16', 'C07')
    variants = ('cube',)
    modifies = ()

    def setup(self, c, variant):
        from sedvc.interp import ClassVal
        cube = make_cube(c, True, True)
        W = c.A(c.attr(cube, '_wav')).n
        k = c.int('wavelength_index')
        c.assume([k >= 0, k < W])
        return dict(cls=ClassVal(c.interp.repo.find_class(MONOF)), cube=cube, wavelength_index=k)

    def requires(self, c, a):
        W = c.A(c.attr(a.cube, '_wav')).n
        # (validate_array ignores its `domain` argument, so a cube may hold a non-positive wavelength; the fluxes object's
        # central_wavelength setter does check: ValueError then.  Stated as a precondition on the data.)
        return {'index_in_range': band(a.wavelength_index >= 0, a.wavelength_index < W),
                'that_wavelength_is_positive': c.A(c.attr(a.cube, '_wav'))[a.wavelength_index] > 0}

    def result(self, c, a):
        cube = a.cube
        M, A, W = c.A(c.attr(cube, '_val')).shape
        vq = c.attr(cube, '_val')
        from sedvc.sym import fresh_name
        tag = fresh_name('mono')
        return c.obj(MONOF, _model_names=c.attr(cube, '_names'), _apertures=c.attr(cube, '_apertures'),
                     _wavelength=Quantity(c.real(tag + '_cw'), c.attr(cube, '_wav').unit),
                     _flux=Quantity(c.fresh_array(tag + '_flux', (M, A)), vq.unit), _error=Quantity(c.fresh_array(tag + '_err', (M, A)), vq.unit))

    def ensures(self, c, a, result, old):
        cube, k = a.cube, a.wavelength_index
        vq, uq, wq = c.attr(cube, '_val'), c.attr(cube, '_unc'), c.attr(cube, '_wav')
        V, E, W = c.A(vq), c.A(uq), c.A(wq)
        fq, eq, cw = c.attr(result, '_flux'), c.attr(result, '_error'), c.attr(result, '_wavelength')
        F, G = c.A(fq), c.A(eq)
        M, A = V.shape[0], V.shape[1]
        nm, cn = c.A(c.attr(result, '_model_names')), c.A(c.attr(cube, '_names'))
        return {'slice_of_the_cube': [compare('==', F.shape[0], M), compare('==', F.shape[1], A), compare('==', G.shape[0], M), compare('==', G.shape[1], A),
                                      c.forall([M, A], lambda m, i: band(F[m, i] * fq.unit.scale == V[m, i, k] * vq.unit.scale, G[m, i] * eq.unit.scale == E[m, i, k] * uq.unit.scale), 'slice')],
                'central_wavelength_is_that_wavelength': isinstance(cw, Quantity) and compare('==', cw.value * cw.unit.scale, W[k] * wq.unit.scale),
                'names': [compare('==', nm.n, cn.n), c.forall(cn.n, lambda m: nm[m] == cn[m], 'names')],
                'apertures': c.attr(result, '_apertures') is c.attr(cube, '_apertures') or (isinstance(c.attr(result, '_apertures'), Quantity) and c.attr(result, '_apertures').value is c.attr(cube, '_apertures').value)}
