"""Contract for sedfitter/models.py: Models._read_version_1 with an aperture-dependent package (C02):
the trial-distance grid and the scaling of the tabulated fluxes to each trial distance."""
import z3

from sedvc import units
from sedvc.contractlib import Contract, contract, Ctx
from sedvc.sym import Sc, compare, band, bor, bnot, implies, ite, arith, fresh_int, mathfn
from sedvc.values import Quantity, Opaque, ObjRef
from .convolved import CF, make_cf
from .models import MODELS

U = units.BASE


@contract
class CfRead(Contract):
    name = CF + '.read'
    trusted = 'assumed (FITS I/O; round trip decided by the bounded run of C12): returns the convolved-flux table stored in the named file'

    def result(self, c, a):
        files = getattr(c.interp, 'package_convolved', None)
        if files is None:
            raise Exception("no package_convolved declared")
        n = c.interp.__dict__.setdefault('_cf_reads', 0)
        c.interp._cf_reads = n + 1
        return files[n % len(files)]


@contract
class ModelsReadV1(Contract):
    """Models._read_version_1 for an aperture-dependent package and a distance range [dmin, dmax]:
    dmin == dmax gives the single trial distance dmin; otherwise the trial distances are n >= 2 log-uniform
    points from dmin to dmax (both included) with the FEWEST points whose log spacing does not exceed the
    package's step: (n-1) step >= L > (n-2) step, L = log10(dmax/dmin).  For every filter f the fluxes handed to the
    fitter are the result of ConvolvedFluxes.interpolate at the aperture radii theta_f [arcsec] x d_k [pc] AU, times
    (1 kpc / d_k)^2; logd[k] = log10(d_k / kpc); the wavelength of filter f is the central wavelength of its file."""
    name = MODELS + '._read_version_1'
    properties = ('C02', 'C04')
    variants = ('two_filters', 'two_filters/pc')       # (the distance range given in kpc / in pc)
    assume_pre_of = (CF + '.interpolate',)

    def setup(self, c, variant):
        from sedvc.interp import ClassVal
        self.step = c.real('logd_step')
        c.interp.package_conf = {'name': 'pkg', 'logd_step': self.step, 'aperture_dependent': True}
        c.interp.ext['os.path.exists'] = lambda interp, st, fr, args, kw: True
        self.cfs = [make_cf(c, U['au'], prefix='file%d' % i) for i in range(2)]
        M = c.A(c.attr(self.cfs[0], '_model_names')).n
        c.assume(compare('==', c.A(c.attr(self.cfs[1], '_model_names')).n, M))       # both files tabulate the same models
        c.interp.package_convolved = self.cfs
        self.theta = [c.real('theta%d' % i) for i in range(2)]
        filters = c.list([c.dict({'name': 'F%d' % i, 'aperture_arcsec': self.theta[i]}) for i in range(2)])
        self.dr = c.array('distance_range', (2,))
        self.range_unit = U['pc'] if variant.endswith('/pc') else U['kpc']
        ci = c.interp.repo.find_class(MODELS)
        return dict(cls=ClassVal(ci), directory='MODELDIR', filters=filters, distance_range=Quantity(self.dr, self.range_unit), remove_resolved=None)

    def result(self, c, a):
        # at a call site (Models.read): the models object of the package, described by the caller's set-up
        m = getattr(c.interp, 'package_models', None)
        if m is None:
            from .models import make_models
            m = make_models(c, '2d')
        return m

    def requires(self, c, a):
        if not hasattr(self, 'dr'):
            return {}              # call site: the conditions on the package / range are conditions on the data
        d = c.A(self.dr)
        return {'range': band(d[0] > 0, d[0] <= d[1]), 'step_positive': self.step > 0,
                'apertures_positive': band(self.theta[0] > 0, self.theta[1] > 0)}

    def raises(self, c, a):
        return {'Exception': ('may', True)}       # a trial aperture below the smallest tabulated one is refused (C13)

    def ensures(self, c, a, result, old):
        if not hasattr(self, 'dr'):
            return {}
        d = c.A(self.dr)
        du = self.range_unit.scale / U['kpc'].scale          # the range in kpc, whatever unit it was given in
        d0, d1 = d[0] * du, d[1] * du
        q = c.attr(result, '_distances')
        D = c.A(q)
        n = D.n
        ks = q.unit.scale / U['kpc'].scale                      # distances in kpc
        L = mathfn('log10', d1) - mathfn('log10', d0)
        out = {'single_distance_when_the_range_is_a_point': implies(d0 == d1, band(compare('==', n, 1), D[0] * ks == d0)),
               'grid_includes_both_ends': implies(bnot(d0 == d1), band(compare('>=', n, 2), band(D[0] * ks == d0, D[n - 1] * ks == d1))),
               'log_uniform': c.forall(n, lambda k: implies(bnot(d0 == d1), mathfn('log10', D[k] * ks) * (n - 1) == mathfn('log10', d0) * (n - 1) + k * L), 'log-uniform'),
               'spacing_does_not_exceed_the_step': implies(bnot(d0 == d1), (n - 1) * self.step >= L),
               'fewest_points': implies(bnot(d0 == d1), (n - 2) * self.step < L)}
        logd = c.A(c.attr(result, 'logd'))
        out['scale_axis_is_log10_of_the_distance_in_kpc'] = [compare('==', logd.n, n), c.forall(n, lambda k: logd[k] == mathfn('log10', D[k] * ks), 'logd')]
        ev = c.st.events
        calls = [e for e in ev if e[0] == 'call' and e[1] == CF + '.interpolate']
        rets = [e for e in ev if e[0] == 'ret' and e[1] == CF + '.interpolate']
        out['one_interpolation_per_filter'] = len(calls) == 2 and len(rets) == 2 and all(calls[i][2]['self'].addr == self.cfs[i].addr for i in range(2))
        if not out['one_interpolation_per_filter']:
            return out
        fq = c.attr(result, '_fluxes')
        F = c.A(fq)
        kf = fq.unit.scale / U['mJy'].scale
        pc_per_kpc = U['kpc'].scale / U['pc'].scale
        wl = c.attr(result, '_wavelengths')
        WL = c.A(wl)
        for i in range(2):
            req = calls[i][2]['apertures']
            RQ = c.A(req)
            out['trial_apertures_are_theta_times_distance(filter %d)' % i] = [
                compare('==', RQ.n, n), c.forall(n, (lambda RQ, req, i: lambda k: RQ[k] * (req.unit.scale / U['au'].scale) == self.theta[i] * (D[k] * ks * pc_per_kpc))(RQ, req, i), 'theta d')]
            rq = rets[i][3]['_flux']            # the interpolated table as returned (the code re-assigns conv.flux afterwards)
            R = c.A(rq)
            kr = rq.unit.scale / U['mJy'].scale
            out['interpolated_flux_times_inverse_square(filter %d)' % i] = [
                compare('==', F.shape[0], R.shape[0]), compare('==', F.shape[1], n),
                c.forall([R.shape[0], n], (lambda R, kr, i: lambda m, k: F[m, k, i] * kf * (D[k] * ks) * (D[k] * ks) == R[m, k] * kr)(R, kr, i), 'd^-2')]
            cw = c.attr(self.cfs[i], '_wavelength')
            out['wavelength(filter %d)' % i] = WL[i] * wl.unit.scale == cw.value * cw.unit.scale
        return out


@contract
class ModelsReadV2(ModelsReadV1):
    """The same clauses for the cube-format reader Models._read_version_2 (broadband filters given by name,
    memory mapping off): the two readers are separate copies of the same code and are verified separately."""
    name = MODELS + '._read_version_2'
    properties = ('C02', 'C16')
    variants = ('two_filters', 'one_wavelength', 'two_filters/pc')
    assume_pre_of = (CF + '.interpolate', 'sedfitter.sed.cube.BaseCube.read')

    def requires(self, c, a):
        if not hasattr(self, 'dr'):
            return {}
        if self.variant_ == 'one_wavelength':
            return _WavelengthCase.requires(self, c, a)
        return ModelsReadV1.requires(self, c, a)

    def ensures(self, c, a, result, old):
        if not hasattr(self, 'dr'):
            return {}
        if self.variant_ == 'one_wavelength':
            return _WavelengthCase.ensures(self, c, a, result, old)
        return ModelsReadV1.ensures(self, c, a, result, old)

    def setup(self, c, variant):
        self.variant_ = variant
        if variant == 'one_wavelength':
            return _WavelengthCase.setup(self, c, variant)
        args = ModelsReadV1.setup(self, c, variant)
        c.interp.package_conf = dict(c.interp.package_conf, version=2)
        # the flux cube of the package has one row per model of the convolved-flux files
        M = c.A(c.attr(self.cfs[0], '_model_names')).n
        A, W = c.int('cube_n_ap'), c.int('cube_n_wav')
        c.assume([M >= 1, A >= 1, W >= 2])
        c.interp.package_cube = dict(wav=c.array('cube_wav', (W,)), ap=c.array('cube_ap', (A,)), val=c.array('cube_val', (M, A, W)), unc=c.array('cube_unc', (M, A, W)),
                                     names=c.array('cube_names', (M,), kind='int'), valid=c.array('cube_valid', (M,), kind='int'), dist=c.real('cube_dist_cm'))
        args['use_memmap'] = False
        return args



MONOF = 'sedfitter.convolved_fluxes.convolved_fluxes.MonochromaticFluxes'


class _WavelengthCase(object):
    """Models._read_version_2 with a WAVELENGTH given instead of a filter name (C16): the fluxes of that band are the
    cube slice at a tabulated wavelength NEAREST to the requested one (no tabulated wavelength is closer), through
    MonochromaticFluxes.from_sed_cube; the band's wavelength is the requested wavelength.  (Variant 'one_wavelength' of the contract of _read_version_2.)"""

    def setup(self, c, variant):
        from sedvc.interp import ClassVal
        self.step = c.real('logd_step')
        c.interp.package_conf = {'name': 'pkg', 'logd_step': self.step, 'aperture_dependent': True, 'version': 2}
        c.interp.ext['os.path.exists'] = lambda interp, st, fr, args, kw: True
        M, A, W = c.int('cube_n_models'), c.int('cube_n_ap'), c.int('cube_n_wav')
        c.assume([M >= 1, A >= 2, W >= 2])
        c.interp.package_cube = dict(wav=c.array('cube_wav', (W,)), ap=c.array('cube_ap', (A,)), val=c.array('cube_val', (M, A, W)), unc=c.array('cube_unc', (M, A, W)),
                                     names=c.array('cube_names', (M,), kind='int'), valid=c.array('cube_valid', (M,), kind='int'), dist=c.real('cube_dist_cm'))
        self.want = Quantity(c.real('requested_wavelength'), U['micron'])
        self.theta = c.real('theta')
        filters = c.list([c.dict({'wav': self.want, 'aperture_arcsec': self.theta})])
        self.dr = c.array('distance_range', (2,))
        ci = c.interp.repo.find_class(MODELS)
        return dict(cls=ClassVal(ci), directory='MODELDIR', filters=filters, distance_range=Quantity(self.dr, U['kpc']), remove_resolved=None, use_memmap=False)

    def requires(self, c, a):
        d = c.A(self.dr)
        return {'range': band(d[0] > 0, d[0] <= d[1]), 'step_positive': self.step > 0, 'aperture_positive': self.theta > 0, 'wavelength_positive': self.want.value > 0}

    def raises(self, c, a):
        return {'Exception': ('may', True)}

    def ensures(self, c, a, result, old):
        ev = c.st.events
        reads = [e for e in ev if e[0] == 'ret' and e[1] == 'sedfitter.sed.cube.BaseCube.read']
        slices = [e for e in ev if e[0] == 'call' and e[1] == MONOF + '.from_sed_cube']
        out = {'one_cube_slice_taken': len(reads) == 1 and len(slices) == 1 and slices[0][2]['cube'].addr == reads[0][2].addr}
        if not out['one_cube_slice_taken']:
            return out
        cube = reads[0][2]
        wq = reads[0][3]['_wav']
        W = c.A(wq)
        k = slices[0][2]['wavelength_index']
        w = self.want.value * self.want.unit.scale
        dist = lambda j: c.abs(W[j] * wq.unit.scale - w)
        out['slice_is_at_a_nearest_tabulated_wavelength'] = [band(k >= 0, k < W.n), c.forall(W.n, lambda j: dist(k) <= dist(j), 'nearest')]
        wl = c.attr(result, '_wavelengths')
        out['band_wavelength_is_the_requested_one'] = c.A(wl)[0] * wl.unit.scale == w
        return out
