"""A small model of astropy.units (assumption A-UNIT).

A unit is a positive scale factor to SI plus integer dimension exponents.  Exact
metric prefixes are rational numbers; astronomical constants are *symbolic positive
constants* constrained only by their definitional relations, so proofs hold for
every value astropy may assign to them.
"""
import fractions

import z3

from .sym import Sc, arith
from .values import Unit

F = fractions.Fraction

PC_M = z3.Real('pc_in_m')          # metres per parsec
AU_M = z3.Real('au_in_m')          # metres per astronomical unit
ARCSEC_RAD = z3.Real('arcsec_in_rad')
C_SI = z3.Real('c_m_per_s')        # speed of light

UNIT_AXIOMS = [PC_M > 0, AU_M > 0, ARCSEC_RAD > 0, C_SI > 0,
               # small-angle definition of the parsec: 1 arcsec * 1 pc = 1 au
               ARCSEC_RAD * PC_M == AU_M]


def _mk(name, scale, **dims):
    return Unit(name, scale, dims)


BASE = {
    'm': _mk('m', 1, m=1),
    'cm': _mk('cm', F(1, 100), m=1),
    'micron': _mk('micron', F(1, 10 ** 6), m=1),
    'um': _mk('micron', F(1, 10 ** 6), m=1),
    'au': _mk('AU', Sc(AU_M), m=1),
    'AU': _mk('AU', Sc(AU_M), m=1),
    'pc': _mk('pc', Sc(PC_M), m=1),
    'kpc': _mk('kpc', Sc(PC_M) * 1000, m=1),
    's': _mk('s', 1, s=1),
    'Hz': _mk('Hz', 1, s=-1),
    'GHz': _mk('GHz', 10 ** 9, s=-1),
    'g': _mk('g', F(1, 1000), kg=1),
    'kg': _mk('kg', 1, kg=1),
    'erg': _mk('erg', F(1, 10 ** 7), kg=1, m=2, s=-2),
    'W': _mk('W', 1, kg=1, m=2, s=-3),
    'Jy': _mk('Jy', F(1, 10 ** 26), kg=1, s=-2),
    'mJy': _mk('mJy', F(1, 10 ** 29), kg=1, s=-2),
    'arcsec': _mk('arcsec', Sc(ARCSEC_RAD), rad=1),
    'arcmin': _mk('arcmin', Sc(ARCSEC_RAD) * 60, rad=1),
    'rad': _mk('rad', 1, rad=1),
    'dimensionless_unscaled': _mk('', 1),
    'K': _mk('K', 1, K=1),
    'AA': _mk('AA', F(1, 10 ** 10), m=1),
    'nm': _mk('nm', F(1, 10 ** 9), m=1),
}


def _exact(x):
    """Concrete scales are kept as exact rationals (never floats)."""
    if isinstance(x, bool) or isinstance(x, Sc):
        return x
    if isinstance(x, int):
        return F(x)
    if isinstance(x, float):
        return F(repr(x))
    return x


def _sdiv(a, b):
    a, b = _exact(a), _exact(b)
    if isinstance(a, F) and isinstance(b, F):
        return a / b
    return arith('/', a, b)


def _smul(a, b):
    a, b = _exact(a), _exact(b)
    if isinstance(a, F) and isinstance(b, F):
        return a * b
    return arith('*', a, b)


def unit_mul(a, b):
    dims = dict(a.dims)
    for k, v in b.dims.items():
        dims[k] = dims.get(k, 0) + v
    return Unit(_name('*', a, b), _smul(a.scale, b.scale), dims)


def unit_div(a, b):
    dims = dict(a.dims)
    for k, v in b.dims.items():
        dims[k] = dims.get(k, 0) - v
    return Unit(_name('/', a, b), _sdiv(a.scale, b.scale), dims)


def unit_pow(a, n):
    if not isinstance(n, int):
        raise ValueError("non-integer unit power")
    dims = dict((k, v * n) for k, v in a.dims.items())
    if n >= 0:
        sc = 1
        for _ in range(n):
            sc = _smul(sc, a.scale)
    else:
        sc = 1
        for _ in range(-n):
            sc = _sdiv(sc, a.scale)
    return Unit("(%s)^%d" % (a.name, n), sc, dims)


def _name(op, a, b):
    return "(%s%s%s)" % (a.name, op, b.name)


def is_equivalent(a, b):
    return a.same_dims(b)


def unit_sqrt(a):
    """Square root of a unit whose dimension exponents are all even (e.g. mJy^2 -> mJy)."""
    import math
    if any(v % 2 for v in a.dims.values()):
        raise ValueError("square root of a unit with odd dimensions")
    dims = dict((k, v // 2) for k, v in a.dims.items())
    sc = _exact(a.scale)
    if isinstance(sc, F):
        rn, rd = math.isqrt(sc.numerator), math.isqrt(sc.denominator)
        if rn * rn == sc.numerator and rd * rd == sc.denominator:
            return Unit("sqrt(%s)" % a.name, F(rn, rd), dims)
    from .sym import mathfn
    return Unit("sqrt(%s)" % a.name, mathfn('sqrt', sc), dims)
