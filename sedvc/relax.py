"""Real relaxation + function abstraction of a ground query.

Every uninterpreted function application is replaced by a fresh constant (dropping
congruence) and every Int-sorted term is reinterpreted over the reals (dropping
integrality).  Both steps only ENLARGE the set of models, so `unsat` of the relaxed
query implies `unsat` of the original one; `sat`/`unknown` answers of the relaxed
query mean nothing and are discarded.  The relaxed query is pure QF_NRA, which z3
decides with nlsat instead of the incomplete nonlinear engine of the SMT core.
"""
import z3

K = z3


def relax(assertions):
    memo = {}
    fresh = [0]

    def new_const(sort_is_bool, hint):
        fresh[0] += 1
        nm = 'ab!%d' % fresh[0]
        return z3.Bool(nm) if sort_is_bool else z3.Real(nm)

    def go(t):
        tid = t.get_id()
        r = memo.get(tid)
        if r is not None:
            return r
        r = conv(t)
        memo[tid] = r
        return r

    def conv(t):
        if z3.is_quantifier(t):
            raise ValueError("quantifier")
        if z3.is_int_value(t):
            return z3.RealVal(t.as_long())
        if z3.is_rational_value(t) or z3.is_algebraic_value(t):
            return t
        if z3.is_true(t) or z3.is_false(t):
            return t
        d = t.decl()
        k = d.kind()
        ch = t.children()
        if k == z3.Z3_OP_UNINTERPRETED:
            if t.num_args() == 0:
                if z3.is_int(t):
                    return z3.Real(d.name() + '$r')
                return t
            return new_const(z3.is_bool(t), d.name())
        if k in (z3.Z3_OP_IDIV, z3.Z3_OP_MOD, z3.Z3_OP_REM, z3.Z3_OP_TO_INT, z3.Z3_OP_IS_INT):
            return new_const(z3.is_bool(t), 'int')
        c = [go(x) for x in ch]
        if k == z3.Z3_OP_TO_REAL:
            return c[0]
        if k == z3.Z3_OP_ADD:
            r = c[0]
            for x in c[1:]:
                r = r + x
            return r
        if k == z3.Z3_OP_SUB:
            r = c[0]
            for x in c[1:]:
                r = r - x
            return r
        if k == z3.Z3_OP_MUL:
            r = c[0]
            for x in c[1:]:
                r = r * x
            return r
        if k == z3.Z3_OP_UMINUS:
            return -c[0]
        if k == z3.Z3_OP_DIV:
            return c[0] / c[1]
        if k == z3.Z3_OP_POWER:
            if z3.is_rational_value(c[1]) and c[1].denominator_as_long() == 1 and 0 <= c[1].numerator_as_long() <= 6:
                n = c[1].numerator_as_long()
                if n == 0:
                    return z3.RealVal(1)
                r = c[0]
                for _ in range(n - 1):
                    r = r * c[0]
                return r
            return new_const(False, 'pow')
        if k == z3.Z3_OP_LE:
            return c[0] <= c[1]
        if k == z3.Z3_OP_LT:
            return c[0] < c[1]
        if k == z3.Z3_OP_GE:
            return c[0] >= c[1]
        if k == z3.Z3_OP_GT:
            return c[0] > c[1]
        if k == z3.Z3_OP_EQ:
            return c[0] == c[1]
        if k == z3.Z3_OP_DISTINCT:
            return z3.Distinct(*c)
        if k == z3.Z3_OP_ITE:
            return z3.If(c[0], c[1], c[2])
        if k == z3.Z3_OP_AND:
            return z3.And(*c) if c else z3.BoolVal(True)
        if k == z3.Z3_OP_OR:
            return z3.Or(*c) if c else z3.BoolVal(False)
        if k == z3.Z3_OP_NOT:
            return z3.Not(c[0])
        if k == z3.Z3_OP_IMPLIES:
            return z3.Implies(c[0], c[1])
        if k == z3.Z3_OP_XOR:
            return z3.Xor(c[0], c[1])
        if k == z3.Z3_OP_IFF:
            return c[0] == c[1]
        # anything else: abstract
        return new_const(z3.is_bool(t), 'other')

    return [go(a) for a in assertions]
