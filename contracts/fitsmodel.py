"""Abstract content of FITS files for the readers under contract (assumed dependency contract of
astropy.io.fits: what was stored in an HDU is what `.data` / `.header` / `.columns[i].unit` give back)."""
from sedvc.contractlib import Contract, contract
from sedvc.extmodels import SpecCallable
from sedvc.values import Opaque, Unit


def hdu(c, header=None, fields=None, units=None, data=None, name=None):
    """fields: dict column -> array value; units: list of Unit per column (order of `fields`)."""
    attrs = {'header': c.obj('<header>', **{'[]': dict(header or {})})}
    if fields is not None:
        fdict = dict(fields)
        rec = c.obj('<fitsrec>', **{'[]': fdict, '%field': SpecCallable(lambda interp, st, args, kw: fdict[args[0]])})
        attrs['data'] = rec
        attrs['columns'] = c.list([c.obj('<column>', unit=u_) for u_ in (units or [])])
    elif data is not None:
        attrs['data'] = data
    return c.obj('<hdu>', **attrs)


def hdulist(c, hdus, names=None):
    """An HDUList: integer subscripts and (optionally) EXTNAME subscripts."""
    table = dict((i, h) for i, h in enumerate(hdus))
    for nm, h in (names or {}).items():
        table[nm] = h
    return c.obj('<hdulist>', **{'[]': table})


@contract
class ParseUnitSafe(Contract):
    """ASSUMED: the unit string stored in a file denotes the unit it was written with (the model keeps
    the Unit itself in place of its string)."""
    name = 'sedfitter.sed.helpers.parse_unit_safe'
    trusted = 'assumed (string <-> unit; exercised natively by the bounded run, see known_findings 4920375)'

    def result(self, c, a):
        return a.unit_string
