"""Assumed contracts for sedfitter/utils/validator.py (A-TYPE): for well-typed inputs (the
right physical type, rank and shape -- which is what every contract's `setup` constructs)
the validators return their argument unchanged.  Their raising paths (wrong type/unit/shape)
are exercised by the repository's own unit tests and are outside the properties."""
from sedvc.contractlib import Contract, contract

V = 'sedfitter.utils.validator.'


@contract
class ValidateArray(Contract):
    name = V + 'validate_array'
    trusted = 'assumed (A-TYPE)'

    def result(self, c, a):
        v = a.value
        from sedvc.values import ListRef
        if isinstance(v, ListRef):
            from sedvc import npmodel as npm
            return npm.from_list(c.st, c.st.heap[v.addr].items)
        if isinstance(v, (list, tuple)):
            from sedvc import npmodel as npm
            return npm.from_list(c.st, list(v))
        return v


@contract
class ValidateScalar(Contract):
    name = V + 'validate_scalar'
    trusted = 'assumed (A-TYPE) for the type checks; the VALUE check (domain) is modelled exactly'

    def raises(self, c, a):
        """`domain` is a check on the value, not on the type: 'strictly-positive' raises ValueError for value <= 0,
        'positive' for value < 0 (and the mirror images).  Callers must establish it (object invariants in their
        set-ups) or declare the exception."""
        from sedvc.values import Quantity
        from sedvc.sym import Sc, compare
        dom = a.get('domain')
        if not isinstance(dom, str):
            return {}
        v = a.value
        num = v.value if isinstance(v, Quantity) else v
        op = {'positive': '<', 'strictly-positive': '<=', 'negative': '>', 'strictly-negative': '>='}.get(dom)
        if op is None or not isinstance(num, (Sc, int, float)) or isinstance(num, bool):
            return {}
        return {'ValueError': compare(op, num, 0)}

    def result(self, c, a):
        return a.value


@contract
class ValidatePhysicalType(Contract):
    name = V + 'validate_physical_type'
    trusted = 'assumed (A-TYPE)'

    def result(self, c, a):
        return None
