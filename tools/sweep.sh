#!/bin/bash
# usage: tools/sweep.sh "<property ids>" "<seeds>" <tier> [jobs]   -- runs the checks on the unchanged tree for several seeds,
# several at a time, with evidence/replays written to a scratch directory (never to the committed ones).  One line per run;
# anything but "rc=0 ... OK" needs attention.
cd "$(dirname "$0")/.." || exit 2
V=$(pwd)
J=${4:-3}
ncpu=$(nproc)
export SEDVC_MAX_SOLVERS=$(( (ncpu + J - 1) / J ))
out=$(mktemp -d /var/tmp/sweepout.XXXXXX)
for s in $2; do for p in $1; do echo "$p $s"; done; done | xargs -P "$J" -L 1 bash -c 'o=$(cd '"$V"' && VERIF_SEED=$1 VERIF_OUT_DIR='"$out"'/$0_$1 ./check $0 '"$3"' 2>&1); rc=$?; echo "$0 seed=$1 rc=$rc $(echo "$o" | grep -E "^(VIOLATION|UNDECIDED|CHECKER)" | head -2 | tr "\n" " " | cut -c1-300) $(echo "$o" | tail -1 | cut -c1-120)"'
rm -rf "$out"
