#!/bin/bash
# usage: run_seeds.sh [seed ids...]   -- applies each seeded change to /repo, runs the check of
# its property (quick), undoes the change straight afterwards.  Prints one line per seed.
cd /verif
ids="$@"; [ -z "$ids" ] && ids=$(ls seeded)
# evidence / replay files written while /repo carries a seeded change must not survive
bak=$(mktemp -d /var/tmp/sedverif_evbak.XXXXXX)
cp -r evidence "$bak/evidence"; [ -d replays ] && cp -r replays "$bak/replays"
restore() { rm -rf evidence replays; cp -r "$bak/evidence" evidence; [ -d "$bak/replays" ] && cp -r "$bak/replays" replays; rm -rf "$bak"; }
trap restore EXIT
for id in $ids; do
  prop=${id%%_*}
  [ -f seeded/$id/patch.diff ] || continue
  if ! git -C /repo diff --quiet; then echo "/repo is dirty, refusing"; exit 2; fi
  git -C /repo apply /verif/seeded/$id/patch.diff || { echo "$id: patch does not apply"; continue; }
  out=$(./check $prop quick 2>&1); rc=$?
  git -C /repo checkout -- .
  v=$(echo "$out" | grep -c '^VIOLATION')
  first=$(echo "$out" | grep -A1 '^VIOLATION' | head -2 | tr '\n' ' ' | cut -c1-260)
  und=$(echo "$out" | grep -c '^UNDECIDED')
  echo "$id rc=$rc violations=$v undecided=$und :: $first"
done
