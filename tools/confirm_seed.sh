#!/bin/bash
# usage: confirm_seed.sh <src dir with patch.diff demo.py meta.json> <seed id>
# Confirms a seeded change in a scratch copy of /repo (never in /repo itself):
#   the patch applies, the full test suite still passes with it, demo.py fails with it
#   and passes without it.  Writes /verif/seeded/<id>/{patch.diff,demo.py,meta.json,confirm.log}
set -u
SRC="$1"; ID="$2"
W=$(mktemp -d /tmp/seedchk.XXXXXX)
git -C /repo worktree add -q --detach "$W/wt" HEAD || exit 2
cd "$W/wt"
OUT=/verif/seeded/$ID; mkdir -p "$OUT"
LOG="$OUT/confirm.log"; : > "$LOG"
cp "$SRC/demo.py" "$W/demo.py"
echo "== demo on clean tree" >> "$LOG"
( cd "$W/wt" && /venv/bin/python "$W/demo.py" ) >> "$LOG" 2>&1; CLEAN=$?
echo "exit=$CLEAN" >> "$LOG"
git apply "$SRC/patch.diff" >> "$LOG" 2>&1 || { echo "patch does not apply" >> "$LOG"; }
echo "== test suite with the change" >> "$LOG"
/venv/bin/python -m pytest -q -p no:cacheprovider --timeout=900 -x 2>&1 | tail -3 >> "$LOG"; TESTS=${PIPESTATUS[0]}
echo "exit=$TESTS" >> "$LOG"
echo "== demo with the change" >> "$LOG"
( cd "$W/wt" && /venv/bin/python "$W/demo.py" ) 2>&1 | tail -5 >> "$LOG"; MUT=${PIPESTATUS[0]}
echo "exit=$MUT" >> "$LOG"
cp "$SRC/patch.diff" "$SRC/demo.py" "$OUT/"
python3 - "$SRC/meta.json" "$OUT/meta.json" "$CLEAN" "$TESTS" "$MUT" <<'PY'
import json, sys
src, dst, clean, tests, mut = sys.argv[1:]
try:
    m = json.load(open(src))
except Exception:
    m = {}
m['confirmed'] = {'demo_clean_exit': int(clean), 'tests_with_change_exit': int(tests), 'demo_with_change_exit': int(mut),
                  'how': 'tools/confirm_seed.sh: scratch git worktree of /repo HEAD; demo on clean tree, git apply patch.diff, full pytest suite, demo again'}
json.dump(m, open(dst, 'w'), indent=1)
PY
cd /; git -C /repo worktree remove --force "$W/wt"; rm -rf "$W"
echo "$ID clean=$CLEAN tests=$TESTS mutated=$MUT"
