/-
  E1-L: the schematic facts about finite sums that the sedvc normaliser and solver use
  (DESIGN.md section 3), proved for every n.  No `sorry`, no extra axioms.

  R2  sum_lin          linearity (index-independent coefficients move out of a sum)
  R1/R3 sum_lt_witness if Σ f < Σ g over the same range then f j < g j for some j in range
        (with g = 0 / f = 0: a negative (positive) sum has a negative (positive) term;
         with both orders: unequal sums differ at some index -- extensionality)
      wcs              weighted Cauchy-Schwarz
      count_prefix     for a downward-closed predicate on [0,n), b k ↔ k < #{k < n | b k}
      exists_min / exists_max   a non-empty finite family attains its minimum / maximum
-/
import Mathlib

open Finset BigOperators

theorem sum_lin (n : ℕ) (a b : ℝ) (f g : ℕ → ℝ) :
    ∑ j ∈ range n, (a * f j + b * g j) = a * ∑ j ∈ range n, f j + b * ∑ j ∈ range n, g j := by
  rw [sum_add_distrib, mul_sum, mul_sum]

theorem sum_lt_witness (n : ℕ) (f g : ℕ → ℝ)
    (h : ∑ j ∈ range n, f j < ∑ j ∈ range n, g j) : ∃ j, j < n ∧ f j < g j := by
  by_contra hc
  push Not at hc
  have : ∑ j ∈ range n, g j ≤ ∑ j ∈ range n, f j :=
    sum_le_sum (fun j hj => hc j (mem_range.mp hj))
  linarith

theorem sum_neg_witness (n : ℕ) (f : ℕ → ℝ) (h : ∑ j ∈ range n, f j < 0) : ∃ j, j < n ∧ f j < 0 := by
  have := sum_lt_witness n f (fun _ => 0) (by simpa using h)
  simpa using this

theorem sum_pos_witness (n : ℕ) (f : ℕ → ℝ) (h : 0 < ∑ j ∈ range n, f j) : ∃ j, j < n ∧ 0 < f j := by
  have := sum_lt_witness n (fun _ => 0) f (by simpa using h)
  simpa using this

theorem sum_range_nonpos (n : ℤ) (f : ℕ → ℝ) (h : n ≤ 0) : ∑ j ∈ range n.toNat, f j = 0 := by
  have : n.toNat = 0 := Int.toNat_eq_zero.mpr h
  simp [this]

theorem sum_wsq_nonneg (n : ℕ) (w q : ℕ → ℝ) (hw : ∀ j, j < n → 0 ≤ w j) :
    0 ≤ ∑ j ∈ range n, w j * (q j) ^ 2 :=
  sum_nonneg (fun j hj => mul_nonneg (hw j (mem_range.mp hj)) (sq_nonneg _))

/-- weighted Cauchy–Schwarz: (Σ w p q)² ≤ (Σ w p p)(Σ w q q) for w ≥ 0 -/
theorem wcs (n : ℕ) (w p q : ℕ → ℝ) (hw : ∀ j, j < n → 0 ≤ w j) :
    (∑ j ∈ range n, w j * p j * q j) ^ 2 ≤
      (∑ j ∈ range n, w j * p j * p j) * (∑ j ∈ range n, w j * q j * q j) := by
  have key := Finset.sum_mul_sq_le_sq_mul_sq (range n)
    (fun j => Real.sqrt (w j) * p j) (fun j => Real.sqrt (w j) * q j)
  have e1 : ∀ j ∈ range n, Real.sqrt (w j) * p j * (Real.sqrt (w j) * q j) = w j * p j * q j := by
    intro j hj
    have h := Real.mul_self_sqrt (hw j (mem_range.mp hj))
    calc Real.sqrt (w j) * p j * (Real.sqrt (w j) * q j) = (Real.sqrt (w j) * Real.sqrt (w j)) * p j * q j := by ring
      _ = w j * p j * q j := by rw [h]
  have e2 : ∀ j ∈ range n, (Real.sqrt (w j) * p j) ^ 2 = w j * p j * p j := by
    intro j hj
    have h := Real.mul_self_sqrt (hw j (mem_range.mp hj))
    calc (Real.sqrt (w j) * p j) ^ 2 = (Real.sqrt (w j) * Real.sqrt (w j)) * p j * p j := by ring
      _ = w j * p j * p j := by rw [h]
  have e3 : ∀ j ∈ range n, (Real.sqrt (w j) * q j) ^ 2 = w j * q j * q j := by
    intro j hj
    have h := Real.mul_self_sqrt (hw j (mem_range.mp hj))
    calc (Real.sqrt (w j) * q j) ^ 2 = (Real.sqrt (w j) * Real.sqrt (w j)) * q j * q j := by ring
      _ = w j * q j * q j := by rw [h]
  rw [sum_congr rfl e1, sum_congr rfl e2, sum_congr rfl e3] at key
  exact key

/-- the elements of [0,n) satisfying a downward-closed predicate form an initial segment -/
theorem filter_prefix (n : ℕ) (b : ℕ → Prop) [DecidablePred b]
    (hd : ∀ k l, k ≤ l → l < n → b l → b k) : ∃ m, m ≤ n ∧ (range n).filter b = range m := by
  induction n with
  | zero => exact ⟨0, le_refl _, by simp⟩
  | succ n ih =>
    have hd' : ∀ k l, k ≤ l → l < n → b l → b k :=
      fun k l hkl hl hb => hd k l hkl (Nat.lt_succ_of_lt hl) hb
    obtain ⟨m, hm, hfm⟩ := ih hd'
    by_cases hbn : b n
    · refine ⟨n + 1, le_refl _, ?_⟩
      ext x
      simp only [mem_filter, mem_range]
      constructor
      · exact fun h => h.1
      · intro hx
        exact ⟨hx, hd x n (Nat.lt_succ_iff.mp hx) (Nat.lt_succ_self n) hbn⟩
    · refine ⟨m, Nat.le_succ_of_le hm, ?_⟩
      rw [Finset.range_add_one, filter_insert, if_neg hbn, hfm]

/-- a count is a prefix length for a downward-closed predicate -/
theorem count_prefix (n : ℕ) (b : ℕ → Prop) [DecidablePred b]
    (hd : ∀ k l, k ≤ l → l < n → b l → b k) (k : ℕ) (hk : k < n) :
    b k ↔ k < ((range n).filter b).card := by
  obtain ⟨m, hm, hfm⟩ := filter_prefix n b hd
  rw [hfm, card_range]
  constructor
  · intro hb
    have : k ∈ (range n).filter b := mem_filter.mpr ⟨mem_range.mpr hk, hb⟩
    rw [hfm] at this
    exact mem_range.mp this
  · intro hlt
    have : k ∈ (range n).filter b := by rw [hfm]; exact mem_range.mpr hlt
    exact (mem_filter.mp this).2

theorem exists_min (n : ℕ) (hn : 0 < n) (f : ℕ → ℝ) : ∃ w, w < n ∧ ∀ k, k < n → f w ≤ f k := by
  obtain ⟨w, hw, hmin⟩ := exists_min_image (range n) f ⟨0, mem_range.mpr hn⟩
  exact ⟨w, mem_range.mp hw, fun k hk => hmin k (mem_range.mpr hk)⟩

theorem exists_max (n : ℕ) (hn : 0 < n) (f : ℕ → ℝ) : ∃ w, w < n ∧ ∀ k, k < n → f k ≤ f w := by
  obtain ⟨w, hw, hmax⟩ := exists_max_image (range n) f ⟨0, mem_range.mpr hn⟩
  exact ⟨w, mem_range.mp hw, fun k hk => hmax k (mem_range.mpr hk)⟩

/-- `range(jlo, jhi+1, c)` visits the chunk starts `jlo + t*c ≤ jhi`; chunk `t` covers
    `[jlo + t*c, min(jlo + t*c + c - 1, jhi)]`.  Every index of the window lies in exactly one chunk
    (the composition step of the chunk loop of `convolve_model_dir_monochromatic`, C16: the per-iteration
    obligations `chunk_inside_window` and `chunks_tile_the_window` say that each chunk has this form). -/
theorem chunks_tile (jlo jhi c j : ℕ) (hc : 1 ≤ c) (h1 : jlo ≤ j) (h2 : j ≤ jhi) :
    ∃ t, jlo + t * c ≤ jhi ∧ jlo + t * c ≤ j ∧ j ≤ min (jlo + t * c + c - 1) jhi ∧
      ∀ t', (jlo + t' * c ≤ j ∧ j ≤ jlo + t' * c + c - 1) → t' = t := by
  refine ⟨(j - jlo) / c, ?_, ?_, ?_, ?_⟩
  · have h := Nat.div_mul_le_self (j - jlo) c
    omega
  · have h := Nat.div_mul_le_self (j - jlo) c
    omega
  · have h := Nat.lt_div_mul_add (a := j - jlo) (b := c) (by omega)
    have h' : j ≤ jlo + (j - jlo) / c * c + c - 1 := by omega
    exact le_min h' h2
  · intro t' ⟨ha, hb⟩
    have h3 : t' * c ≤ j - jlo := by omega
    have h4 : j - jlo < (t' + 1) * c := by
      have : (t' + 1) * c = t' * c + c := by ring
      omega
    have h5 : t' ≤ (j - jlo) / c := (Nat.le_div_iff_mul_le (by omega)).mpr h3
    have h6 : (j - jlo) / c < t' + 1 := (Nat.div_lt_iff_lt_mul (by omega)).mpr h4
    omega

/-- a telescoping sum: with an additive integral (M2) the bin integrals of adjacent bins add up to the integral
    over their union (C06, "sum of the R_i = the filter's integral over the overlap") -/
theorem sum_telescope (n : ℕ) (f : ℕ → ℝ) : ∑ i ∈ range n, (f (i + 1) - f i) = f n - f 0 := by
  exact Finset.sum_range_sub f n


#print axioms sum_lin
#print axioms sum_lt_witness
#print axioms wcs
#print axioms count_prefix
#print axioms exists_min
#print axioms chunks_tile
#print axioms sum_telescope
