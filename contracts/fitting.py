"""Contracts for sedfitter/fitting_routines.py (properties C01, C02, C03, C11).

Top-level clauses are taken from the property statements: the regression must
*minimise the weighted sum of squares* (not "evaluate this formula"), chi^2 is the
sum over points of the per-point term of the data-format page.
"""
from sedvc.contractlib import Contract, contract, Ctx
from sedvc.sym import Sc, compare, band, bor, bnot, implies, ite, arith


def moments(c, w, p1, p2):
    N = w.n
    m11 = c.Sum(N, lambda j: w[j] * p1[j] * p1[j])
    m12 = c.Sum(N, lambda j: w[j] * p1[j] * p2[j])
    m22 = c.Sum(N, lambda j: w[j] * p2[j] * p2[j])
    return m11, m12, m22


def wcs(c, w, p1, p2):
    """Weighted Cauchy-Schwarz (lemma `wcs`, proved for every n in lemmas/SumLemmas.lean):
    (forall j. w_j >= 0)  ==>  (sum w p q)^2 <= (sum w p p)(sum w q q)."""
    m11, m12, m22 = moments(c, w, p1, p2)
    return m12 * m12 <= m11 * m22


def penalty(c, conf):
    """-2 ln(1 - confidence)"""
    return -2. * c.ln(1. - conf)


def chi2_term(c, valid, d, m, err, w):
    """Per-point chi^2 contribution T(valid, data, model, error, weight) of the
    data-format page: 0 for unused points, the penalty for a limit violated strictly,
    w (d-m)^2 otherwise (which is 0 for limits on the allowed side because their
    weight is 0 -- that is a clause of get_log_fluxes, not of this function)."""
    quad = (d - m) * (d - m) * w
    return ite(valid == 0, 0.,
               ite(band(valid == 3, m > d), penalty(c, err),
                   ite(band(valid == 2, m < d), penalty(c, err), quad)))


@contract
class LinearRegression(Contract):
    name = 'sedfitter.fitting_routines.linear_regression'
    properties = ('C01', 'C11')
    derived = {'optimal': ('normal_eq',)}

    def setup(self, c):
        M, N = c.int('M'), c.int('N')
        c.assume([M >= 0, N >= 0])
        return dict(data=c.array('data', (M, N)), weights=c.array('weights', (N,)),
                    pattern1=c.array('pattern1', (N,)), pattern2=c.array('pattern2', (N,)))

    def requires(self, c, a):
        w, p1, p2 = c.A(a.weights), c.A(a.pattern1), c.A(a.pattern2)
        m11, m12, m22 = moments(c, w, p1, p2)
        return {'w_nonneg': c.forall(w.n, lambda j: w[j] >= 0, 'w>=0'),
                'nonsingular': bnot(m11 * m22 - m12 * m12 == 0)}

    def lemmas(self, c, a):
        w, p1, p2 = c.A(a.weights), c.A(a.pattern1), c.A(a.pattern2)
        return {'wcs': (c.forall(w.n, lambda j: w[j] >= 0), wcs(c, w, p1, p2))}

    def result(self, c, a):
        data = a.data
        d = c.A(data)
        M = d.shape[0]
        r1, r2 = c.fresh_array('lr_p1', (M,)), c.fresh_array('lr_p2', (M,))
        if d.mask is not None:
            from sedvc.values import Masked
            b1, b2 = c.A(r1), c.A(r2)
            return (Masked((M,), b1.fn, 'real', 1, d.mask, data.mkey), Masked((M,), b2.fn, 'real', 1, d.mask, data.mkey))
        return (r1, r2)

    def ensures(self, c, a, result, old):
        d, w, p1, p2 = c.A(a.data), c.A(a.weights), c.A(a.pattern1), c.A(a.pattern2)
        P1, P2 = c.A(result[0]), c.A(result[1])
        N = w.n
        m11, m12, m22 = moments(c, w, p1, p2)

        def Q(i, a, s):
            return c.Sum(N, lambda j: w[j] * (d[i, j] - a * p1[j] - s * p2[j]) * (d[i, j] - a * p1[j] - s * p2[j]))

        def normal(i):
            c1 = c.Sum(N, lambda j: d[i, j] * p1[j] * w[j])
            c2 = c.Sum(N, lambda j: d[i, j] * p2[j] * w[j])
            return implies(d.rowmask(i), band(m11 * P1[i] + m12 * P2[i] == c1, m12 * P1[i] + m22 * P2[i] == c2))
        return {
            'shape': band(compare('==', P1.n, d.shape[0]), compare('==', P2.n, d.shape[0])),
            'normal_eq': c.forall(d.shape[0], normal, 'normal_eq'),
            'optimal': c.forall([d.shape[0], 'real', 'real'],
                                lambda i, av, sc: implies(d.rowmask(i), Q(i, av, sc) >= Q(i, P1[i], P2[i])), 'optimal'),
        }


@contract
class OptimalScaling(Contract):
    name = 'sedfitter.fitting_routines.optimal_scaling'
    properties = ('C01', 'C02', 'C11')
    derived = {'optimal': ('normal_eq',)}

    def setup(self, c):
        M, N = c.int('M'), c.int('N')
        c.assume([M >= 0, N >= 0])
        return dict(data=c.array('data', (M, N)), weights=c.array('weights', (N,)), pattern1=c.array('pattern1', (N,)))

    def requires(self, c, a):
        w, p1 = c.A(a.weights), c.A(a.pattern1)
        m11 = c.Sum(w.n, lambda j: w[j] * p1[j] * p1[j])
        return {'w_nonneg': c.forall(w.n, lambda j: w[j] >= 0, 'w>=0'),
                'nonsingular': bnot(m11 == 0)}

    def result(self, c, a):
        data = a.data
        d, w, p1 = c.A(data), c.A(a.weights), c.A(a.pattern1)
        shape = tuple(d.shape[:-1])
        N = w.n
        m11 = c.Sum(N, lambda j: w[j] * p1[j] * p1[j])
        # definitional: the unique solution of the normal equation (m11 != 0 is required)
        fn = lambda idx: c.Sum(N, lambda j: d[tuple(idx) + (j,)] * p1[j] * w[j]) / m11
        if d.mask is not None:
            from sedvc.values import Masked
            return Masked(shape, fn, 'real', d.mrank, d.mask, data.mkey)
        return c.defined_array(shape, fn)

    def ensures(self, c, a, result, old):
        d, w, p1, R = c.A(a.data), c.A(a.weights), c.A(a.pattern1), c.A(result)
        N = w.n
        m11 = c.Sum(N, lambda j: w[j] * p1[j] * p1[j])
        lead = list(d.shape[:-1])

        def Q(idx, s):
            return c.Sum(N, lambda j: w[j] * (d[idx + (j,)] - s * p1[j]) * (d[idx + (j,)] - s * p1[j]))

        def normal(*idx):
            c1 = c.Sum(N, lambda j: d[idx + (j,)] * p1[j] * w[j])
            return implies(d.rowmask(idx[0]), R[idx] * m11 == c1)
        return {
            'normal_eq': c.forall(lead, normal, 'normal_eq'),
            'optimal': c.forall(lead + ['real'],
                                lambda *q: implies(d.rowmask(q[0]), Q(tuple(q[:-1]), q[-1]) >= Q(tuple(q[:-1]), R[tuple(q[:-1])])), 'optimal'),
        }


@contract
class ChiSquared(Contract):
    """chi_squared on 2-d (models x filters) and 3-d (models x distances x filters)
    inputs.  Inputs are not modified (frame)."""
    name = 'sedfitter.fitting_routines.chi_squared'
    properties = ('C01', 'C02', 'C03', 'C04')
    variants = ('2d', '3d')

    def setup(self, c, variant):
        N = c.int('N')
        lead = (c.int('M'),) if variant == '2d' else (c.int('M'), c.int('D'))
        c.assume([N >= 0] + [x >= 0 for x in lead])
        return dict(valid=c.array('valid', (N,), 'int'), data=c.array('data', lead + (N,)),
                    error=c.array('error', (N,)), weight=c.array('weight', (N,)), model=c.array('model', lead + (N,)))

    def requires(self, c, a):
        v, e = c.A(a.valid), c.A(a.error)
        # limits carry a confidence < 1 (confidence 1 gives log(0): only checked by the bounded run)
        return {'confidence_lt_1': c.forall(v.n, lambda j: implies(bor(v[j] == 2, v[j] == 3), e[j] < 1), 'conf<1')}

    def result(self, c, a):
        v, d, e, w, m = c.A(a.valid), c.A(a.data), c.A(a.error), c.A(a.weight), c.A(a.model)
        N = v.n
        # definitional: the result IS the sum of the per-point terms
        return c.defined_array(tuple(m.shape[:-1]),
                               lambda i: c.Sum(N, lambda j: chi2_term(c, v[j], d[tuple(i) + (j,)], m[tuple(i) + (j,)], e[j], w[j]), opaque=True))

    def ensures(self, c, a, result, old):
        v, d, e, w, m, R = c.A(a.valid), c.A(a.data), c.A(a.error), c.A(a.weight), c.A(a.model), c.A(result)
        N = v.n
        lead = list(m.shape[:-1])
        return {
            'term': c.forall(lead, lambda *i: R[i] == c.Sum(N, lambda j: chi2_term(c, v[j], d[i + (j,)], m[i + (j,)], e[j], w[j]), opaque=True), 'chi2.term'),
        }
