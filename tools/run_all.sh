#!/bin/bash
# usage: run_all.sh [tier] [seed]   -- runs every registered check on /repo as it is; one summary line each
cd "$(dirname "$0")/.."
tier=${1:-quick}; seed=${2:-}
[ -n "$seed" ] && export VERIF_SEED=$seed
fail=0
for p in C01 C02 C03 C04 C05 C06 C07 C08 C09 C10 C11 C12 C13 C14 C15 C16 C17 C18 C19 C20; do
  out=$(./check $p $tier 2>&1); rc=$?
  echo "$p rc=$rc $(echo "$out" | grep -e '^OK' -e '^VIOLATION' -e '^UNDECIDED' -e '^CHECKER' -e '^KNOWN' | head -3 | tr '\n' '|' | cut -c1-300)"
  [ $rc -ne 0 ] && fail=1
done
exit $fail
