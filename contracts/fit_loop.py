"""Contracts for sedfitter/fit.py: Fitter.fit and the main loop of fit() (C10, C01, C11)."""
from sedvc import files
from sedvc.contractlib import Contract, contract, Ctx
from sedvc.loops import EventLoop
from sedvc.sym import Sc, compare, band, bor, bnot, implies, ite, arith, fresh_int
from sedvc.values import Opaque, ObjRef, Quantity
from .fit_info import make_fitinfo, FITINFO, META
from .source import make_source, source_arrays, SOURCE
from .models import make_models, MODELS
from .fitinfo_file import writer_state_cases, FIF

FITTER = 'sedfitter.fit.Fitter'
FIT = 'sedfitter.fit.fit'


def make_fitter(c, variant='2d'):
    models = make_models(c, variant)
    N = c.A(c.attr(models, '_wavelengths').value).n
    return c.obj(FITTER, filters=c.list([]), models=models, av_law=c.array('fitter_av_law', (N,)), sc_law=c.array('fitter_sc_law', (N,)),
                 model_dir='models_dir', av_range=(c.real('av_lo'), c.real('av_hi')),
                 extinction_law=c.obj('sedfitter.extinction.extinction.Extinction', _wav=None, _chi=None))


@contract
class FitterFit(Contract):
    """Fitter.fit(source) = models.fit(source, av_law, sc_law, av_range[0], av_range[1]) with the shared
    metadata attached; the fitter and the source are left unchanged (C11: history independence)."""
    name = FITTER + '.fit'
    properties = ('C01', 'C10', 'C11')

    def setup(self, c):
        ft = make_fitter(c)
        N = c.A(c.attr(ft, 'av_law')).n
        return dict(self=ft, source=make_source(c, n=N))

    def requires(self, c, a):
        from .models import ModelsFit
        from sedvc.contractlib import Args
        m = c.attr(a.self, 'models')
        lo, hi = c.attr(a.self, 'av_range')
        return ModelsFit().requires(c, Args(dict(self=m, source=a.source, av_law=c.attr(a.self, 'av_law'), sc_law=c.attr(a.self, 'sc_law'), av_min=lo, av_max=hi,
                                                 output_convolved=False)))

    def result(self, c, a):
        from .models import ModelsFit
        from sedvc.contractlib import Args
        m = c.attr(a.self, 'models')
        lo, hi = c.attr(a.self, 'av_range')
        info = ModelsFit().result(c, Args(dict(self=m, source=a.source, av_law=c.attr(a.self, 'av_law'), sc_law=c.attr(a.self, 'sc_law'), av_min=lo, av_max=hi)))
        meta = c.attr(info, 'meta')
        c.set_attr(meta, 'model_dir', c.attr(a.self, 'model_dir'))
        c.set_attr(meta, 'filters', c.attr(a.self, 'filters'))
        c.set_attr(meta, 'extinction_law', c.attr(a.self, 'extinction_law'))
        return info

    def ensures(self, c, a, result, old):
        calls = [e for e in c.st.events if e[0] == 'call' and e[1] == MODELS + '.fit']
        rets = [e for e in c.st.events if e[0] == 'ret' and e[1] == MODELS + '.fit']
        lo, hi = old.attr(a.self, 'av_range')
        ok = len(calls) == 1 and len(rets) == 1
        if ok:
            b = calls[0][2]
            ok = (b['self'].addr == old.attr(a.self, 'models').addr and b['source'].addr == a.source.addr and b['av_law'].addr == old.attr(a.self, 'av_law').addr
                  and b['sc_law'].addr == old.attr(a.self, 'sc_law').addr and b['av_min'] is lo and b['av_max'] is hi and isinstance(result, ObjRef) and rets[0][2].addr == result.addr)
        meta = c.attr(result, 'meta') if isinstance(result, ObjRef) else None
        return {'is_the_models_fit_of_this_source_with_the_fitter_settings': ok,
                'metadata_attached': isinstance(meta, ObjRef) and c.attr(meta, 'model_dir') == old.attr(a.self, 'model_dir')
                and getattr(c.attr(meta, 'filters'), 'addr', 0) == old.attr(a.self, 'filters').addr
                and getattr(c.attr(meta, 'extinction_law'), 'addr', 0) == old.attr(a.self, 'extinction_law').addr}


@contract
class ModelsRead(Contract):
    """Models.read(directory, filters, ...): reads the package configuration and hands ALL its arguments to the
    reader of the package's format -- _read_version_1 when the configuration has no version (or version 1),
    _read_version_2 otherwise -- and returns that reader's result.  (The readers themselves: C02.)"""
    name = MODELS + '.read'
    properties = ('C01', 'C02', 'C10')
    variants = ('v1', 'v2')

    def setup(self, c, variant):
        from sedvc.interp import ClassVal
        from sedvc import units
        c.interp.package_conf = {'name': 'pkg'} if variant == 'v1' else {'name': 'pkg', 'version': 2}
        self.models = make_models(c, '2d')
        c.interp.package_models = self.models
        self.args = dict(directory='MODELDIR', filters=c.list([]), distance_range=Quantity(c.array('distance_range', (2,)), units.BASE['kpc']),
                         remove_resolved=False, use_memmap=False)
        return dict(cls=ClassVal(c.interp.repo.find_class(MODELS)), **self.args)

    def result(self, c, a):
        m = getattr(c.interp, 'package_models', None)
        return m if m is not None else make_models(c, '2d')

    def raises(self, c, a):
        return {'Exception': ('may', True)}       # whatever the reader refuses (missing files, apertures below the table)

    def ensures(self, c, a, result, old):
        if c.mode != 'verify':
            return {}
        calls = [e for e in c.st.events if e[0] == 'call' and '_read_version_' in e[1]]
        want = MODELS + ('._read_version_1' if 'version' not in c.interp.package_conf else '._read_version_2')
        ok = len(calls) == 1 and calls[0][1] == want
        out = {'the_reader_of_the_package_format_is_used_once': ok}
        if ok:
            b = calls[0][2]
            keys = ['directory', 'filters', 'distance_range', 'remove_resolved'] + (['use_memmap'] if want.endswith('2') else [])
            same = lambda x, y: x is y or (isinstance(x, str) and x == y) or (getattr(x, 'addr', 0) == getattr(y, 'addr', 1))
            out['with_the_arguments_given'] = all(same(b.get(k), self.args[k]) for k in keys)
            out['and_its_result_is_returned'] = getattr(result, 'addr', 0) == self.models.addr
        return out


@contract
class FitterInit(Contract):
    """Fitter.__init__: one filter description per (name, aperture) pair, in order, with the aperture in arcsec and,
    after reading the models, the model wavelength of that filter; the models are read ONCE with exactly the
    arguments given; the extinction pattern is get_av of the model wavelengths; the distance pattern is -2 for every
    filter (flux ~ d^-2 in log space); settings stored as given."""
    name = FITTER + '.__init__'
    properties = ('C01', 'C10')
    variants = ('two_filters', 'two_filters/arcmin')        # (apertures given in arcsec / in arcmin)
    modifies = ('self',)
    assume_pre_of = ('sedfitter.extinction.extinction.Extinction.get_av',)

    def setup(self, c, variant):
        from .extinction import make_extinction, CHI_CGS
        from sedvc import units
        U = units.BASE
        self.models = make_models(c, '2d')
        c.assume(compare('==', c.A(c.attr(self.models, '_wavelengths').value).n, 2))
        c.interp.package_models = self.models
        self.ap = c.array('apertures', (2,))
        law = make_extinction(c, U['micron'], CHI_CGS)
        self.dr = Quantity(c.array('distance_range', (2,)), U['kpc'])
        return dict(self=c.obj(FITTER), filter_names=c.list(['F0', 'F1']), apertures=Quantity(self.ap, units.BASE['arcmin' if str(variant).endswith('/arcmin') else 'arcsec']), model_dir='models_dir',
                    extinction_law=law, av_range=(c.real('av_lo'), c.real('av_hi')), distance_range=self.dr, remove_resolved=False, use_memmap=False)

    def raises(self, c, a):
        return {'Exception': ('may', True)}       # whatever reading the models refuses

    def havoc(self, c, a):
        # at call sites (fit()): the fields of the new fitter
        ft = make_fitter(c)
        for k, v in c.st.heap[ft.addr].attrs.items():
            c.set_attr(a.self, k, v)
        c.set_attr(a.self, 'av_range', a.av_range)
        c.set_attr(a.self, 'model_dir', a.model_dir)
        c.set_attr(a.self, 'extinction_law', a.extinction_law)

    def ensures(self, c, a, result, old):
        if c.mode != 'verify':
            return {}
        from sedvc.values import ListRef, DictRef
        ev = c.st.events
        reads = [e for e in ev if e[0] == 'call' and e[1] == MODELS + '.read']
        avs = [e for e in ev if e[0] == 'call' and e[1].endswith('Extinction.get_av')]
        av_rets = [e for e in ev if e[0] == 'ret' and e[1].endswith('Extinction.get_av')]
        fl = c.attr(a.self, 'filters')
        items = c.st.heap[fl.addr].items if isinstance(fl, ListRef) else []
        out = {'one_filter_description_per_filter': len(items) == 2 and all(isinstance(x, DictRef) for x in items)}
        if not out['one_filter_description_per_filter']:
            return out
        AP = c.A(self.ap)
        wl = c.attr(self.models, '_wavelengths')
        WL = c.A(wl)
        for i, d in enumerate(items):
            di = c.st.heap[d.addr].items
            out['filter_%d_name_aperture_wavelength' % i] = [di.get('name') == 'F%d' % i, compare('==', di.get('aperture_arcsec'), AP[i] * (a.apertures.unit.scale / __import__('sedvc.units', fromlist=['BASE']).BASE['arcsec'].scale)),
                                                           isinstance(di.get('wav'), Quantity) and compare('==', di['wav'].value * di['wav'].unit.scale, WL[i] * wl.unit.scale)]
        out['models_read_once_with_the_given_arguments'] = (len(reads) == 1 and reads[0][2].get('directory') == 'models_dir' and getattr(reads[0][2].get('filters'), 'addr', 0) == fl.addr
                                                            and reads[0][2].get('distance_range') is a.distance_range and reads[0][2].get('remove_resolved') is False
                                                            and reads[0][2].get('use_memmap') is False and getattr(c.attr(a.self, 'models'), 'addr', 0) == self.models.addr)
        out['extinction_pattern_is_get_av_of_the_model_wavelengths'] = (len(avs) == 1 and len(av_rets) == 1 and avs[0][2]['self'].addr == a.extinction_law.addr
                                                                         and avs[0][2]['wav'] is wl and c.attr(a.self, 'av_law') is av_rets[0][2])
        sc = c.A(c.attr(a.self, 'sc_law'))
        av = c.A(c.attr(a.self, 'av_law'))
        out['distance_pattern_is_minus_two'] = [compare('==', sc.n, av.n), c.forall(sc.n, lambda j: sc[j] == -2, 'sc_law')]
        out['settings_stored'] = c.attr(a.self, 'model_dir') == 'models_dir' and (lambda r: isinstance(r, tuple) and len(r) == 2 and r[0] is a.av_range[0] and r[1] is a.av_range[1])(c.attr(a.self, 'av_range')) and c.attr(a.self, 'extinction_law').addr == a.extinction_law.addr
        return out


@contract
class DeleteFile(Contract):
    name = 'sedfitter.utils.io.delete_file'
    trusted = 'assumed (interactive file removal)'


def _same_tuple(x, y):
    return isinstance(x, tuple) and isinstance(y, tuple) and len(x) == len(y) and all((p is q) or (isinstance(p, str) and p == q) or (isinstance(p, Sc) and isinstance(q, Sc) and p.t.eq(q.t)) for p, q in zip(x, y))


def _fit_check(c, paths):
    obs = []
    env = c.st.env
    n_min, oc, fmt, fout = env['n_data_min'], env['output_convolved'], env['output_format'], env['fout']
    # the threshold and the selector are the ARGUMENTS the caller gave, not whatever the function's locals hold by now
    given = getattr(c.interp, 'fit_given', None)
    if given is not None:
        n_min, fmt = given['n_data_min'], given['output_format']
    for s, ev, status in paths:
        calls = [(e[1].split('.')[-1], e[2]) for e in ev if e[0] == 'call']
        rets = dict((e[1].split('.')[-1], e[2]) for e in ev if e[0] == 'ret')
        names = [n for n, _ in calls]
        if status == 'break':
            obs.append((s, 'end_of_input_writes_nothing', 'write' not in names and 'fit' not in names))
            continue
        if status == 'raise':
            obs.append((s, 'malformed_line_is_an_error_not_a_record', 'write' not in names and s.exc[0] in ('ValueError',)))
            continue
        nd = rets.get('n_data')
        if 'write' in names:
            seq_ok = names == ['from_ascii', 'n_data', 'fit', 'keep', 'write']
            obs.append((s, 'eligible_source_is_fitted_selected_written_once', seq_ok))
            if not seq_ok:
                continue
            src, info = rets['from_ascii'], rets['fit']
            b = dict(calls)
            obs.append((s, 'fits_the_source_just_read', b['fit']['source'].addr == src.addr and b['n_data']['self'].addr == src.addr))
            obs.append((s, 'selector_is_the_output_selector_applied_to_that_fit', b['keep']['self'].addr == info.addr and _same_tuple(b['keep']['select_format'], fmt)))
            obs.append((s, 'that_record_is_written_to_the_output', b['write']['info'].addr == info.addr and b['write']['self'].addr == fout.addr))
            mf = s.heap[info.addr].attrs['model_fluxes']
            obs.append((s, 'predicted_fluxes_only_if_requested', (mf is not None) if oc else (mf is None)))
            obs.append((s, 'eligibility', compare('>=', nd, n_min)))
        else:
            obs.append((s, 'ineligible_source_is_skipped_entirely', names == ['from_ascii', 'n_data']))
            if nd is not None:
                obs.append((s, 'ineligibility', compare('<', nd, n_min)))
    return obs


@contract
class FitMain(Contract):
    """fit(): for every input line in order: end of input (fewer than three columns) stops the loop; a
    source whose number of fitted points reaches n_data_min is fitted, stripped of its predicted
    fluxes unless output_convolved, cut by the output selector, and written as exactly one record;
    any other source writes nothing."""
    name = FIT
    properties = ('C10',)
    variants = ('convolved', 'plain')
    loops = {2: EventLoop('sources', _fit_check, havoc=writer_state_cases('fout'))}
    # the numeric domain of the fitter / selector (positive fluxes, non-singular regression, n_data >= 1 ...) is a
    # condition on the data lines, not on the orchestration verified here
    assume_pre_of = (FITTER + '.fit', FITINFO + '.keep')

    def setup(self, c, variant):
        args = self._args(c, variant)
        c.interp.fit_given = dict(n_data_min=args['n_data_min'], output_format=args['output_format'])
        return args

    def _args(self, c, variant):
        return dict(data='data.txt', filter_names=c.list([]), apertures=Opaque('apertures'), model_dir='models_dir', output='out.fitinfo',
                    n_data_min=c.int('n_data_min'), extinction_law=c.obj('sedfitter.extinction.extinction.Extinction', _wav=None, _chi=None),
                    av_range=(c.real('av_lo'), c.real('av_hi')), distance_range=Opaque('distance_range'), output_format=('F', c.real('sel')),
                    output_convolved=(variant == 'convolved'), remove_resolved=False)

    def raises(self, c, a):
        return {'ValueError': ('may', True), 'Exception': ('may', True)}      # malformed data lines; models that cannot be read

    def ensures(self, c, a, result, old):
        closes = [e for e in c.st.events if e[0] == 'call' and e[1].endswith('FitInfoFile.close')]
        return {}
