"""Contract for SED.interpolate_variable (C13, C17): a different aperture at every wavelength."""
import fractions

from sedvc import units
from sedvc.contractlib import Contract, contract
from sedvc.sym import Sc, compare, band, bor, bnot, implies, ite
from sedvc.values import Quantity
from .integrate import strictly_increasing
from .sed import make_sed, SED

U = units.BASE


@contract
class SedInterpolateVariable(Contract):
    """SED.interpolate_variable(wavelengths, apertures): one value per SED wavelength.  At an SED wavelength that
    is one of the given (filter) wavelengths -- whatever the order the filters are given in -- the value is the SED's
    flux at that wavelength interpolated linearly in aperture to THAT filter's aperture (an aperture beyond the
    largest tabulated one is replaced by 0.999 of it, as the code has always done); an aperture below the
    smallest tabulated one is refused; a single-aperture SED gives its only row.  (scipy's ValueError for an
    intermediate aperture that leaves the table may propagate: a refusal, never a wrong value.)"""
    name = SED + '.interpolate_variable'
    properties = ('C13', 'C17')
    variants = ('multi', 'single')
    modifies = ('apertures',)
    # the property-level clause follows from the two steps the function takes (proved separately on the body)
    derived = {'at_a_filter_wavelength_the_flux_at_that_filters_aperture': ('aperture_used_at_a_filter_wavelength_is_that_filters', 'value_is_the_interpolant_at_the_aperture_used',
                                                                          'filters_visited_through_a_permutation')}

    def result(self, c, a):
        W = c.A(c.attr(a.self, '_wav'))
        return c.fresh_array('ivar', (W.n,))

    def setup(self, c, variant):
        F = c.int('n_filters')
        c.assume(F >= 2)
        c.interp.interp1d_outside = 'raise'
        sed = make_sed(c, n_ap=1 if variant == 'single' else None)
        return dict(self=sed, wavelengths=c.array('filter_wav', (F,)), apertures=c.array('filter_ap', (F,)))

    def requires(self, c, a):
        wl, ap = c.A(a.wavelengths), c.A(a.apertures)
        req = {'filters': [compare('==', wl.n, ap.n), c.forall(wl.n, lambda f: band(wl[f] > 0, ap[f] > 0), 'positive'),
                           c.forall([wl.n, wl.n], lambda f, g: implies(bnot(f == g), bnot(wl[f] == wl[g])), 'distinct wavelengths')]}
        tab = c.attr(a.self, '_apertures')
        if tab is not None:
            T = c.A(tab)
            W = c.A(c.attr(a.self, '_wav'))
            n = T.n
            req['table'] = [strictly_increasing(c, T), c.forall(T.n, lambda k: T[k] > 0, 'apertures > 0'), c.forall(W.n, lambda w: W[w] > 0, 'wav > 0'),
                            compare('==', c.A(c.attr(a.self, '_flux')).shape[0], T.n), compare('==', c.A(c.attr(a.self, '_flux')).shape[1], W.n),
                            # tables narrower than 0.1% are excluded (0.999 a_max would fall below a_min)
                            T[n - 1] * fractions.Fraction(999, 1000) >= T[0]]
        return req

    def raises(self, c, a):
        tab = c.attr(a.self, '_apertures')
        if tab is None:
            return {}
        T, ap = c.A(tab), c.A(a.apertures)
        k = tab.unit.scale / U['au'].scale
        return {'Exception': c.Any(ap.n, lambda f: ap[f] < T[0] * k), 'ValueError': ('may', True)}

    def ensures(self, c, a, result, old):
        tab = c.attr(a.self, '_apertures')
        fq = c.attr(a.self, '_flux')
        FL = c.A(fq)
        R = c.A(result.value if isinstance(result, Quantity) else result)
        W = c.A(c.attr(a.self, '_wav'))
        if tab is None:
            return {'single_aperture_gives_its_only_row': [compare('==', R.n, W.n), c.forall(W.n, lambda w: R[w] == FL[0, w], 'row')]}
        T = old.A(tab)
        k = tab.unit.scale / U['au'].scale
        wl, ap0 = old.A(a.wavelengths), old.A(a.apertures)
        wk = c.attr(a.self, '_wav').unit.scale / U['micron'].scale
        n = T.n
        amax = T[n - 1] * k

        def used(f):
            return ite(ap0[f] > amax, amax * fractions.Fraction(999, 1000), ap0[f])

        # the filters are visited through the permutation that sorts their wavelengths (the code's `order`: a witness);
        # every filter is O[j] for some position j, so quantifying over positions covers every filter
        O = c.A(c.witness('order', (wl.n,), 'int'))

        def clause(w, j, s):
            f = O[j]
            a_ = used(f)
            x0, x1 = T[s] * k, T[s + 1] * k
            line = FL[s, w] + (a_ - x0) * (FL[s + 1, w] - FL[s, w]) / (x1 - x0)
            return implies(band(W[w] * wk == wl[f], band(x0 <= a_, a_ <= x1)), R[w] == line)
        # the aperture the function ends up using at every SED wavelength (the code's final `apertures`: a witness)
        APN = c.A(c.witness('apertures', (W.n,), 'real'))

        def step_a(w, j):
            return implies(W[w] * wk == wl[O[j]], APN[w] == used(O[j]))

        def step_b(w, s):
            x0, x1 = T[s] * k, T[s + 1] * k
            line = FL[s, w] + (APN[w] - x0) * (FL[s + 1, w] - FL[s, w]) / (x1 - x0)
            return implies(band(x0 <= APN[w], APN[w] <= x1), R[w] == line)
        return {'one_value_per_wavelength': compare('==', R.n, W.n),
                'filters_visited_through_a_permutation': [c.forall(wl.n, lambda j: band(O[j] >= 0, O[j] < wl.n), 'range'),
                                                          c.forall([wl.n, wl.n], lambda i, j: implies(bnot(i == j), bnot(O[i] == O[j])), 'injective')],
                'aperture_used_at_a_filter_wavelength_is_that_filters': c.forall([W.n, wl.n], step_a, 'aperture used'),
                'value_is_the_interpolant_at_the_aperture_used': c.forall([W.n, n - 1], step_b, 'interpolant'),
                'at_a_filter_wavelength_the_flux_at_that_filters_aperture': c.forall([W.n, wl.n, n - 1], clause, 'filter aperture')}
