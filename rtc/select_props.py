"""Bounded (E2) check of C05: FitInfo.keep on exhaustively enumerated ranked chi^2 vectors."""
import itertools
import math

import numpy as np

from . import pkg
from .core import Recorder, close, jsonable, unjson_floats

ALPHABET = (0.5, 1., 1., 2., 3., float('inf'), float('nan'))


def ranked_vectors(nmax):
    """Every non-decreasing vector (NaN last) of length 0..nmax over the alphabet."""
    vals = (0.5, 1., 2., 3., float('inf'), float('nan'))
    seen = set()
    for n in range(0, nmax + 1):
        for combo in itertools.combinations_with_replacement(range(len(vals)), n):
            v = tuple(vals[i] for i in combo)
            key = tuple('nan' if isinstance(x, float) and math.isnan(x) else x for x in v)
            if key not in seen:
                seen.add(key)
                yield list(v)


def make_info(chi2, n_flags):
    from sedfitter.fit_info import FitInfo
    n = len(chi2)
    info = FitInfo()
    info.source = pkg.make_source('s', n_flags, [1.] * len(n_flags), [.1] * len(n_flags))
    info.chi2 = np.array(chi2, dtype=float)
    info.av = np.arange(n) * 1.5 + 0.25
    info.sc = -np.arange(n) * 0.5 - 1.
    info.model_name = np.array(['m%03d' % (7 * i % 101) for i in range(n)])
    info.model_id = (np.arange(n) * 3 + 1)
    info.model_fluxes = np.arange(n * 2, dtype=float).reshape(n, 2)
    return info


def expected_count(chi2, form, number, n_data):
    n = len(chi2)
    if form == 'A':
        return n, n
    if form == 'N':
        c = min(int(number), n)
        return c, c
    def q(k):
        if form == 'C':
            return chi2[k]
        if form == 'D':
            return chi2[k] - chi2[0]
        if form == 'E':
            return chi2[k] / n_data
        return (chi2[k] - chi2[0]) / n_data
    with np.errstate(invalid='ignore'):
        lo = sum(1 for k in range(n) if q(k) < number)      # must be kept
        hi = sum(1 for k in range(n) if q(k) <= number)     # may be kept
    return lo, hi


def snapshot(info):
    return dict(av=np.array(info.av), sc=np.array(info.sc), chi2=np.array(info.chi2), name=list(info.model_name),
                id=np.array(info.model_id), mf=None if info.model_fluxes is None else np.array(info.model_fluxes))


def is_prefix(after, before, p):
    return (len(after['av']) == len(after['sc']) == len(after['chi2']) == len(after['name']) == len(after['id']) == p
            and (after['mf'] is None or len(after['mf']) == p)
            and close(after['av'], before['av'][:p], 0, 0) and close(after['sc'], before['sc'][:p], 0, 0)
            and close(after['chi2'], before['chi2'][:p], 0, 0) and after['name'] == before['name'][:p]
            and np.array_equal(after['id'], before['id'][:p]) and (after['mf'] is None or close(after['mf'], before['mf'][:p], 0, 0)))


def c05_one(rec, case):
    c = unjson_floats(case)
    chi2, flags = c['chi2'], c['flags']
    n_data = sum(1 for f in flags if f in (1, 4))
    sel = (c['form'], c['number'])
    info = make_info(chi2, flags)
    if c.get('shuffle') is not None and len(chi2) > 1:
        # the ranking is the one FitInfo.sort() itself produces from an unranked result (a NaN or an infinity anywhere)
        perm = np.random.default_rng(int(c['shuffle'])).permutation(len(chi2))
        info = make_info([chi2[i] for i in perm], flags)
        try:
            info.sort()
        except Exception as e:
            rec.fail('crash', 'sort() raised %s: %s' % (type(e).__name__, e), case)
            return False
        got, want = np.asarray(info.chi2, dtype=float), np.asarray(chi2, dtype=float)
        if not rec.expect(got.shape == want.shape and bool(np.all((got == want) | (np.isnan(got) & np.isnan(want)))), 'ranked_by_sort',
                          'sort() of %s gives %s, not the ranking %s' % ([chi2[i] for i in perm], [float(x) for x in got], chi2), case):
            return False
    before = snapshot(info)
    try:
        info.keep(sel)
    except Exception as e:
        rec.fail('crash', 'keep%r raised %s: %s' % (sel, type(e).__name__, e), case)
        return False
    after = snapshot(info)
    p = len(after['chi2'])
    lo, hi = expected_count(chi2, c['form'], c['number'], n_data)
    ok = rec.expect(lo <= p <= hi, 'kept_set', 'chi2=%s n_data=%d selector=%r: kept %d, expected %s' % (chi2, n_data, sel, p, lo if lo == hi else (lo, hi)), case)
    ok &= rec.expect(is_prefix(after, before, p), 'all_cut_alike', 'selector=%r: the per-fit arrays are not all the same prefix of the ranking' % (sel,), case)
    ok &= rec.expect(info.n_fits == p, 'n_fits', 'n_fits %r != %d' % (info.n_fits, p), case)
    # selecting twice == once
    info.keep(sel)
    ok &= rec.expect(is_prefix(snapshot(info), before, p), 'idempotent', 'selecting twice with %r differs from selecting once' % (sel,), case)
    # looser selector first
    if c.get('loose') is not None:
        loose = tuple(c['loose'])
        i2 = make_info(chi2, flags)
        if c.get('shuffle') is not None and len(chi2) > 1:
            i2 = make_info([chi2[i] for i in perm], flags)
            i2.sort()
        i2.keep(loose)
        p_loose = len(i2.chi2)
        if p_loose >= p:
            i2.keep(sel)
            ok &= rec.expect(is_prefix(snapshot(i2), before, p), 'composition', 'keep%r then keep%r differs from keep%r alone' % (loose, sel, sel), case)
    return ok


def run_c05(tier, seed):
    nmax = 4 if tier == 'quick' else 5
    rec = Recorder('C05', 'EXHAUSTIVE ranked chi^2 vectors of length 0..%d over {0.5,1,2,3,inf,nan} (with repeats = ties) x selectors '
                          'A, N(0..n+1), C/D/E/F with thresholds on a grid avoiding attained values x n_data in {1,2,3} (flags with limits '
                          'and plot-only points that must not count) x a looser selector applied first; plus random longer vectors; '
                          'distinct = (vector, selector); non-trivial = vector non-empty and selector cuts it' % nmax)
    rng = np.random.default_rng(seed + 5)
    thresholds = (-0.25, 0.25, 0.75, 1.25, 2.5, 7., 1e40)
    flag_sets = ([1, 2, 9, 0], [1, 4, 3, 9], [1, 1, 4, 2, 9, 0])
    for chi2 in ranked_vectors(nmax):
        n = len(chi2)
        sels = [('A', 0.)] + [('N', m) for m in range(0, n + 2)] + [(f, t) for f in 'CDEF' for t in thresholds]
        for si, sel in enumerate(sels):
            flags = flag_sets[(si + n) % 3]
            loose = None
            if sel[0] in 'CDEF':
                loose = [sel[0], sel[1] + 1.5]
            elif sel[0] == 'N':
                loose = ['N', sel[1] + 1]
            case = dict(seed=seed, tag='c05', chi2=jsonable(chi2), flags=flags, form=sel[0], number=sel[1], loose=loose, shuffle=(si + 7 * n if si % 3 == 0 else None))
            ok = c05_one(rec, case)
            rec.case(key=(tuple(jsonable(chi2)), sel), nontrivial=n > 0 and sel[0] != 'A',
                     sample=dict(chi2=jsonable(chi2), selector=list(sel), n_data=sum(1 for f in flags if f in (1, 4))) if n == 3 and si == 9 else None)
            if not ok and len(rec.violations) >= 3:
                return rec, {'c05': c05_one}
    rec.exhaustive = True
    for t in range(40 if tier == 'quick' else 1000):
        n = int(rng.integers(6, 40))
        chi2 = np.sort(np.round(rng.exponential(3., n), 1))
        k = int(rng.integers(0, 3))
        chi2 = list(chi2[:n - k]) + [float('inf')] * (k // 2 + k % 2) + [float('nan')] * (k // 2)
        sel = (str(rng.choice(list('CDEF'))), float(np.round(rng.uniform(0, 8), 1) + 0.05))
        case = dict(seed=seed, tag='c05', chi2=jsonable(chi2), flags=flag_sets[t % 3], form=sel[0], number=sel[1], loose=[sel[0], sel[1] + 2.], shuffle=(t if t % 2 else None))
        c05_one(rec, case)
        rec.case(key=('long', t), nontrivial=True)
    # n_data follows the flags it is asked about now, not the ones at construction
    info = make_info([1., 2., 3., 4.], [1, 1, 4, 2, 9, 0])
    info.source.valid[0] = 0
    info.source.valid[1] = 2
    case = dict(seed=seed, tag='c05-stale', chi2=[1., 2., 3., 4.], flags=[0, 2, 4, 2, 9, 0], form='E', number=2.5, loose=None)
    info.keep(('E', 2.5))
    rec.expect(len(info.chi2) == 2, 'n_data_current_flags', 'after editing flags in place, n_data is stale: E-selector kept %d, expected 2' % len(info.chi2), case)
    rec.case(key='stale')
    return rec, {'c05': c05_one, 'c05-stale': c05_one}


REPLAY = {'c05': c05_one, 'c05-stale': c05_one}
