"""Contract for sedfitter/convolve/monochromatic.py: convolve_model_dir_monochromatic (C16).

The whole function is executed symbolically on its real text.  File-system calls, the parameter table and
the SED reader are abstracted by (assumed) contracts; the lists of output objects built by a comprehension
over a symbolic range are kept abstract and everything done to their elements is recorded as events.  What
is proved is the index logic for EVERY number of wavelengths, chunk size and window:

  window   [jlo, jhi] is exactly the set of wavelength indices with wav_min <= wav_j < wav_max
  loop 1   each chunk [jmin, jmax] lies in the window, is not longer than the list of output objects, and the
           next chunk starts right after it (or the window is finished): the chunks tile [jlo, jhi]
  loop 3   in chunk position j every field of output object j (central wavelength, name, flux, error of
           model row im) is taken at wavelength index j + jmin of the SED just read -- no index out of range
  loop 4   output object j is sorted to the parameter-table order and written exactly once, to file number
           j + jmin + 1, and that name is entered at row j + jmin of the returned table
"""
import z3

from sedvc import units
from sedvc.contractlib import Contract, contract
from sedvc.loops import EventLoop
from sedvc.sym import Sc, compare, band, bor, bnot, implies, ite, arith, fresh_int
from sedvc.values import Quantity, Opaque, Abstract, ObjRef
from .sed import SED

U = units.BASE
MONO = 'sedfitter.convolve.monochromatic.convolve_model_dir_monochromatic'


@contract
class ParfileRead(Contract):
    name = 'sedfitter.utils.parfile.read'
    trusted = 'assumed (text file parsing; exercised by the bounded runs): returns the dictionary of the package configuration'

    def result(self, c, a):
        return c.dict(dict(getattr(c.interp, 'package_conf', {})))


@contract
class LoadParameterTable(Contract):
    name = 'sedfitter.models.load_parameter_table'
    trusted = 'assumed (FITS table I/O): returns the package parameter table'

    def result(self, c, a):
        t = getattr(c.interp, 'package_par_table', None)
        if t is None:
            from sedvc.extmodels import table_new
            R = c.int('par_rows')
            c.assume(R >= 0)
            t = table_new(c.st, dict(MODEL_NAME=c.array('par_name', (R,), 'int')), R)
            c.interp.package_par_table = t
        return t


def _same_term(x, y):
    if isinstance(x, Sc) and isinstance(y, Sc):
        return z3.simplify(x.t - y.t).eq(z3.IntVal(0)) if x.is_int and y.is_int else x.t.eq(y.t)
    return x is y or (isinstance(x, (int, str)) and x == y)


def _same_abstract(x, y):
    """formula: the two abstract list elements are the same element (same list, equal index)"""
    if not (isinstance(x, Abstract) and isinstance(y, Abstract) and x.tag == y.tag and x.key[0] == y.key[0]):
        return False
    return compare('==', x.key[1], y.key[1])


def _all(fs):
    out = True
    for f in fs:
        if f is False:
            return False
        out = band(out, f)
    return out


def _item_int(name, lo, hi):
    """loop item: an arbitrary integer of the iterated range (a stride is ignored: more general)."""
    def item(c, it):
        k = Sc(fresh_int(name))
        c.st.assume_pc(band(compare('<=', lo(c, it), k), compare('<', k, hi(c, it))))
        return k
    return item


def _names_havoc(c):
    """The 'filter' column of the returned table is filled row by row: between iterations it holds arbitrary names."""
    filt = c.st.env['filters']
    cell = c.st.heap[filt.addr]
    cols = dict(cell.attrs['@cols'])
    old = cols['filter']
    cols['filter'] = c.fresh_array('names_so_far', c.A(old).shape, 'int')
    attrs = dict(cell.attrs)
    attrs['@cols'] = cols
    from sedvc.values import ObjCell
    c.st.heap[filt.addr] = ObjCell('<table>', attrs)


def _chunk_item(c, it):
    c.interp.mono_range = it
    k = Sc(fresh_int('jmin'))
    c.st.assume_pc(band(compare('<=', it.start, k), compare('<', k, it.stop)))
    return k


def _chunk_check(c, paths):
    """loop 1 (chunks): obligations on the state at the END of an arbitrary chunk iteration."""
    obs = []
    e0 = c.st.env
    jlo, jhi, step = e0['jlo'], e0['jhi'], e0['chunk_size']
    obs.append((c.st, 'chunk_size_at_least_one', compare('>=', step, 1)))
    rng = c.interp.mono_range
    # the chunk starts are jlo, jlo + chunk_size, ... as long as they are <= jhi (an overshoot is excluded by chunk_inside_window)
    obs.append((c.st, 'chunk_starts_cover_the_window', band(band(compare('==', rng.start, jlo), compare('==', rng.step, step)), compare('>', rng.stop, jhi))))
    wq = e0['wavelengths']
    Wv = c.A(wq)
    # (the limits may be given in any length unit: compared in the unit of the wavelengths)
    w0, w1 = c.interp.__dict__['mono_window']
    lo = w0.value * (w0.unit.scale / wq.unit.scale)
    hi = w1.value * (w1.unit.scale / wq.unit.scale)
    obs.append((c.st, 'window_is_exactly_the_wavelengths_inside', c.forall(Wv.n, lambda k: band(compare('<=', jlo, k), compare('<=', k, jhi)) == band(Wv[k] >= lo, Wv[k] < hi), 'window')))
    obs.append((c.st, 'window_indices_in_range', band(compare('<=', 0, jlo), compare('<', jhi, Wv.n))))
    for s, ev, status in paths:
        if status != 'run':
            obs.append((s, 'chunk_iteration_completes', False))
            continue
        env = s.env
        jmin, jmax = env['jmin'], env['jmax']
        obs.append((s, 'chunk_inside_window', band(compare('<=', jmin, jmax), compare('<=', jmax, jhi))))
        obs.append((s, 'chunks_tile_the_window', bor(compare('==', arith('+', jmax, 1), arith('+', jmin, step)),
                                                     band(compare('==', jmax, jhi), compare('>', arith('+', jmin, step), jhi)))))
        fl = env['fluxes']
        obs.append((s, 'one_output_object_per_chunk_position', compare('<=', arith('+', arith('-', jmax, jmin), 1), fl.length)))
    return obs


def _sed_item(c, it):
    # enumerate(sed_files): an arbitrary position im and the file at that position
    k = Sc(fresh_int('im'))
    seq = it.inner
    c.interp.mono_models = it
    c.st.assume_pc(band(compare('<=', 0, k), compare('<', k, seq.length)))
    return (k, seq.item(k))


def _sed_check(c, paths):
    it = c.interp.mono_models
    obs = [(c.st, 'every_sed_file_is_visited_with_its_position', it.inner is c.st.env['sed_files'] and it.start == 0)]
    for s, ev, status in paths:
        obs.append((s, 'model_iteration_completes', status == 'run'))
    return obs


def _pos_item(c, it):
    c.interp.mono_positions = it
    k = Sc(fresh_int('j'))
    c.st.assume_pc(band(compare('<=', it.start, k), compare('<', k, it.stop)))
    return k


def _fill_check(c, paths):
    """loop 3: output object j receives wavelength index j + jmin of the SED just read, in row im."""
    e0 = c.st.env
    rng = c.interp.mono_positions
    obs = [(c.st, 'every_position_of_the_chunk_is_filled', band(band(compare('==', rng.start, 0), compare('==', rng.step, 1)),
                                                                 compare('==', rng.stop, arith('+', arith('-', e0['jmax'], e0['jmin']), 1))))]
    for s, ev, status in paths:
        if status != 'run':
            obs.append((s, 'fill_completes', False))
            continue
        env = s.env
        j, jmin, im, sed, fl = env['j'], e0['jmin'], e0['im'], e0['s'], e0['fluxes']
        w = arith('+', j, jmin)
        target = [e for e in ev if e[0] in ('set', 'store')]
        objs_ok = _all([_same_abstract(e[1], Abstract('elem', (fl.item(j).key[0], j))) for e in target])
        obs.append((s, 'only_output_object_j_is_touched', objs_ok if len(target) == 5 else False))
        sets = dict((e[2], e[3]) for e in ev if e[0] == 'set')
        stores = dict((e[2], (e[3], e[4])) for e in ev if e[0] == 'store')
        wav = e0['wavelengths']
        cw = sets.get('central_wavelength')
        W = c.A(wav)
        obs.append((s, 'central_wavelength_is_wavelength_j_plus_jmin', isinstance(cw, Quantity) and compare('==', cw.value, W[w]) if isinstance(cw, Quantity) else False))
        ap = sets.get('apertures')
        obs.append((s, 'apertures_carried_over', ap is e0['apertures'] or (isinstance(ap, Quantity) and isinstance(e0['apertures'], Quantity) and ap.value is e0['apertures'].value)))
        nm = stores.get('model_names')
        sname = c.attr(sed, 'name')
        obs.append((s, 'row_im_is_labelled_with_the_name_of_the_sed_just_read', nm is not None and _same_term(nm[0], im) and (nm[1] is sname or _same_term(nm[1], sname))))
        F, E = c.A(c.attr(sed, '_flux')), c.A(c.attr(sed, '_error'))
        for fld, T in (('flux', F), ('error', E)):
            st_ = stores.get(fld)
            if st_ is None:
                obs.append((s, 'row_im_holds_%s_at_that_wavelength' % fld, False))
                continue
            key, val = st_
            row_ok = _same_term(key, im) or (isinstance(key, tuple) and _same_term(key[0], im))
            V = c.A(val) if not isinstance(val, (Sc, int)) and not (isinstance(val, Quantity) and isinstance(val.value, Sc)) else None
            if V is None:
                v = val.value if isinstance(val, Quantity) else val
                goal = compare('==', v, T[0, w])
            else:
                goal = [compare('==', V.n, T.shape[0]), c.forall(T.shape[0], (lambda V, T: lambda i: V[i] == T[i, w])(V, T), 'per aperture')]
            obs.append((s, 'row_im_holds_%s_at_that_wavelength' % fld, goal if row_ok else False))
    return obs


def _fmt_arg(x):
    """the number formatted into a file / filter name"""
    if isinstance(x, Opaque) and x.tag == 'format':
        tmpl, args = x.info
        return tmpl, args
    return None, ()


class _NotAFormat(Exception):
    pass


def _pieces(x):
    """What string a value denotes, as a list of pieces: ('lit', text) | ('num', format spec, term) | ('str', id of an
    opaque string).  Nested `.format` results are spliced in, so that the SAME string built in two steps (a name
    formatted first, then put into the path) has the same pieces.  Anything else (concatenation, os.path.join, %,
    f-strings the executor keeps opaque): _NotAFormat -- the clause is then undecided, not false."""
    import string
    from sedvc.sym import Sc as _Sc
    if isinstance(x, str):
        return [('lit', x)]
    if isinstance(x, Opaque) and x.tag == 'str':
        return [('str', repr(x.info))]
    if not (isinstance(x, Opaque) and x.tag == 'format'):
        raise _NotAFormat(repr(x))
    tmpl, args = x.info
    out, auto = [], 0
    for lit, field, spec, conv in string.Formatter().parse(tmpl):
        if lit:
            out.append(('lit', lit))
        if field is None:
            continue
        if conv:
            raise _NotAFormat('conversion !%s' % conv)
        if field == '':
            k, auto = auto, auto + 1
        elif field.isdigit():
            k = int(field)
        else:
            raise _NotAFormat('field %r' % field)
        if k >= len(args):
            raise _NotAFormat('missing argument')
        a = args[k]
        if isinstance(a, (str, Opaque)):
            if spec not in ('', 's'):
                raise _NotAFormat('string formatted with %r' % spec)
            out.extend(_pieces(a))
        elif isinstance(a, (_Sc, int)) and not isinstance(a, bool):
            out.append(('num', spec or '', a))
        else:
            raise _NotAFormat(repr(a))
    merged = []
    for pc in out:
        if merged and pc[0] == 'lit' and merged[-1][0] == 'lit':
            merged[-1] = ('lit', merged[-1][1] + pc[1])
        else:
            merged.append(pc)
    return merged


def _same_string(x, expected):
    """x denotes the string described by `expected` (pieces): True / False, or a Stale clause when x is built in a
    way the pieces cannot express."""
    from sedvc.sym import Stale
    try:
        got = _pieces(x)
    except _NotAFormat as e:
        return Stale('the file name is built in a way the contract cannot read (%s)' % e)
    if len(got) != len(expected):
        return False
    for g, w in zip(got, expected):
        if g[0] != w[0]:
            return False
        if g[0] == 'num':
            if g[1] != w[1] or not _same_term(g[2], w[2]):
                return False
        elif g[1] != w[1]:
            return False
    return True


def _write_check(c, paths):
    """loop 4: output object j is sorted and written once, to file number j + jmin + 1, named in row j + jmin."""
    e0 = c.st.env
    rng = c.interp.mono_positions
    obs = [(c.st, 'every_position_of_the_chunk_is_written', band(band(compare('==', rng.start, 0), compare('==', rng.step, 1)),
                                                                  compare('==', rng.stop, arith('+', arith('-', e0['jmax'], e0['jmin']), 1))))]
    for s, ev, status in paths:
        if status != 'run':
            obs.append((s, 'write_completes', False))
            continue
        j, jmin, fl = s.env['j'], e0['jmin'], e0['fluxes']
        w1 = arith('+', arith('+', j, jmin), 1)
        calls = [e for e in ev if e[0] == 'mcall']
        names = [e[2] for e in calls]
        me = Abstract('elem', (fl.item(j).key[0], j))
        obs.append((s, 'sorted_then_written_exactly_once', _all([_same_abstract(e[1], me) for e in calls]) if names == ['sort_to_match', 'write'] else False))
        if names != ['sort_to_match', 'write']:
            continue
        par = e0['par_table']
        arg = calls[0][3][0] if calls[0][3] else None
        from sedvc.extmodels import is_table
        pcol = s.heap[par.addr].attrs['@cols']['MODEL_NAME'] if is_table(s, par) else None
        obs.append((s, 'sorted_to_the_parameter_table_order', arg is not None and pcol is not None and (arg is pcol or getattr(arg, 'addr', 0) == getattr(pcol, 'addr', 1))))
        # the file written is <model_dir>/convolved/MO<w1, three digits>.fits -- however the string is put together
        md = e0['model_dir']
        want = [pc for pc in (_pieces(md) if isinstance(md, (str, Opaque)) else [('str', repr(md))])] + [('lit', '/convolved/MO'), ('num', '03d', w1), ('lit', '.fits')]
        merged = []
        for pc in want:
            if merged and pc[0] == 'lit' and merged[-1][0] == 'lit':
                merged[-1] = ('lit', merged[-1][1] + pc[1])
            else:
                merged.append(pc)
        obs.append((s, 'file_number_is_wavelength_index_plus_one', _same_string(calls[1][3][0] if calls[1][3] else None, merged)))
        # the row of the returned table
        filt = e0['filters']
        col0 = c.st.heap[filt.addr].attrs['@cols']['filter']
        col1 = s.heap[filt.addr].attrs['@cols']['filter']
        from sedvc.contractlib import Ctx
        A0, A1 = c.A(col0), Ctx(c.interp, s, c.fr).A(col1)
        from sedvc.extmodels import format_code
        code = format_code('MO{0:03d}', (w1,))
        wi = arith('+', j, jmin)
        obs.append((s, 'table_row_names_that_file', [A1[wi] == code, c.forall(A0.n, lambda k: implies(bnot(k == wi), A1[k] == A0[k]), 'other rows untouched')]))
    return obs


@contract
class Monochromatic(Contract):
    name = MONO
    properties = ('C16',)
    variants = ('window', 'window/nm')        # (window limits in micron / in nm)
    loops = {1: EventLoop('chunks', _chunk_check, item=_chunk_item, havoc=_names_havoc),
             2: EventLoop('models', _sed_check, item=_sed_item),
             3: EventLoop('fill', _fill_check, item=_pos_item),
             4: EventLoop('write', _write_check, item=_pos_item, havoc=_names_havoc)}
    # positivity / monotone axis of each SED file: conditions on the package data, not on the orchestration
    assume_pre_of = (SED + '.read',)

    def setup(self, c, variant):
        from sedvc.interp import SymSeq
        M, A, W = c.int('n_models'), c.int('n_ap'), c.int('n_wav')
        c.assume([M >= 1, A >= 1, W >= 2])
        self.wav, self.nu, self.ap = c.array('pkg_wav', (W,)), c.array('pkg_nu', (W,)), c.array('pkg_ap', (A,))
        c.interp.shared_sed_grid = (A, W, self.wav, self.nu, self.ap)
        self.dims = (M, A, W)
        c.interp.package_conf = {'name': 'pkg', 'length_subdir': 0}
        files = SymSeq(M, lambda k: Opaque('sedfile', k), 'str')
        self.files = files
        c.interp.ext['builtins.sorted'] = lambda interp, st, fr, args, kw: files
        c.interp.ext['glob.glob'] = lambda interp, st, fr, args, kw: Opaque('str', 'glob')
        c.interp.ext['os.path.exists'] = lambda interp, st, fr, args, kw: True
        from sedvc.extmodels import table_new
        c.interp.ext['astropy.table.Table'] = lambda interp, st, fr, args, kw: table_new(st, {}, None)
        args = dict(model_dir='MODELDIR', overwrite=False, max_ram=c.real('max_ram'),
                    wav_min=Quantity(c.real('wav_min'), U['nm' if variant.endswith('/nm') else 'micron']),
                    wav_max=Quantity(c.real('wav_max'), U['nm' if variant.endswith('/nm') else 'micron']))
        c.interp.mono_window = (args['wav_min'], args['wav_max'])
        return args

    def requires(self, c, a):
        M, A, W = self.dims
        wav = c.A(self.wav)
        lo, hi = a.wav_min.value * (a.wav_min.unit.scale / U['micron'].scale), a.wav_max.value * (a.wav_max.unit.scale / U['micron'].scale)
        return {'memory_for_at_least_one_wavelength': a.max_ram * (1024 ** 3) >= 8 * (M * A),
                # the property quantifies over windows holding at least one tabulated wavelength
                'window_holds_a_wavelength': c.Any(W, lambda k: band(wav[k] >= lo, wav[k] < hi))}

    def raises(self, c, a):
        return {}

    def ensures(self, c, a, result, old):
        from sedvc.extmodels import is_table
        return {'returns_the_table_of_names': is_table(c.st, result) and 'filter' in c.st.heap[result.addr].attrs['@cols'] and 'wav' in c.st.heap[result.addr].attrs['@cols']}
