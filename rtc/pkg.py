"""Synthetic model packages for the bounded (E2) checks.

Packages are written with the repository's own writers (SED.write, SEDCube.write)
into a scratch directory under $TMPDIR (default /var/tmp), never under /repo or
/verif, and removed by the caller (use `scratch()` as a context manager).
"""
import contextlib
import os
import shutil
import tempfile

import numpy as np
from astropy import units as u
from astropy.table import Table


def tmp_root():
    root = os.environ.get('VERIF_TMP') or os.environ.get('TMPDIR') or '/var/tmp'
    os.makedirs(root, exist_ok=True)
    return root


@contextlib.contextmanager
def scratch(prefix='sedverif_'):
    d = tempfile.mkdtemp(prefix=prefix, dir=tmp_root())
    try:
        yield d
    finally:
        shutil.rmtree(d, ignore_errors=True)


class Spec(object):
    """In-memory description of a model package (the oracle side)."""

    def __init__(self, names, wav, apertures, flux, error, par_order=None,
                 params=None, aperture_dependent=None, logd_step=0.02,
                 distance=1 * u.kpc):
        # names: list of str; wav: 1-d array (micron) in *storage* order
        # apertures: None or 1-d array (au); flux/error: (n_models, n_ap, n_wav) mJy
        self.names = list(names)
        self.wav = np.asarray(wav, dtype=float)
        self.apertures = None if apertures is None else np.asarray(apertures, dtype=float)
        self.flux = np.asarray(flux, dtype=float)
        self.error = np.asarray(error, dtype=float)
        self.n_models = len(self.names)
        self.par_order = list(range(self.n_models)) if par_order is None else list(par_order)
        if params is None:
            params = {'par1': np.arange(self.n_models) * 1.5 + 0.25,
                      'par2': 10. ** (np.arange(self.n_models) % 7 - 3.) * (1 + np.arange(self.n_models))}
        self.params = params
        self.aperture_dependent = (apertures is not None) if aperture_dependent is None else aperture_dependent
        self.logd_step = logd_step
        self.distance = distance
        self.wavs = None        # optional per-model wavelength grids (per-file format only)

    def wav_of(self, i):
        return self.wav if self.wavs is None else np.asarray(self.wavs[i], dtype=float)

    @property
    def n_ap(self):
        return 1 if self.apertures is None else len(self.apertures)

    def par_names(self):
        return [self.names[i] for i in self.par_order]


def random_spec(rng, n_models=5, n_ap=1, n_wav=12, wav_desc=False, permute=True,
                wav_lo=0.1, wav_hi=500., increasing_in_ap=True, name_fmt='model_{0:04d}'):
    names = [name_fmt.format(i) for i in range(n_models)]
    wav = np.sort(10. ** rng.uniform(np.log10(wav_lo), np.log10(wav_hi), n_wav))
    # keep wavelengths well separated
    wav = np.logspace(np.log10(wav_lo), np.log10(wav_hi), n_wav) * (1 + 0.05 * rng.uniform(-1, 1, n_wav))
    wav = np.sort(wav)
    if wav_desc:
        wav = wav[::-1]
    if n_ap == 1:
        apertures = None
    else:
        apertures = np.sort(10. ** rng.uniform(1., 5., n_ap))
        apertures = np.logspace(1.5, 5., n_ap) * (1 + 0.1 * rng.uniform(-1, 1, n_ap))
    flux = 10. ** rng.uniform(-1., 2., (n_models, n_ap, n_wav))
    if n_ap > 1 and increasing_in_ap:
        flux = np.cumsum(flux, axis=1)
    error = flux * rng.uniform(0.01, 0.1, flux.shape)
    par_order = list(rng.permutation(n_models)) if permute else list(range(n_models))
    return Spec(names, wav, apertures, flux, error, par_order=par_order)


def _write_conf(model_dir, spec, version):
    with open(os.path.join(model_dir, 'models.conf'), 'w') as f:
        f.write("name = test\n")
        f.write("length_subdir = 0\n")
        f.write("aperture_dependent = {0}\n".format('yes' if spec.aperture_dependent else 'no'))
        f.write("logd_step = {0}\n".format(spec.logd_step))
        if version == 2:
            f.write("version = 2\n")


def _write_params(model_dir, spec, order):
    t = Table()
    t['MODEL_NAME'] = np.array([spec.names[i] for i in order], dtype='S30')
    for k, v in spec.params.items():
        t[k] = np.asarray(v)[order]
    t.write(os.path.join(model_dir, 'parameters.fits'), overwrite=True)


def write_v1(model_dir, spec, unit=u.mJy):
    """Per-file package: seds/<name>_sed.fits, models.conf, parameters.fits."""
    from sedfitter.sed import SED
    os.makedirs(os.path.join(model_dir, 'seds'), exist_ok=True)
    for i, name in enumerate(spec.names):
        sed = SED()
        sed.name = name
        sed.distance = spec.distance
        sed.wav = spec.wav_of(i) * u.micron
        sed.nu = sed.wav.to(u.Hz, equivalencies=u.spectral())
        sed.apertures = None if spec.apertures is None else spec.apertures * u.au
        sed.flux = spec.flux[i] * unit
        sed.error = spec.error[i] * unit
        sed.write(os.path.join(model_dir, 'seds', name + '_sed.fits'))
    _write_conf(model_dir, spec, 1)
    _write_params(model_dir, spec, spec.par_order)
    return model_dir


def write_v2(model_dir, spec, with_unc=True, unit=u.mJy, valid=None):
    """Cube package: flux.fits, models.conf (version = 2), parameters.fits.

    The cube format requires the parameter table in cube order, so rows are
    cube rows = spec.par_order order.
    """
    from sedfitter.sed import SEDCube
    order = spec.par_order
    cube = SEDCube()
    cube.names = np.array([spec.names[i] for i in order])
    cube.distance = spec.distance
    cube.wav = spec.wav * u.micron
    cube.apertures = None if spec.apertures is None else spec.apertures * u.au
    cube.val = spec.flux[order] * unit
    if with_unc:
        cube.unc = spec.error[order] * unit
    if valid is not None:
        cube.valid = np.asarray(valid, dtype=bool)       # per-model flag stored with the cube; a flagged model still has its SED
    cube.write(os.path.join(model_dir, 'flux.fits'))
    _write_conf(model_dir, spec, 2)
    _write_params(model_dir, spec, order)
    return model_dir


def simple_extinction(n=40, lo=0.01, hi=2000., power=-1.5):
    from sedfitter.extinction import Extinction
    e = Extinction()
    e.wav = np.logspace(np.log10(lo), np.log10(hi), n) * u.micron
    e.chi = (e.wav.value ** power) * u.cm ** 2 / u.g
    return e


def make_source(name, valid, flux, error, x=0., y=0.):
    from sedfitter.source import Source
    s = Source()
    s.name = name
    s.x = x
    s.y = y
    s.valid = np.array(valid, dtype=int)
    s.flux = np.array(flux, dtype=float)
    s.error = np.array(error, dtype=float)
    return s


def quiet():
    """Context manager silencing the fitter's prints."""
    import io
    return contextlib.redirect_stdout(io.StringIO())
