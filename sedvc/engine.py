"""Driver: loads the repository source and the sidecar contracts, verifies functions,
returns per-obligation results."""
import importlib
import multiprocessing
import os
import pkgutil
import sys
import time
import traceback

from . import solver, sym
from .contractlib import REGISTRY, short_name
from .extmodels import EXT
from .interp import Interp
from .loader import Repo
from .sym import Unsupported

REPO_ROOT = os.environ.get('SEDVC_REPO', '/repo')


def load_contracts():
    import contracts
    for m in pkgutil.iter_modules(contracts.__path__):
        importlib.import_module('contracts.' + m.name)
    return REGISTRY


def make_interp(repo_root=None):
    repo = Repo(repo_root or REPO_ROOT)
    reg = load_contracts()
    it = Interp(repo, reg, EXT)
    for con in reg.values():
        for key, spec in getattr(con, 'loops', {}).items():
            if not isinstance(key, tuple):
                it.loop_specs[(con.name, key)] = spec
    return it


def verify_contract(name, timeout_ms=20000, repo_root=None, want_model=True, variant=None):
    """Verify one function against its contract.  Returns a dict (picklable)."""
    t0 = time.time()
    out = {'function': name, 'variant': variant, 'obligations': [], 'status': 'ok', 'error': None}
    try:
        sym.reset_globals()
        it = make_interp(repo_root)
        con = it.contracts[name]
        obs, info = con.verify(it, variant)
        out['paths'] = info['paths']
        out['vacuity'] = solver.check_sat(info['pre'])
        out['inlined'] = sorted(it.inlined)
        out['callee_contracts'] = sorted(it.called_contracts)
        out['dropped'] = dict(('%s:%s' % k, v) for k, v in it.dropped.items())
        ax = solver.global_axioms()
        # group sub-queries by obligation name
        grouped = {}
        order = []
        for ob in obs:
            if ob.name not in grouped:
                grouped[ob.name] = []
                order.append(ob.name)
            grouped[ob.name].append(ob)
        c0 = sym.counter_value()
        # every obligation is elaborated with the same fresh-name sequence whatever happened to the obligations
        # before it (solver heuristics are sensitive to names); obligations are proved in forked children, several at a time
        sym.set_counter(c0 + 1)
        flat = [(nm, ob) for nm in order for ob in grouped[nm]]
        results = _prove_parallel([ob for _, ob in flat], timeout_ms, ax, want_model, int(os.environ.get('SEDVC_OB_JOBS', '4')))
        by_name = {}
        for (nm, ob), r in zip(flat, results):
            by_name.setdefault(nm, []).append((ob, r))
        covers = [nm for nm in order if nm.endswith('cover.path_reachable')]
        if covers:
            rs = [r for nm in covers for ob, r in by_name[nm]]
            reach = sum(1 for r in rs if r.status != 'proved')
            out['reachable_return_paths'] = reach
            out['return_paths'] = len(rs)
            if reach == 0:
                out['vacuity'] = 'unsat'       # every returning path has contradictory hypotheses: nothing was proved about real runs
        for nm in order:
            if nm.endswith('cover.path_reachable'):
                continue
            worst, secs, detail, model, nsub, kind = 'proved', 0.0, None, None, 0, None
            for ob, r in by_name[nm]:
                secs += r.seconds
                nsub += max(1, r.nsub)
                kind = r.kind
                if r.status == 'refuted':
                    worst, detail, model = 'refuted', (r.detail or '') + ' [path %s]' % (ob.path or '-'), r.model
                    break
                if r.status == 'unknown' and worst == 'proved':
                    worst, detail = 'unknown', r.detail
            full = nm if '/' in nm else '%s/%s' % (short_name(name), nm)
            if variant is not None:
                full += '[%s]' % variant
            out['obligations'].append(dict(name=full, status=worst, seconds=round(secs, 3), detail=detail,
                                           model=model, kind=kind, subqueries=nsub))
    except Unsupported as e:
        out['status'] = 'unsupported'
        out['error'] = str(e)
    except Exception as e:
        out['status'] = 'crash'
        out['error'] = ''.join(traceback.format_exception(type(e), e, e.__traceback__))[-3000:]
    out['seconds'] = round(time.time() - t0, 3)
    return out


_SEM = None          # process-shared cap on the number of obligation provers running at once (set by verify_many)


def _prove_parallel(obs, timeout_ms, ax, want_model, jobs):
    """Prove each obligation in its own forked child (see _prove_isolated), up to `jobs` children at a time.
    Children hand their result back through a scratch file (results can be larger than a pipe buffer)."""
    import pickle
    import tempfile
    if jobs <= 1 or len(obs) <= 1:
        return [_prove_isolated(ob, timeout_ms, ax, want_model) for ob in obs]
    root = os.environ.get('VERIF_TMP') or os.environ.get('TMPDIR') or '/var/tmp'
    os.makedirs(root, exist_ok=True)
    tmpdir = tempfile.mkdtemp(prefix='sedvc_ob_', dir=root)
    results = [None] * len(obs)
    running = {}
    nxt = 0

    def unknown(ob, why):
        return dict(name=ob.name, status='unknown', seconds=0.0, detail=why, model=None, kind=ob.kind, subqueries=1, backend='z3')
    try:
        while nxt < len(obs) or running:
            while nxt < len(obs) and len(running) < jobs:
                if _SEM is not None and not _SEM.acquire(block=not running):
                    break               # the machine-wide cap is reached: wait for one of our own children first
                i, ob = nxt, obs[nxt]
                nxt += 1
                path = os.path.join(tmpdir, '%d.pkl' % i)
                pid = os.fork()
                if pid == 0:
                    try:
                        try:
                            # reachability probes expect `sat`: a short budget is enough (no answer counts as reachable)
                            payload = solver.prove(ob, timeout_ms=(8000 if ob.kind == 'cover' else timeout_ms), global_axioms=ax, want_model=want_model).to_dict()
                        except Exception as e:       # includes Unsupported raised while elaborating
                            payload = unknown(ob, 'elaboration failed: %s: %s' % (type(e).__name__, e))
                        with open(path, 'wb') as f:
                            pickle.dump(payload, f)
                    finally:
                        os._exit(0)
                running[pid] = (i, path)
            pid, _ = os.waitpid(-1, 0)
            if pid not in running:
                continue
            i, path = running.pop(pid)
            if _SEM is not None:
                _SEM.release()
            try:
                with open(path, 'rb') as f:
                    d = pickle.load(f)
            except Exception:
                d = unknown(obs[i], 'prover process died')
            results[i] = solver.Result(d['name'], d['status'], d['seconds'], d['detail'], d['model'], d['kind'], d['subqueries'], d['backend'])
    finally:
        import shutil
        shutil.rmtree(tmpdir, ignore_errors=True)
    return results


def _prove_isolated(ob, timeout_ms, ax, want_model):
    """Prove one obligation in a forked child: every obligation starts from exactly the state
    left by the symbolic execution, whatever happened while proving the others (timeouts change
    control flow, which changes term ids and names, which changes solver behaviour)."""
    import pickle
    rfd, wfd = os.pipe()
    pid = os.fork()
    if pid == 0:
        try:
            os.close(rfd)
            try:
                r = solver.prove(ob, timeout_ms=(8000 if ob.kind == 'cover' else timeout_ms), global_axioms=ax, want_model=want_model)
                payload = r.to_dict()
            except Exception as e:       # includes Unsupported raised while elaborating
                payload = dict(name=ob.name, status='unknown', seconds=0.0, detail='elaboration failed: %s: %s' % (type(e).__name__, e),
                               model=None, kind=ob.kind, subqueries=1, backend='z3')
            with os.fdopen(wfd, 'wb') as f:
                pickle.dump(payload, f)
        finally:
            os._exit(0)
    os.close(wfd)
    with os.fdopen(rfd, 'rb') as f:
        data = f.read()
    os.waitpid(pid, 0)
    try:
        d = pickle.loads(data)
    except Exception:
        d = dict(name=ob.name, status='unknown', seconds=0.0, detail='prover process died', model=None, kind=ob.kind, subqueries=1, backend='z3')
    return solver.Result(d['name'], d['status'], d['seconds'], d['detail'], d['model'], d['kind'], d['subqueries'], d['backend'])


def _worker(args):
    name, variant, timeout_ms, repo_root = args
    return verify_contract(name, timeout_ms, repo_root, variant=variant)


def verify_many(names, timeout_ms=20000, repo_root=None, procs=None):
    reg = load_contracts()
    tasks = []
    for n in names:
        for v in reg[n].variants:
            tasks.append((n, v, timeout_ms, repo_root))
    procs = procs or min(len(tasks), os.cpu_count() or 4)
    ncpu = os.cpu_count() or 4
    os.environ['SEDVC_OB_JOBS'] = str(max(4, min(8, ncpu // max(1, min(len(tasks), ncpu)))))
    if procs <= 1 or len(tasks) == 1:
        os.environ['SEDVC_OB_JOBS'] = str(min(12, ncpu))
        return [_worker(t) for t in tasks]
    ctx = multiprocessing.get_context('fork')
    # at most ~ncpu/2 obligation provers at a time over ALL tasks (each may start a small solver portfolio): without
    # this cap a check with many functions oversubscribes the machine and obligations time out for no reason
    global _SEM
    _SEM = ctx.BoundedSemaphore(int(os.environ.get('SEDVC_MAX_SOLVERS') or max(4, ncpu // 2)))       # (lower it when several checks share the machine)
    # one fresh process per task: a verification never depends on what its worker did before
    with ctx.Pool(procs, maxtasksperchild=1) as pool:
        return pool.map(_worker, tasks, chunksize=1)


def main(argv):
    import json
    names = argv[1:]
    reg = load_contracts()
    if not names:
        names = sorted(n for n, c in reg.items() if not c.trusted)
    res = verify_many(names, timeout_ms=int(os.environ.get("SEDVC_TIMEOUT_MS", "20000")))
    for r in res:
        print("== %s %s [%s] %.2fs paths=%s vacuity=%s reachable=%s/%s" % (r['function'], r.get('variant') or '', r['status'], r['seconds'], r.get('paths'), r.get('vacuity'),
                                                                              r.get('reachable_return_paths'), r.get('return_paths')))
        if r['error']:
            print("   ERROR:", r['error'])
        for o in r['obligations']:
            print("   %-8s %-70s %6.2fs %s" % (o['status'], o['name'], o['seconds'], o['detail'] or ''))
    return 0


if __name__ == '__main__':
    sys.exit(main(sys.argv))
