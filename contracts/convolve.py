"""Contracts for sedfitter/convolve/convolve.py: _convolve_model_dir_2 (cube packages) and
_convolve_model_dir_1 (per-file packages)  (C06, C07, C08)."""
import z3

from sedvc import units
from sedvc.contractlib import Contract, contract, Ctx
from sedvc.loops import EventLoop
from sedvc.sym import Sc, compare, band, bor, bnot, implies, ite, arith, fresh_int
from sedvc.values import Quantity, Opaque, ObjRef, ListRef
from .integrate import make_filter, strictly_monotone, FILTER
from .convolved import CF
from .cube import CUBE
from .sed import SED

U = units.BASE
CONV = 'sedfitter.convolve.convolve.'


@contract
class CfWrite(Contract):
    """ConvolvedFluxes.write(filename): the file gets the model names, the fluxes and the errors row for row and
    aperture for aperture with their units, the apertures (if any) with their unit, the central wavelength in
    micron and the numbers of models and apertures; the object is not modified.
    (Byte format and read-back through ConvolvedFluxes.read: bounded run.)"""
    name = CF + '.write'
    properties = ('C07', 'C12')
    variants = ('apertures', 'single')
    modifies = ()

    def setup(self, c, variant):
        from .convolved import make_cf
        return dict(self=make_cf(c, U['au'], n_ap=1 if variant == 'single' else None), filename='F.fits', overwrite=False)

    def ensures(self, c, a, result, old):
        from sedvc.extmodels import is_table
        ev = [e for e in c.st.events if e[0] == 'fits.writeto']
        has_ap = c.attr(a.self, '_apertures') is not None
        out = {'written_once_to_the_named_file': len(ev) == 1 and ev[0][1] == 'F.fits' and len(ev[0][2]) == (3 if has_ap else 2)}
        if not out['written_once_to_the_named_file']:
            return out
        hdus = ev[0][2]

        def cols(h):
            d = c.attr(h, 'data')
            return c.st.heap[d.addr].attrs['@cols'] if is_table(c.st, d) else {}

        def units_(h):
            return [c.attr(x, 'unit') for x in c.st.heap[c.attr(h, 'columns').addr].items]
        hdr0 = c.st.heap[c.attr(hdus[0], 'header').addr].items
        cw = c.attr(a.self, '_wavelength')
        names, fq, eq = c.A(c.attr(a.self, '_model_names')), c.attr(a.self, '_flux'), c.attr(a.self, '_error')
        F, E = c.A(fq), c.A(eq)
        out['central_wavelength_in_micron_and_counts'] = [compare('==', hdr0.get('FILTWAV') * U['micron'].scale, cw.value * cw.unit.scale),
                                                          compare('==', hdr0.get('NMODELS'), names.n), compare('==', hdr0.get('NAP'), F.shape[1])]
        c1 = cols(hdus[1])
        ok = list(c1) == ['MODEL_NAME', 'TOTAL_FLUX', 'TOTAL_FLUX_ERR'] and c.attr(hdus[1], 'name') == 'CONVOLVED FLUXES'
        out['table_has_the_documented_columns'] = ok
        if not ok:
            return out
        inner = lambda v: v.value if isinstance(v, Quantity) else v
        SN, SF, SE = c.A(inner(c1['MODEL_NAME'])), c.A(inner(c1['TOTAL_FLUX'])), c.A(inner(c1['TOTAL_FLUX_ERR']))
        M, A = F.shape
        out['rows_hold_name_flux_error_of_each_model'] = [compare('==', SN.n, M), compare('==', SF.shape[0], M), compare('==', SF.shape[1], A), compare('==', SE.shape[0], M), compare('==', SE.shape[1], A),
                                                          c.forall(M, lambda m: SN[m] == names[m], 'names'),
                                                          c.forall([M, A], lambda m, i: band(SF[m, i] == F[m, i], SE[m, i] == E[m, i]), 'cells')]
        u1 = units_(hdus[1])
        out['units_recorded'] = len(u1) == 3 and all(isinstance(x, Opaque) and x.tag == 'unitstr' for x in u1[1:]) and u1[1].info is fq.unit and u1[2].info is eq.unit
        if has_ap:
            aq = c.attr(a.self, '_apertures')
            c2 = cols(hdus[2])
            SA, AP = c.A(inner(c2.get('APERTURE'))), c.A(aq)
            u2 = units_(hdus[2])
            out['apertures_with_their_unit'] = [c.attr(hdus[2], 'name') == 'APERTURES', len(u2) == 1 and isinstance(u2[0], Opaque) and u2[0].info is aq.unit,
                                                compare('==', SA.n, AP.n), c.forall(AP.n, lambda i: SA[i] == AP[i], 'apertures')]
        return out


def _filters(c, n=2):
    fs = []
    for i in range(n):
        f = make_filter(c, prefix='flt%d' % i)
        fs.append(f)
    return fs


def _filter_pre(c, fs):
    out = {}
    for i, f in enumerate(fs):
        nu = c.A(c.attr(f, '_nu'))
        out['filter%d_monotone' % i] = strictly_monotone(c, nu)
        out['filter%d_positive' % i] = c.forall(nu.n, lambda k, nu=nu: nu[k] > 0, 'nu>0')
        out['filter%d_lengths' % i] = compare('==', nu.n, c.A(c.attr(f, '_r')).n)
    return out


@contract
class ConvolveV2(Contract):
    """_convolve_model_dir_2: for every filter i the object written holds, for every model m and aperture a,
    flux = sum_k val[m,a,k] R_i[k] and error = sqrt(sum_k (unc[m,a,k] R_i[k])^2) (both times the unit factor to mJy)
    with R_i the filter re-binned to the cube's frequencies; model names and apertures are the cube's, the
    central wavelength is the filter's; one file per filter, named after it, in filter order; a parameter table
    whose names differ from the cube's is refused."""
    name = CONV + '_convolve_model_dir_2'
    properties = ('C07', 'C06', 'C08')
    variants = ('two_filters', 'two_filters/Jy')        # (the cube stored in mJy / in Jy)
    assume_pre_of = (CUBE + 'BaseCube.read',)

    def setup(self, c, variant):
        from sedvc.extmodels import table_new
        M, A, W = c.int('n_models'), c.int('n_ap'), c.int('n_wav')
        c.assume([M >= 1, A >= 1, W >= 2])
        self.cube = dict(wav=c.array('cube_wav', (W,)), ap=c.array('cube_ap', (A,)), val=c.array('cube_val', (M, A, W)), unc=c.array('cube_unc', (M, A, W)),
                         names=c.array('cube_names', (M,), kind='int'), valid=c.array('cube_valid', (M,), kind='int'), dist=c.real('cube_dist_cm'),
                         bunit=U['Jy'] if variant.endswith('/Jy') else U['mJy'])
        c.interp.package_cube = self.cube
        c.interp.package_conf = {'name': 'pkg', 'version': 2}
        self.par_names = c.array('par_name', (M,), 'int')
        c.interp.package_par_table = table_new(c.st, dict(MODEL_NAME=self.par_names), M)
        c.interp.ext['os.path.exists'] = lambda interp, st, fr, args, kw: True
        self.filters = _filters(c)
        return dict(model_dir='MODELDIR', filters=c.list(self.filters), overwrite=False, memmap=False)

    def requires(self, c, a):
        return _filter_pre(c, self.filters)

    def raises(self, c, a):
        names, par = c.A(self.cube['names']), c.A(self.par_names)
        return {'ValueError': c.Any(names.n, lambda m: bnot(names[m] == par[m]))}

    def ensures(self, c, a, result, old):
        ev = c.st.events
        rebins = [e for e in ev if e[0] == 'ret' and e[1] == FILTER + '.rebin']
        rebin_calls = [e for e in ev if e[0] == 'call' and e[1] == FILTER + '.rebin']
        writes = [e for e in ev if e[0] == 'call' and e[1] == CF + '.write']
        out = {'every_filter_is_rebinned_once_to_the_cube_frequencies': len(rebins) == 2 and all(rebin_calls[i][2]['self'].addr == self.filters[i].addr for i in range(2)),
               'one_file_per_filter_in_filter_order': len(writes) == 2}
        if len(rebins) != 2 or len(writes) != 2:
            return out
        # the cube AS READ (the result of SEDCube.read(order='nu'), whose relation to the file is that function's
        # own contract): modular composition
        reads = [e for e in ev if e[0] == 'ret' and e[1] == CUBE + 'BaseCube.read']
        out['cube_read_once'] = len(reads) == 1
        if len(reads) != 1:
            return out
        cube = reads[0][2]
        qv, qe = c.attr(cube, '_val'), c.attr(cube, '_unc')
        V, E = c.A(qv), c.A(qe)
        fv, fe = qv.unit.scale / U['mJy'].scale, qe.unit.scale / U['mJy'].scale
        M, A, W = V.shape
        src = lambda k: k
        for i in range(2):
            cf = writes[i][2]['self']
            R = c.A(c.attr(rebins[i][2], '_r'))
            fl, er = c.attr(cf, '_flux'), c.attr(cf, '_error')
            FL, ER = c.A(fl), c.A(er)
            k_fl, k_er = fl.unit.scale / U['mJy'].scale, er.unit.scale / U['mJy'].scale
            out['flux(filter %d)' % i] = [compare('==', FL.shape[0], M), compare('==', FL.shape[1], A),
                                          c.forall([M, A], (lambda FL, R, k_fl: lambda m, ap: FL[m, ap] * k_fl == c.Sum(W, lambda k: V[m, ap, src(k)] * R[k]) * fv)(FL, R, k_fl), 'flux')]
            out['error(filter %d)' % i] = [compare('==', ER.shape[0], M), compare('==', ER.shape[1], A),
                                           c.forall([M, A], (lambda ER, R, k_er: lambda m, ap: ER[m, ap] * k_er == c.sqrt(c.Sum(W, lambda k: (E[m, ap, src(k)] * R[k]) * (E[m, ap, src(k)] * R[k]))) * fe)(ER, R, k_er), 'error')]
            nm = c.A(c.attr(cf, '_model_names'))
            CN = c.A(self.cube['names'])
            out['names(filter %d)' % i] = [compare('==', nm.n, M), c.forall(M, (lambda nm: lambda m: nm[m] == CN[m])(nm), 'names')]
            ap_ = c.attr(cf, '_apertures')
            AP, CA = c.A(ap_), c.A(self.cube['ap'])
            out['apertures(filter %d)' % i] = [compare('==', AP.n, A), c.forall(A, (lambda AP, ap_: lambda j: AP[j] * ap_.unit.scale == CA[j] * U['au'].scale)(AP, ap_), 'apertures')]
            cw, fw = c.attr(cf, '_wavelength'), c.attr(self.filters[i], '_wavelength')
            out['central_wavelength(filter %d)' % i] = isinstance(cw, Quantity) and compare('==', cw.value * cw.unit.scale, fw.value * fw.unit.scale)
            fn = writes[i][2]['filename']
            out['file_named_after_filter(filter %d)' % i] = _mentions(fn, c.attr(self.filters[i], 'name'))
        return out


def _mentions(value, needle, depth=0):
    """the (opaque) string value was built from `needle`"""
    if value is needle:
        return True
    if depth > 6:
        return False
    if isinstance(value, Opaque):
        info = value.info
        if info is needle:
            return True
        if isinstance(info, (tuple, list)):
            return any(_mentions(x, needle, depth + 1) for x in info)
        return _mentions(info, needle, depth + 1) if info is not None else False
    if isinstance(value, (tuple, list)):
        return any(_mentions(x, needle, depth + 1) for x in value)
    return False


# ---------------------------------------------------------------------------------------------
# _convolve_model_dir_1 (per-file packages)
# ---------------------------------------------------------------------------------------------

def _v1_item(c, it):
    k = Sc(fresh_int('im'))
    seq = it.inner
    c.interp.v1_models = it
    c.st.assume_pc(band(compare('<=', 0, k), compare('<', k, seq.length)))
    return (k, seq.item(k))


def _v1_havoc(c):
    """The state an iteration may leave behind: the filters are binned to SOME grid (recorded in the ghost
    provenance map), the output arrays hold arbitrary values."""
    env = c.st.env
    filt = c.st.heap[env['filters'].addr].items
    Gn = c.int('binned_grid_n')
    c.assume(Gn >= 1)
    G = Quantity(c.fresh_array('binned_grid', (Gn,)), U['Hz'])
    bfs = []
    ghost = c.interp.__dict__.setdefault('rebin_ghost', {})
    for i, f in enumerate(filt):
        b = c.obj(FILTER, name=c.attr(f, 'name'), _wavelength=c.attr(f, '_wavelength'), _nu=G, _r=c.fresh_array('binned_r%d' % i, (Gn,)))
        ghost[b.addr] = (f, G)
        bfs.append(b)
    env['binned_filters'] = c.list(bfs)
    env['binned_nu'] = G
    fl = c.st.heap[env['fluxes'].addr].items
    for i, cf in enumerate(fl):
        for attr, nm in (('_flux', 'flux'), ('_error', 'error')):
            q = c.attr(cf, attr)
            shape = c.A(q).shape
            c.set_attr(cf, attr, Quantity(c.fresh_array('out_%s%d' % (nm, i), shape), q.unit))
        nmq = c.attr(cf, '_model_names')
        c.set_attr(cf, '_model_names', c.fresh_array('out_names%d' % i, c.A(nmq).shape, 'int'))
        c.set_attr(cf, '_wavelength', c.attr(filt[i], '_wavelength'))


def _same_grid(c, s, g1, g2):
    if g1 is g2 or (isinstance(g1, Quantity) and isinstance(g2, Quantity) and g1.value is g2.value and g1.unit is g2.unit):
        return True
    if not (isinstance(g1, Quantity) and isinstance(g2, Quantity)):
        return False
    cs = Ctx(c.interp, s, c.fr)
    A1, A2 = cs.A(g1), cs.A(g2)
    k1, k2 = g1.unit.scale, g2.unit.scale
    return [compare('==', A1.n, A2.n), cs.forall(A1.n, lambda k: A1[k] * k1 == A2[k] * k2, 'same grid')]


def _v1_check(c, paths):
    obs = []
    e0 = c.st.env
    it = c.interp.v1_models
    obs.append((c.st, 'every_sed_file_is_visited_with_its_position', it.inner is e0['sed_files'] and it.start == 0))
    filt = c.st.heap[e0['filters'].addr].items
    outs = c.st.heap[e0['fluxes'].addr].items
    im = e0['im']
    ghost = c.interp.__dict__.get('rebin_ghost', {})
    for s, ev, status in paths:
        if status != 'run':
            obs.append((s, 'iteration_completes', False))
            continue
        cs = Ctx(c.interp, s, c.fr)
        sed = s.env['s']
        reads = [e for e in ev if e[0] == 'call' and e[1] == SED + '.read']
        obs.append((s, 'reads_the_sed_file_of_this_position', len(reads) == 1 and reads[0][2]['filename'] is e0['sed_file']))
        F, E = cs.A(cs.attr(sed, '_flux')), cs.A(cs.attr(sed, '_error'))
        A, W = F.shape
        bl = s.env['binned_filters']
        bfs = s.heap[bl.addr].items if isinstance(bl, ListRef) else []
        obs.append((s, 'one_binned_filter_per_filter', len(bfs) == len(filt)))
        if len(bfs) != len(filt):
            continue
        for i, b in enumerate(bfs):
            src, grid = ghost.get(b.addr, (None, None))
            obs.append((s, 'filter_%d_is_rebinned_from_filter_%d' % (i, i), src is not None and src.addr == filt[i].addr))
            obs.append((s, 'filter_%d_is_binned_to_the_frequencies_of_this_sed' % i, _same_grid(c, s, grid, cs.attr(sed, '_nu')) if grid is not None else False))
            # loop invariant assumed by the havoc: the remembered grid is the one the filters are binned to
            obs.append((s, 'remembered_grid_is_the_grid_of_binned_filter_%d' % i, _same_grid(c, s, grid, s.env.get('binned_nu')) if grid is not None else False))
            R = cs.A(cs.attr(b, '_r'))
            cf = outs[i]
            q1, q0 = cs.attr(cf, '_flux'), c.attr(cf, '_flux')
            FL1, FL0 = cs.A(q1), c.A(q0)
            e1_, e0_ = cs.attr(cf, '_error'), c.attr(cf, '_error')
            ER1, ER0 = cs.A(e1_), c.A(e0_)
            sf = cs.attr(sed, '_flux').unit.scale / q1.unit.scale
            se = cs.attr(sed, '_error').unit.scale / e1_.unit.scale
            M = FL0.shape[0]
            obs.append((s, 'row_im_of_output_%d_holds_the_convolved_flux_of_this_sed' % i,
                        cs.forall(A, (lambda FL1, R, sf: lambda a: FL1[im, a] == cs.Sum(W, lambda k: F[a, k] * R[k]) * sf)(FL1, R, sf), 'flux')))
            obs.append((s, 'row_im_of_output_%d_holds_the_error_in_quadrature' % i,
                        cs.forall(A, (lambda ER1, R, se: lambda a: ER1[im, a] == cs.sqrt(cs.Sum(W, lambda k: (E[a, k] * R[k]) * (E[a, k] * R[k]))) * se)(ER1, R, se), 'error')))
            obs.append((s, 'other_rows_of_output_%d_untouched' % i,
                        [cs.forall([M, FL0.shape[1]], (lambda FL1, FL0: lambda m, a: implies(bnot(m == im), FL1[m, a] == FL0[m, a]))(FL1, FL0), 'frame'),
                         cs.forall([M, ER0.shape[1]], (lambda ER1, ER0: lambda m, a: implies(bnot(m == im), ER1[m, a] == ER0[m, a]))(ER1, ER0), 'frame')]))
            N1, N0 = cs.A(cs.attr(cf, '_model_names')), c.A(c.attr(cf, '_model_names'))
            obs.append((s, 'row_im_of_output_%d_is_labelled_with_this_sed' % i,
                        [N1[im] == cs.attr(sed, 'name'), cs.forall(N0.n, (lambda N1, N0: lambda m: implies(bnot(m == im), N1[m] == N0[m]))(N1, N0), 'frame')]))
            cw, fw = cs.attr(cf, '_wavelength'), c.attr(filt[i], '_wavelength')
            obs.append((s, 'central_wavelength_of_output_%d_is_the_filters' % i, isinstance(cw, Quantity) and compare('==', cw.value * cw.unit.scale, fw.value * fw.unit.scale)))
    return obs


@contract
class ConvolveV1(Contract):
    """_convolve_model_dir_1: for the SED file at ANY position im and every filter i, row im of output i gets the
    name of that SED and, per aperture, flux = sum_k F[a,k] R_i[k], error = sqrt(sum_k (E[a,k] R_i[k])^2), where R_i
    is filter i re-binned to the frequencies of THAT SED (whatever grids earlier files had); other rows are
    untouched.  Afterwards every output is sorted to the parameter-table order and written once, to the file named
    after its filter."""
    name = CONV + '_convolve_model_dir_1'
    properties = ('C07', 'C06', 'C08')
    variants = ('two_filters',)
    loops = {2: EventLoop('models', _v1_check, havoc=_v1_havoc, item=_v1_item, peel=True)}
    assume_pre_of = (SED + '.read', CF + '.sort_to_match')

    def setup(self, c, variant):
        from sedvc.interp import SymSeq
        from sedvc.extmodels import table_new
        M = c.int('n_models')
        c.assume(M >= 1)
        c.interp.package_conf = {'name': 'pkg'}
        files = SymSeq(M, lambda k: Opaque('sedfile', k), 'str')
        c.interp.ext['builtins.sorted'] = lambda interp, st, fr, args, kw: files
        c.interp.ext['glob.glob'] = lambda interp, st, fr, args, kw: Opaque('str', 'glob')
        c.interp.ext['os.path.exists'] = lambda interp, st, fr, args, kw: True
        self.par_names = c.array('par_name', (M,), 'int')
        c.interp.package_par_table = table_new(c.st, dict(MODEL_NAME=self.par_names), M)
        # every SED file of the package has the same number of apertures (the output arrays are sized from the first
        # file); wavelength grids may differ from file to file
        A = c.int('n_ap')
        c.assume(A >= 1)
        c.interp.shared_sed_apertures = A
        self.filters = _filters(c)
        return dict(model_dir='MODELDIR', filters=c.list(self.filters), overwrite=False)

    def requires(self, c, a):
        return _filter_pre(c, self.filters)

    def raises(self, c, a):
        # "No SEDs found" / "Sorting failed" (parameter table and SED files do not name the same models)
        return {'Exception': ('may', True)}

    def ensures(self, c, a, result, old):
        ev = c.st.events
        sorts = [e for e in ev if e[0] == 'call' and e[1] == CF + '.sort_to_match']
        writes = [e for e in ev if e[0] == 'call' and e[1] == CF + '.write']
        outs = c.st.heap[c.st.env['fluxes'].addr].items if 'fluxes' in c.st.env else []
        out = {'every_output_is_sorted_to_the_parameter_table_then_written_once':
               len(sorts) == 2 and len(writes) == 2 and len(outs) == 2 and all(sorts[i][2]['self'].addr == outs[i].addr and writes[i][2]['self'].addr == outs[i].addr for i in range(2))}
        if out['every_output_is_sorted_to_the_parameter_table_then_written_once']:
            from sedvc.extmodels import is_table
            par = c.interp.package_par_table
            pcol = c.st.heap[par.addr].attrs['@cols']['MODEL_NAME']
            out['sorted_by_the_parameter_table_names'] = all(getattr(sorts[i][2]['requested_model_names'], 'addr', 0) == getattr(pcol, 'addr', 1) for i in range(2))
            out['files_named_after_their_filters'] = all(_mentions(writes[i][2]['filename'], c.attr(self.filters[i], 'name')) for i in range(2))
        return out
