"""Independent oracles for the fitting properties (C01-C05, C08, C11), written from the
property statements and the data-format page, not from the code."""
import itertools
import math

import numpy as np
from astropy import units as u

LN10 = math.log(10.)
FLAGS = (0, 1, 2, 3, 4, 9)


def transform(valid, flux, error):
    """(weight, log_flux, log_error) per the data-format page.  Entries of log_flux for
    flags 0/9 are returned as nan (= must not matter)."""
    n = len(valid)
    w = np.zeros(n)
    lf = np.full(n, np.nan)
    le = np.full(n, np.nan)
    for j in range(n):
        v = valid[j]
        if v == 1:
            lf[j] = math.log10(flux[j]) - 0.5 * (error[j] / flux[j]) ** 2 / LN10
            le[j] = abs(error[j] / flux[j]) / LN10
            w[j] = 1. / le[j] ** 2
        elif v in (2, 3):
            lf[j] = math.log10(flux[j])
            le[j] = error[j]
        elif v == 4:
            lf[j] = flux[j]
            le[j] = error[j]
            w[j] = 1. / le[j] ** 2
    return w, lf, le


def penalty(conf):
    if conf >= 1.:
        return np.inf
    return -2. * math.log(1. - conf)


def chi2_of(valid, w, lf, le, logmodel, k, av, sc, scale_term=True):
    """chi^2 of the statement: sum over fitted points of w (r - av k + 2 sc)^2 plus limit penalties."""
    tot = 0.
    pen = 0.
    for j in range(len(valid)):
        v = valid[j]
        pred = logmodel[j] + av * k[j] + (-2. * sc if scale_term else 0.)
        if v in (1, 4):
            tot += w[j] * (lf[j] - pred) ** 2
        elif v == 2:
            if pred < lf[j]:
                pen += penalty(le[j])
        elif v == 3:
            if pred > lf[j]:
                pen += penalty(le[j])
    return tot, pen


def constrained_ls(valid, w, lf, logmodel, k, lo, hi):
    """argmin over av in [lo,hi], sc real of sum_fitted w (lf - logmodel - av k + 2 sc)^2.
    Solved from the KKT conditions (independent of the code's formulas)."""
    idx = [j for j in range(len(valid)) if valid[j] in (1, 4)]
    r = np.array([lf[j] - logmodel[j] for j in idx])
    ww = np.array([w[j] for j in idx])
    kk = np.array([k[j] for j in idx])
    # profile out sc: for fixed av, -2 sc = weighted mean of (r - av k)
    sw = ww.sum()
    rbar, kbar = (ww * r).sum() / sw, (ww * kk).sum() / sw
    skk = (ww * (kk - kbar) ** 2).sum()
    skr = (ww * (kk - kbar) * (r - rbar)).sum()
    av_unc = skr / skk
    av = min(max(av_unc, lo), hi)
    sc = -0.5 * (rbar - av * kbar)
    return av, sc, av_unc


def scaling_ls(valid, w, lf, logmodel, k, lo, hi):
    """argmin over av in [lo,hi] of sum_fitted w (lf - logmodel - av k)^2."""
    idx = [j for j in range(len(valid)) if valid[j] in (1, 4)]
    r = np.array([lf[j] - logmodel[j] for j in idx])
    ww = np.array([w[j] for j in idx])
    kk = np.array([k[j] for j in idx])
    av_unc = (ww * r * kk).sum() / (ww * kk * kk).sum()
    return min(max(av_unc, lo), hi), av_unc


def make_models_2d(names, fluxes_mJy, wavelengths_um):
    from sedfitter.models import Models
    m = Models()
    m.names = np.array(names)
    m.wavelengths = np.asarray(wavelengths_um, dtype=float) * u.micron
    m.fluxes = np.asarray(fluxes_mJy, dtype=float) * u.mJy
    return m


def make_models_3d(names, fluxes_mJy, wavelengths_um, distances_kpc):
    from sedfitter.models import Models
    m = Models()
    m.names = np.array(names)
    m.wavelengths = np.asarray(wavelengths_um, dtype=float) * u.micron
    m.distances = np.asarray(distances_kpc, dtype=float) * u.kpc
    m.logd = np.log10(np.asarray(distances_kpc, dtype=float))
    m.fluxes = np.asarray(fluxes_mJy, dtype=float) * u.mJy
    return m


def random_source(rng, n, flags=None, decades=3., conf_choices=(0., 0.3, 0.9), placeholders=True):
    from .pkg import make_source
    if flags is None:
        flags = rng.choice(FLAGS, size=n)
    flags = np.asarray(flags)
    flux = 10. ** rng.uniform(-decades / 2, decades / 2, n)
    err = flux * rng.uniform(0.02, 0.3, n)
    for j in range(n):
        if flags[j] in (2, 3):
            err[j] = rng.choice(conf_choices)
        elif flags[j] == 4:
            f, e = flux[j], err[j]
            flux[j] = math.log10(f) - 0.5 * (e / f) ** 2 / LN10
            err[j] = abs(e / f) / LN10
        elif flags[j] in (0, 9) and placeholders:
            c = rng.integers(0, 4)
            if c == 0:
                flux[j], err[j] = -999., -999.
            elif c == 1:
                flux[j], err[j] = 0., 0.
            elif c == 2:
                flux[j] = -flux[j]
    return make_source('src', flags, flux, err)


def usable(flags, k, need=2):
    """>= `need` fitted points and (for the 2-parameter fit) non-constant extinction coefficients."""
    idx = [j for j in range(len(flags)) if flags[j] in (1, 4)]
    if len(idx) < need:
        return False
    if need >= 2:
        ks = [k[j] for j in idx]
        return max(ks) - min(ks) > 1e-3
    return any(abs(k[j]) > 1e-3 for j in idx)
