"""Execution state of one symbolic path."""
import itertools

import z3

from .sym import Sc, Unsupported, to_z3, band, bnot, Forall, flatten
from .values import (ArrCell, ObjCell, ListCell, DictCell, ArrRef, ObjRef, ListRef, DictRef,
                     PureArr, Masked, Quantity)

_addr = itertools.count(1)


class Obligation(object):
    def __init__(self, name, goal, hyps, pc, kind='post', where=None, path=None):
        self.name = name
        self.goal = goal        # formula (bool scalar | Forall | list)
        self.hyps = hyps        # list of formulas
        self.pc = pc            # list of bool scalars
        self.kind = kind
        self.where = where      # source location string
        self.path = path


class State(object):
    def __init__(self):
        self.env = {}
        self.heap = {}
        self.pc = []
        self.hyps = []
        self.status = 'run'     # run | return | raise | break | continue
        self.retval = None
        self.exc = None         # (exception class name, message)
        self.obligations = None  # shared list
        self.events = []        # ghost trace of effects (writes to files, ...)
        self.path = ''          # branch decisions taken, e.g. 'TF'
        self.dropped = None     # shared counter dict
        self.frame_stack = []
        self.tags = set()

    def fork(self):
        s = State()
        s.env = dict(self.env)
        s.heap = dict(self.heap)
        s.pc = list(self.pc)
        s.hyps = list(self.hyps)
        s.status = self.status
        s.retval = self.retval
        s.exc = self.exc
        s.obligations = self.obligations
        s.events = list(self.events)
        s.path = self.path
        s.dropped = self.dropped
        s.frame_stack = list(self.frame_stack)
        s.tags = set(self.tags)
        # choices still to be replayed in helper functions without a contract (interp.exec_block)
        s.forced_choices = list(getattr(self, 'forced_choices', ()))
        s.taken_choices = list(getattr(self, 'taken_choices', ()))
        return s

    # --- assumptions and obligations
    def assume(self, f):
        for x in flatten(f):
            if x is True:
                continue
            self.hyps.append(x)

    def assume_pc(self, c):
        if c is True:
            return
        self.pc.append(c)

    def oblige(self, name, goal, kind='post', where=None):
        ob = Obligation(name, goal, list(self.hyps), list(self.pc), kind, where, self.path)
        ob.final_state = self           # (for small-scope concretisation of a refuted obligation)
        self.obligations.append(ob)

    # --- heap
    def alloc_arr(self, shape, fn, kind='real'):
        a = next(_addr)
        self.heap[a] = ArrCell(shape, fn, kind)
        return ArrRef(a)

    def alloc_obj(self, cls, attrs=None):
        a = next(_addr)
        self.heap[a] = ObjCell(cls, attrs)
        return ObjRef(a)

    def alloc_list(self, items):
        a = next(_addr)
        self.heap[a] = ListCell(items)
        return ListRef(a)

    def alloc_dict(self, items=None):
        a = next(_addr)
        self.heap[a] = DictCell(items)
        return DictRef(a)

    def box(self, v):
        """Give an array value identity (so it can be aliased and mutated)."""
        if isinstance(v, PureArr):
            return self.alloc_arr(v.shape, v.fn, v.kind)
        if isinstance(v, Quantity) and isinstance(v.value, PureArr):
            return Quantity(self.box(v.value), v.unit)
        if isinstance(v, tuple):
            return tuple(self.box(x) for x in v)
        return v

    def cell(self, ref):
        return self.heap[ref.addr]

    def get_attr(self, ref, name):
        return self.heap[ref.addr].attrs[name]

    def has_attr(self, ref, name):
        return name in self.heap[ref.addr].attrs

    def set_attr(self, ref, name, value):
        c = self.heap[ref.addr]
        attrs = dict(c.attrs)
        attrs[name] = value
        self.heap[ref.addr] = ObjCell(c.cls, attrs)
