"""Discharging obligations: goal skolemisation, generator-side (ground) instantiation
of quantified hypotheses at the index terms of the query, sum axioms, z3."""
import itertools
import time

import z3

from . import sym, units
from .sym import (Sc, Forall, flatten, to_z3, wrap, band, bnot, implies, compare, fresh_int, fresh_real,
                  guard_of, SUMS, EXTREMA, Unsupported)

import os as _os
DUMP_DIR = _os.environ.get('SEDVC_DUMP')
DUMP_MATCH = _os.environ.get('SEDVC_DUMP_MATCH')      # only obligations whose name contains this
CURRENT = ['']
_dump_counter = itertools.count()
MAX_TERMS = 28
MAX_INST = 6000


class Result(object):
    def __init__(self, name, status, seconds, detail=None, model=None, kind='post', nsub=1, backend='z3'):
        self.name = name
        self.status = status    # proved | refuted | unknown
        self.seconds = seconds
        self.detail = detail
        self.model = model
        self.kind = kind
        self.nsub = nsub
        self.backend = backend

    def to_dict(self):
        return dict(name=self.name, status=self.status, seconds=round(self.seconds, 3), detail=self.detail,
                    model=self.model, kind=self.kind, subqueries=self.nsub, backend=self.backend)


def skolemize(goal):
    """goal formula -> list of (guards, atomic z3 Bool) with fresh constants for bound vars."""
    out = []

    def go(f, guards):
        for x in flatten(f):
            if isinstance(x, Forall):
                ks = []
                g2 = list(guards)
                for r in x.ranges:
                    if isinstance(r, str) and r == 'real':
                        k = Sc(fresh_real('sk'))
                    else:
                        k = Sc(fresh_int('sk'))
                        g = guard_of(r, k.t)
                        if g is not True:
                            g2.append(g)
                    ks.append(k)
                go(x.body(*ks), g2)
            elif x is True:
                continue
            elif x is False:
                out.append((list(guards), z3.BoolVal(False)))
            else:
                out.append((list(guards), to_z3(x, 'bool')))
    go(goal, [])
    return out


def _collect_terms(exprs, ints, reals, limit=20000, pos=None):
    """Index-like Int terms (arguments of uninterpreted functions, Int constants) and
    real constants occurring in the expressions (looking through sum-atom bodies).
    pos: term sexpr -> set of (function name, argument position) the term occupies."""
    seen = set()
    stack = list(exprs)
    n = 0
    JID = z3.Int('J!').get_id()
    while stack and n < limit:
        t = stack.pop()
        tid = t.get_id()
        if tid in seen:
            continue
        seen.add(tid)
        n += 1
        if z3.is_app(t):
            d = t.decl()
            if d.kind() == z3.Z3_OP_UNINTERPRETED:
                if t.num_args() == 0:
                    if tid == JID:
                        continue
                    a = SUMS.by_const.get(tid) or EXTREMA.by_const.get(tid)
                    if a is not None:
                        stack.append(a.body)
                        stack.append(a.n)
                        continue
                    if z3.is_int(t):
                        ints.setdefault(t.sexpr(), t)
                    elif z3.is_real(t):
                        reals.setdefault(t.sexpr(), t)
                else:
                    fname = d.name()
                    for ai, a in enumerate(t.children()):
                        if z3.is_int(a) and not _mentions_J(a, JID):
                            key = a.sexpr()
                            ints.setdefault(key, a)
                            if pos is not None:
                                pos.setdefault(key, set()).add((fname, ai))
                        elif z3.is_real(a) and not _mentions_J(a, JID) and fname not in ('log10', 'ln', 'pow10', 'sqrt', 'powr'):
                            key = a.sexpr()
                            reals.setdefault(key, a)
                            if pos is not None:
                                pos.setdefault(key, set()).add((fname, ai))
            stack.extend(t.children())


def _mentions_J(t, JID):
    stack = [t]
    seen = set()
    while stack:
        x = stack.pop()
        xid = x.get_id()
        if xid == JID:
            return True
        if xid in seen:
            continue
        seen.add(xid)
        stack.extend(x.children())
    return False


_PATTERN_CACHE = {}
sym.RESET_HOOKS.append(_PATTERN_CACHE.clear)


def _forall_pattern(fa):
    """For each bound variable of fa: the set of (function, arg position) it occupies
    in the body (None = occupies none: instantiate everywhere)."""
    key = id(fa)
    if key in _PATTERN_CACHE and _PATTERN_CACHE[key][0] is fa:
        return _PATTERN_CACHE[key][1]
    probes = []
    for r in fa.ranges:
        if isinstance(r, str) and r == 'real':
            probes.append(Sc(fresh_real('probe')))
        else:
            probes.append(Sc(fresh_int('probe')))
    exprs = []

    def walk(f):
        for x in flatten(f):
            if isinstance(x, Forall):
                inner = [Sc(fresh_real('probe')) if (isinstance(r, str) and r == 'real') else Sc(fresh_int('probe')) for r in x.ranges]
                try:
                    walk(x.body(*inner))
                except Unsupported:
                    pass
            elif isinstance(x, Sc):
                exprs.append(x.t)
    try:
        walk(fa.body(*probes))
    except Unsupported:
        pass
    pos = {}
    ints, reals = {}, {}
    _collect_terms(exprs, ints, reals, pos=pos)
    pats = []
    for p in probes:
        mine = set()
        pid = p.t.get_id()
        for k, t in list(ints.items()) + list(reals.items()):
            if k in pos and _mentions_J(t, pid):
                if t.get_id() == pid:
                    mine |= pos[k]
                else:
                    mine |= set(('~' + f, a) for f, a in pos[k])     # occurs inside a compound index
        pats.append(mine if mine else None)
    extra = getattr(fa, 'extra_pos', None)
    if extra:
        pats = [((p or set()) | set(e)) if e else p for p, e in zip(pats, extra)]
    _PATTERN_CACHE[key] = (fa, pats)
    return pats


def _instantiate(foralls, ints, reals, done, out, budget, pos=None, cache=None):
    """Instantiate each Forall at the candidate terms that occupy a matching argument
    position (E-matching on (function, position)); returns new nested Foralls."""
    nested = []
    icands = list(ints.items())
    rcands = list(reals.values())
    for fa in foralls:
        pats = _forall_pattern(fa)
        pools = []
        for r, pat in zip(fa.ranges, pats):
            if isinstance(r, str) and r == 'real':
                exact = set(x for x in (pat or ()) if not x[0].startswith('~'))
                if exact and pos is not None:
                    pools.append([t for k, t in reals.items() if pos.get(k, set()) & exact])
                else:
                    pools.append([t for t in rcands if z3.is_const(t)])
                continue
            if pat is None or pos is None:
                pools.append([t for _, t in icands])
                continue
            exact = set(x for x in pat if not x[0].startswith('~'))
            if not exact:
                # the variable only occurs inside compound index terms (f(c + k)): no cheap matching,
                # use every integer term (constants first)
                pools.append(sorted([t for _, t in icands], key=lambda t: (t.num_args() > 0, t.sexpr()))[:40])
                continue
            sel = []
            for k, t in icands:
                pk = pos.get(k)
                if pk is None:
                    continue
                if pk & exact:
                    sel.append(t)
            pools.append(sel)
        total = 1
        for p in pools:
            total *= len(p)
        if total == 0:
            continue
        lim = min(budget[0], 600 if len(pools) > 1 else 200)
        if total > lim:
            cap = max(2, int(lim ** (1.0 / max(1, len(pools)))))
            pools = [p[:cap] for p in pools]
        for tup in itertools.product(*pools):
            key = (id(fa), tuple(t.get_id() for t in tup))
            if key in done:
                continue
            done.add(key)
            budget[0] -= 1
            if budget[0] <= 0:
                return nested
            if cache is not None and key in cache and cache[key][2] is fa:
                forms, nest = cache[key][0], cache[key][1]
                out.extend(forms)
                nested.extend(nest)
                continue
            ks = [Sc(t) for t in tup]
            g = True
            for r, k in zip(fa.ranges, ks):
                g = band(g, guard_of(r, k.t))
            if g is False:
                continue
            try:
                body = fa.body(*ks)
            except Unsupported:
                continue
            forms, nest = [], []
            for x in flatten(body):
                if isinstance(x, Forall):
                    b2 = x.body
                    nest.append(Forall(x.ranges, (lambda b2, g: lambda *a: _guarded(g, b2(*a)))(b2, g), x.name, x.lazy))
                elif x is True:
                    continue
                else:
                    forms.append(to_z3(implies(g, x), 'bool'))
            if cache is not None:
                cache[key] = (forms, nest, fa)      # keeps fa alive: its id cannot be reused
            out.extend(forms)
            nested.extend(nest)
    return nested


def _guarded(g, f):
    res = []
    for x in flatten(f):
        if isinstance(x, Forall):
            b = x.body
            res.append(Forall(x.ranges, (lambda b: lambda *a: _guarded(g, b(*a)))(b), x.name, x.lazy))
        else:
            res.append(implies(g, x))
    return res


_SIG = {}
sym.RESET_HOOKS.append(_SIG.clear)


def _signature(a):
    k = a.const.get_id()
    if k not in _SIG:
        names = {}
        stack, seen = [a.body], set()
        while stack:
            t = stack.pop()
            if t.get_id() in seen:
                continue
            seen.add(t.get_id())
            if z3.is_app(t):
                d = t.decl()
                if d.kind() == z3.Z3_OP_UNINTERPRETED and t.num_args() > 0:
                    names[d.name().split('!')[0]] = names.get(d.name().split('!')[0], 0) + 1
                stack.extend(t.children())
        _SIG[k] = (a.body.decl().kind(), names, len(seen))
    return _SIG[k]


def _similarity(a1, a2):
    """Score in [0,1]: same top-level operator, similar size, shared function symbols."""
    k1, n1, s1 = _signature(a1)
    k2, n2, s2 = _signature(a2)
    if k1 != k2:
        return 0.
    if max(s1, s2) > 3 * min(s1, s2) + 5:
        return 0.
    keys = set(n1) | set(n2)
    if not keys:
        return 0.5
    common = sum(min(n1.get(k, 0), n2.get(k, 0)) for k in keys)
    total = sum(max(n1.get(k, 0), n2.get(k, 0)) for k in keys)
    jac = common / float(total)
    if jac < 0.5:
        return 0.
    return jac * (min(s1, s2) / float(max(s1, s2)))


def _similar(a1, a2):
    return _similarity(a1, a2) > 0


class AxiomStore(object):
    """Sum axioms (rules R1/R3) generated once per atom / pair and reused across stages."""

    def __init__(self):
        self.sign = {}      # atom const id -> list of axioms
        self.pair = {}      # (id1, id2) -> axiom
        self.ext = {}       # extremum const id -> (ground witness axiom, Forall bound)

    def sign_axioms(self, a):
        k = a.const.get_id()
        if k not in self.sign:
            j = fresh_int('wit')
            b = a.at(j)
            zero = z3.RealVal(0) if z3.is_real(b) else z3.IntVal(0)
            j2 = fresh_int('wit')
            self.sign[k] = [z3.Implies(a.const < zero, z3.And(j >= 0, j < a.n, b < zero)),
                            z3.Implies(a.const > zero, z3.And(j2 >= 0, j2 < a.n, a.at(j2) > zero)),
                            z3.Implies(a.n <= 0, a.const == zero)]
        return self.sign[k]

    def pair_axiom(self, a1, a2):
        k = (a1.const.get_id(), a2.const.get_id())
        if k not in self.pair:
            j = fresh_int('wit')
            same = a1.n.eq(a2.n)
            prem = a1.const < a2.const if same else z3.And(a1.n == a2.n, a1.const < a2.const)
            self.pair[k] = z3.Implies(prem, z3.And(j >= 0, j < a1.n, a1.at(j) < a2.at(j)))
        return self.pair[k]


def extremum_axioms(store, terms):
    """Defining facts of the named extrema occurring in `terms`: a witness index attains
    the value (ground) and the value bounds every element (quantified, instantiated as usual)."""
    ground, foralls = [], []
    for a in EXTREMA.atoms_in(terms):
        k = a.const.get_id()
        if k not in store.ext:
            w = fresh_int('wit')
            if a.which == 'any':
                g = z3.Implies(a.const, z3.And(w >= 0, w < a.n, a.at(w)))
                fa = Forall([Sc(a.n)], (lambda a: lambda kk: Sc(z3.Implies(z3.Not(a.const), z3.Not(a.at(kk.t)))))(a), name='any')
            else:
                g = z3.Implies(a.n > 0, z3.And(w >= 0, w < a.n, a.const == a.at(w)))
                op = (lambda x, y: x <= y) if a.which == 'min' else (lambda x, y: x >= y)
                fa = Forall([Sc(a.n)], (lambda a, op: lambda kk: Sc(op(a.const, a.at(kk.t))))(a, op), name=a.which)
            store.ext[k] = (g, fa)
        g, fa = store.ext[k]
        ground.append(g)
        foralls.append(fa)
    return ground, foralls


def sum_axioms(store, core_terms, all_terms, pairwise, wide, goal_terms=None):
    """Sound facts about sum atoms (rules R1, R3 of DESIGN.md):
      sign:  S < 0  =>  body(j*) < 0 for a witness 0 <= j* < n   (and S > 0 likewise)
      pair:  S1 < S2 => body1(j*) < body2(j*) for a witness
    core atoms occur in the goal / ground hypotheses; `wide` extends sign axioms to the
    atoms that only occur in instantiated hypotheses.  Pair axioms always involve at
    least one atom of the goal."""
    sign = wide
    wide = sign == 'wide'
    core = SUMS.atoms_in(core_terms)
    every = SUMS.atoms_in(all_terms) if (wide or pairwise) else core
    ax = []
    if sign != 'none':
        for a in (every if wide else core):
            ax.extend(store.sign_axioms(a))
    if pairwise == 'goal':
        ga = SUMS.atoms_in(goal_terms)[:8]
        for a1 in ga:
            cands = []
            for a2 in every:
                if a1 is a2 or z3.is_real(a1.body) != z3.is_real(a2.body):
                    continue
                sc = _similarity(a1, a2)
                if sc > 0:
                    cands.append((-sc, a2.const.sexpr(), a2))
            cands.sort(key=lambda x: (x[0], x[1]))
            for _, _, a2 in cands[:6]:
                ax.append(store.pair_axiom(a1, a2))
                ax.append(store.pair_axiom(a2, a1))
    elif pairwise:
        goal_atoms = (SUMS.atoms_in(goal_terms) if goal_terms else core)[:10]
        others = every[:24]
        for a1 in goal_atoms:
            for a2 in others:
                if a1 is a2 or z3.is_real(a1.body) != z3.is_real(a2.body):
                    continue
                ax.append(store.pair_axiom(a1, a2))
                ax.append(store.pair_axiom(a2, a1))
    return ax, len(every)


LAST_QUERY = []          # assertions of the last refuting query (filled when prove(..., keep_query=True))
KEEP_QUERY = [False]


def prove(ob, timeout_ms=20000, global_axioms=(), want_model=False, keep_query=False):
    """Discharge one Obligation.  Returns Result."""
    KEEP_QUERY[0] = bool(keep_query)
    CURRENT[0] = '%s[%s]' % (ob.name, ob.path)
    t0 = time.time()
    from .sym import Stale
    if isinstance(ob.goal, Stale):
        # nothing to decide on a path that cannot be taken; otherwise the clause is undecidable with this contract
        import copy
        probe = copy.copy(ob)
        probe.goal = False
        r0 = prove(probe, timeout_ms=min(timeout_ms, 8000), global_axioms=global_axioms)
        if r0.status == 'proved':
            return Result(ob.name, 'proved', time.time() - t0, kind=ob.kind, detail='infeasible path')
        raise Unsupported('contract set-up out of date: ' + ob.goal.reason)
    subgoals = skolemize(ob.goal)
    if not subgoals:
        return Result(ob.name, 'proved', time.time() - t0, kind=ob.kind, nsub=0, detail='trivial')
    ground = []
    foralls = []
    for h in list(ob.hyps) + list(ob.pc):
        for x in flatten(h):
            if isinstance(x, Forall):
                foralls.append(x)
            elif x is True:
                continue
            elif x is False:
                return Result(ob.name, 'proved', time.time() - t0, kind=ob.kind, detail='infeasible path')
            else:
                ground.append(to_z3(x, 'bool'))
    ground.extend(global_axioms)
    worst = 'proved'
    detail = None
    model_txt = None
    nsub = 0
    for guards, goal in subgoals:
        nsub += 1
        if z3.is_true(goal):
            continue
        g_terms = [to_z3(g, 'bool') for g in guards if g is not True]
        del TRACE[:]
        status, d, m = _prove_one(ground, foralls, g_terms, goal, timeout_ms, want_model)
        if _os.environ.get('SEDVC_TRACE') and (status != 'proved' or _os.environ.get('SEDVC_TRACE') == 'all'):
            import sys as _sys
            _sys.stderr.write('TRACE %s [%s] %s %s\n' % (ob.name, ob.path, status, TRACE))
        if status != 'proved':
            worst = status if worst != 'refuted' else worst
            if status == 'refuted':
                worst = 'refuted'
            detail, model_txt = d, m
            if status == 'refuted':
                break
    return Result(ob.name, worst, time.time() - t0, detail=detail, model=model_txt, kind=ob.kind, nsub=nsub)


STAGES = (
    # (terms of ground hyps, rounds, pairwise, unfold definitional axioms, sign axioms: none/core/wide, timeout fraction)
    (False, 1, False, False, 'none', 0.15),
    (False, 1, False, False, 'core', 0.15),
    (True, 2, False, False, 'core', 0.3),
    (True, 2, 'goal', False, 'none', 0.4),
    (True, 2, False, True, 'wide', 0.5),
    (True, 3, True, True, 'wide', 1.0),
)

Z3_BIN = _os.environ.get('SEDVC_Z3', 'z3-new')
Z3_OLD = _os.environ.get('SEDVC_Z3_OLD', '/usr/bin/z3')
TRACE = []


def _shuffled(smt2, seed):
    """The same query with its top-level assertions in another order (z3's heuristics are very
    sensitive to it; any `unsat` is equally valid)."""
    import random
    head, sep, rest = smt2.partition('(assert')
    if not sep:
        return smt2
    body, _, tail = (sep + rest).rpartition('(check-sat)')
    parts = [a for a in body.split('\n(assert') if a.strip()]
    parts = [(a if a.startswith('(assert') else '(assert' + a) for a in parts]
    random.Random(seed).shuffle(parts)
    return head + '\n'.join(parts) + '\n(check-sat)\n'


def _launch(cmd, text, want_model):
    import subprocess
    import tempfile
    if want_model:
        text = text + "\n(get-model)\n"
    f = tempfile.NamedTemporaryFile('w', suffix='.smt2', delete=False, dir=_os.environ.get('TMPDIR') or '/var/tmp')
    f.write(text)
    f.close()
    try:
        p = subprocess.Popen(cmd + [f.name], stdout=subprocess.PIPE, stderr=subprocess.DEVNULL, text=True)
    except FileNotFoundError:
        _os.unlink(f.name)
        return None, f.name
    return p, f.name


def _answer(out, want_model):
    first = out.strip().split('\n')[0].strip() if out.strip() else ''
    if first == 'unsat':
        return 'unsat', None
    if first == 'sat':
        return 'sat', out[3:][:4000] if want_model else None
    return 'unknown', out[:200]


def run_z3(smt2, timeout_ms, want_model=False, portfolio=True):
    """Run the query in separate solver processes (hard timeouts).  The primary is z3 5.x; if it
    does not answer quickly a small portfolio joins in (the nonlinear solver without its Groebner
    step, z3 4.8.12 on the same text, another seed / z3 4.8.12 on the assertions in another order): the first
    definite answer wins.  Returns (status, model text)."""
    import time as _t
    tsec = max(1, int(timeout_ms / 1000) + 1)
    seed = _os.environ.get('VERIF_SEED', '0')
    primary, path0 = _launch([Z3_BIN, '-T:%d' % tsec, 'smt.random_seed=%s' % seed], smt2, want_model)
    if primary is None:
        return None, None
    procs = [(primary, path0, 'z3')]
    t0 = _t.time()
    deadline = t0 + timeout_ms / 1000.0 + 3
    grace = min(2.0, timeout_ms / 4000.0)
    launched = False
    result = ('unknown', 'timeout')
    try:
        while _t.time() < deadline:
            done_all = True
            for p, _, who in procs:
                rc = p.poll()
                if rc is None:
                    done_all = False
                    continue
                if getattr(p, '_seen', False):
                    continue
                p._seen = True
                st, m = _answer(p.stdout.read(), want_model)
                if st in ('unsat', 'sat'):
                    return st, m
            if portfolio and not launched and _t.time() - t0 > grace:
                launched = True
                left = max(1, int(deadline - _t.time() - 2))
                # members differ in what was seen to matter on the unstable queries of this code base (DESIGN.md 2.4):
                # the Groebner-basis step of the nonlinear solver, the z3 version, the order of the assertions
                for cmd, text in (([Z3_BIN, '-T:%d' % left, 'smt.arith.nl.grobner=false'], smt2),
                                  ([Z3_OLD, '-T:%d' % left], smt2),
                                  ([Z3_BIN, '-T:%d' % left, 'smt.random_seed=3'], _shuffled(smt2, 1)),
                                  ([Z3_OLD, '-T:%d' % left], _shuffled(smt2, 2))):
                    p, path = _launch(cmd, text, want_model)
                    if p is not None:
                        procs.append((p, path, cmd[0]))
                done_all = False
            if done_all:
                break
            _t.sleep(0.02)
        return result
    finally:
        for p, path, _ in procs:
            if p.poll() is None:
                p.kill()
            try:
                p.stdout.close()
            except Exception:
                pass
            try:
                _os.unlink(path)
            except OSError:
                pass


def math_instances(formulas, limit=12):
    """Ground instances of the facts about log10 / 10**x that the uninterpreted encoding lacks, at the terms that
    occur in the query: 10**x > 0, log10(10**x) = x, and log10 strictly increasing on the positive reals."""
    logs, pows = {}, {}
    stack, seen = list(formulas), set()
    while stack:
        t = stack.pop()
        if t.get_id() in seen:
            continue
        seen.add(t.get_id())
        if z3.is_app(t) and t.num_args() == 1 and t.decl().kind() == z3.Z3_OP_UNINTERPRETED:
            nm = t.decl().name()
            if nm == 'log10':
                logs[t.get_id()] = t
            elif nm == 'pow10':
                pows[t.get_id()] = t
        if z3.is_quantifier(t):
            continue
        stack.extend(t.children())
    out = []
    L = sym.MATH_FUNCS['log10']
    ps = list(pows.values())[:limit]
    for p in ps:
        out.append(p > 0)
        out.append(L(p) == p.arg(0))
        a = p.arg(0)
        if z3.is_app(a) and a.num_args() == 1 and a.decl().name() == 'log10':
            out.append(z3.Implies(a.arg(0) > 0, p == a.arg(0)))        # 10**log10(t) = t
    for i, a in enumerate(ps):
        for b in ps[i + 1:]:
            x, y = a.arg(0), b.arg(0)
            out.append(z3.Implies(x < y, a < b))                        # 10**x strictly increasing
            out.append(z3.Implies(y < x, b < a))
            out.append(z3.Implies(x == y, a == b))
    ls = list(logs.values())[:limit]
    for p in ps:
        for l in ls:
            # u = log10(t), t > 0  ==>  10**u = t   (the exponent need not be the log10 term syntactically)
            out.append(z3.Implies(z3.And(l.arg(0) > 0, p.arg(0) == l), p == l.arg(0)))
    for i, a in enumerate(ls):
        for b in ls[i + 1:]:
            x, y = a.arg(0), b.arg(0)
            out.append(z3.Implies(z3.And(x > 0, x < y), a < b))
            out.append(z3.Implies(z3.And(y > 0, y < x), b < a))
    return out


def _prove_one(ground, foralls, guards, goal, timeout_ms, want_model):
    last = ('unknown', 'unknown', None)
    store = AxiomStore()
    inst_cache = {}
    retry = []
    core = list(ground) + list(guards) + [goal]
    for stage, (use_ground_terms, max_rounds, pairwise, unfold, sign, tfrac) in enumerate(STAGES):
        wide = sign == 'wide'
        final = stage == len(STAGES) - 1
        base = list(ground) + list(guards)
        if stage == 4 and not any(f.lazy for f in foralls):
            continue        # nothing new to unfold
        if stage == 1 and not SUMS.atoms_in(core):
            continue
        if pairwise == 'goal' and len(SUMS.atoms_in([goal])) < 2:
            continue
        ints, reals, pos = {}, {}, {}
        _collect_terms([goal] + list(guards), ints, reals, pos=pos)
        if use_ground_terms:
            _collect_terms(ground, ints, reals, pos=pos)
        inst = []
        done = set()
        budget = [MAX_INST if final else 1500]
        ax, natoms = sum_axioms(store, core, core, pairwise, sign, goal_terms=[goal])
        ext_ground, ext_foralls = extremum_axioms(store, core)
        ax = ax + ext_ground
        _collect_terms(ax, ints, reals, pos=pos)
        rounds = 0
        all_foralls = [f for f in foralls if unfold or not f.lazy] + ext_foralls
        while rounds < max_rounds:
            rounds += 1
            before = len(inst)
            nested = _instantiate(all_foralls, ints, reals, done, inst, budget, pos=pos, cache=inst_cache)
            all_foralls.extend(nested)
            n_before = len(ints)
            _collect_terms(inst[before:], ints, reals, pos=pos)
            if wide or pairwise:
                ax2, natoms2 = sum_axioms(store, core, core + inst, pairwise, sign, goal_terms=[goal])
                if natoms2 > natoms:
                    ax, natoms = ax2 + ext_ground, natoms2
                    _collect_terms(ax, ints, reals, pos=pos)
            if len(ints) == n_before and not nested and len(inst) == before:
                break
        s = z3.Solver()
        for f in base:
            s.add(f)
        for f in inst:
            s.add(f)
        for f in ax:
            s.add(f)
        for f in math_instances(list(base) + list(inst) + list(ax) + [goal]):
            s.add(f)
        s.add(z3.Not(goal))
        smt2 = s.to_smt2()
        if DUMP_DIR and (not DUMP_MATCH or DUMP_MATCH in CURRENT[0]):
            _os.makedirs(DUMP_DIR, exist_ok=True)
            with open(_os.path.join(DUMP_DIR, 'p%d_q%04d_%d.smt2' % (_os.getpid(), next(_dump_counter), stage)), 'w') as fdump:
                fdump.write(smt2)
        # early stages get a share of the budget but never more than 15 s: a larger overall budget (thorough tier)
        # must not make obligations that are only provable with the later, wider instantiations slower
        tmo = max(2000, int(timeout_ms * tfrac)) if final else max(2000, min(15000, int(timeout_ms * tfrac)))
        # first the real relaxation with functions abstracted (pure QF_NRA -> nlsat); only an
        # `unsat` answer of the relaxed query is used (see relax.py)
        if _nonlinear(s.assertions()):
            try:
                from .relax import relax
                rs = z3.Solver()
                for f in relax(list(s.assertions())):
                    rs.add(f)
                rr, _ = run_z3(rs.to_smt2(), min(tmo, 10000))
                TRACE.append((stage, 'relaxed', min(tmo, 10000), rr))
                if rr == 'unsat':
                    return 'proved', 'nlsat on the real relaxation', None
            except Exception:
                pass
        r, m = run_z3(smt2, tmo, want_model=(want_model and final))
        TRACE.append((stage, len(smt2), tmo, r))
        if r == 'unknown' and not final:
            retry.append((smt2, list(s.assertions())))
        if r is None:       # no CLI available: in-process
            s.set('timeout', tmo)
            rr = s.check()
            r = str(rr)
            m = None
        if r == 'unsat':
            return 'proved', None, None
        if r == 'sat':
            if not final:
                continue
            if KEEP_QUERY[0]:
                LAST_QUERY[:] = list(s.assertions())
            return 'refuted', 'sat: the negated obligation is satisfiable', m
        last = ('unknown', 'unknown: %s' % (m or 'timeout'), None)
    # second pass: the (smaller) intermediate queries that only ran out of their share of the time
    # budget get the full budget -- keeps verdicts stable when the machine is busy
    for smt2, assertions in retry:
        r, m = run_z3(smt2, timeout_ms)
        if r == 'unsat':
            return 'proved', 'second pass with the full time budget', None
        if _nonlinear(assertions):
            try:
                from .relax import relax
                rs = z3.Solver()
                for f in relax(assertions):
                    rs.add(f)
                rr, _ = run_z3(rs.to_smt2(), timeout_ms)
                if rr == 'unsat':
                    return 'proved', 'nlsat on the real relaxation (second pass)', None
            except Exception:
                pass
    return last


def _nonlinear(assertions):
    seen = set()
    stack = list(assertions)
    while stack:
        t = stack.pop()
        tid = t.get_id()
        if tid in seen:
            continue
        seen.add(tid)
        if z3.is_app(t):
            k = t.decl().kind()
            if k == z3.Z3_OP_MUL:
                if sum(1 for c in t.children() if not (z3.is_int_value(c) or z3.is_rational_value(c))) >= 2:
                    return True
            elif k in (z3.Z3_OP_DIV, z3.Z3_OP_POWER):
                if not (z3.is_int_value(t.children()[1]) or z3.is_rational_value(t.children()[1])):
                    return True
            stack.extend(t.children())
    return False


def _trim(ints, goal):
    if len(ints) <= MAX_TERMS:
        return
    gi, gr = {}, {}
    _collect_terms([goal], gi, gr)
    keep = dict(gi)
    for k, v in ints.items():
        if len(keep) >= MAX_TERMS:
            break
        keep.setdefault(k, v)
    ints.clear()
    ints.update(keep)


def global_axioms():
    return list(sym.MATH_AXIOMS) + list(units.UNIT_AXIOMS)


def check_sat(hyps, timeout_ms=10000):
    """Vacuity guard: the assumptions themselves must be satisfiable."""
    ground, foralls = [], []
    for h in hyps:
        for x in flatten(h):
            if isinstance(x, Forall):
                foralls.append(x)
            elif x is True:
                continue
            elif x is False:
                return 'unsat'
            else:
                ground.append(to_z3(x, 'bool'))
    ints, reals = {}, {}
    _collect_terms(ground, ints, reals)
    # also instantiate at two fresh indices so that quantified facts meet each other
    for nm in ('v0', 'v1'):
        t = z3.Int('vac!' + nm)
        ints[t.sexpr()] = t
    inst = []
    _instantiate(foralls, ints, reals, set(), inst, [2000], pos=None)
    s = z3.Solver()
    s.set('timeout', timeout_ms)
    for f in ground + inst + global_axioms():
        s.add(f)
    r = s.check()
    return str(r)
