"""Contract DSL: sidecar contracts on the real repository functions.

A Contract is used in two ways (modular verification):
  * verify(): assume `requires`, symbolically execute the *real body*, and emit one
    obligation per `ensures` clause, `raises` clause and frame condition;
  * apply(): at a call site inside another function under verification, emit the
    `requires` clauses as obligations and assume the `ensures` clauses about a fresh
    result -- the callee body is never looked at.
"""
import z3

from . import npmodel as npm, sym
from .sym import (Sc, Unsupported, to_z3, wrap, ite, band, bor, bnot, compare, arith, implies,
                  fresh_int, fresh_real, fresh_bool, fresh_name, Forall, flatten, make_sum)
from .state import State
from .values import (ArrRef, ObjRef, ListRef, DictRef, PureArr, Masked, Quantity, Unit, Opaque,
                     ArrCell, ObjCell, is_array, uf_array)
from .npmodel import Raised


def short_name(qualname):
    parts = qualname.split('.')
    # sedfitter.mod.Class.method -> Class.method ; sedfitter.mod.func -> func
    if len(parts) >= 2 and parts[-2][:1].isupper():
        return parts[-2] + '.' + parts[-1]
    return parts[-1]


class AV(object):
    """Read-only accessor of an array value inside contracts."""

    def __init__(self, st, v):
        if isinstance(v, Quantity):
            self.unit = v.unit
            v = v.value
        else:
            self.unit = None
        self.v = v
        if isinstance(v, Masked):
            self.shape, self.fn = v.shape, v.fn
            self.mask, self.mrank = v.mask, v.mrank
        elif is_array(v):
            self.shape, self.fn, _ = npm.info(st, v)
            self.mask, self.mrank = None, 0
        else:
            self.shape, self.fn = (), (lambda idx: v)
            self.mask, self.mrank = None, 0

    @property
    def rank(self):
        return len(self.shape)

    @property
    def n(self):
        return self.shape[0]

    def __getitem__(self, idx):
        if not isinstance(idx, tuple):
            idx = (idx,)
        return self.fn(tuple(idx))

    def rowmask(self, i):
        if self.mask is None:
            return True
        return self.mask((i,))


class Ctx(object):
    def __init__(self, interp, st, fr=None, old=None, mode='apply'):
        self.interp = interp
        self.st = st
        self.fr = fr
        self.old = old
        self.mode = mode
        self._wit = {}

    def witness(self, hint, shape, kind='int'):
        """An existential witness of a postcondition.  While verifying the body it is
        taken from the implementation's local variable `hint` (an array of the right
        rank); at call sites it is a fresh uninterpreted array (existential elimination)."""
        if hint in self._wit:
            return self._wit[hint]
        v = None
        if self.mode == 'verify':
            cand = self.st.env.get(hint)
            if cand is not None and is_array(cand) and not isinstance(cand, Masked) and len(npm.shape_of(self.st, cand)) == len(shape):
                v = cand
            else:
                # the local variable the clause takes as its witness is gone (renamed / refactored away): the clause
                # cannot be evaluated on this code -- "contract out of date" (undecided), never a refutation
                raise KeyError("witness variable %r of the contract is not a local array of the function any more" % hint)
        if v is None:
            v = self.fresh_array('wit_' + hint, shape, kind)
        self._wit[hint] = v
        return v

    def decide(self, cond):
        """True / False when the path condition and the ground hypotheses of this state already decide `cond`
        (linear-arithmetic check, 300 ms), else None.  Lets a clause be stated in the simple form that holds on the
        path at hand (e.g. "x is stored in increasing order") instead of a case split the solver has to rediscover."""
        if cond is True or cond is False:
            return cond
        if not isinstance(cond, Sc):
            return None
        facts = [p.t for p in self.st.pc if isinstance(p, Sc)] + [h.t for h in self.st.hyps if isinstance(h, Sc)]
        try:
            for want, val in ((z3.Not(cond.t), True), (cond.t, False)):
                sol = z3.Solver()
                sol.set('timeout', 300)
                for f in facts:
                    sol.add(f)
                sol.add(want)
                if sol.check() == z3.unsat:
                    return val
        except Exception:
            return None
        return None

    def witness_scalar(self, hint, kind='int'):
        """Existential scalar witness: the implementation's local `hint` while verifying the body,
        a fresh constant at call sites."""
        key = ('scalar', hint)
        if key in self._wit:
            return self._wit[key]
        v = None
        if self.mode == 'verify':
            cand = self.st.env.get(hint)
            if isinstance(cand, Sc) or (isinstance(cand, int) and not isinstance(cand, bool)):
                v = cand
            else:
                raise KeyError("witness variable %r of the contract is not a local scalar of the function any more" % hint)
        if v is None:
            v = Sc(fresh_int('wit_' + hint)) if kind == 'int' else Sc(fresh_real('wit_' + hint))
        self._wit[key] = v
        return v

    # --- symbols
    def real(self, name):
        return Sc(z3.Real(name))

    def int(self, name):
        fixed = getattr(self.interp, 'concrete_ints', None)
        if fixed and name in fixed:
            return fixed[name]          # small-scope concretisation of an array length (sedvc/concretize.py)
        return Sc(z3.Int(name))

    def bool(self, name):
        return Sc(z3.Bool(name))

    def array(self, name, shape, kind='real', fresh=False):
        return self.st.box(uf_array(name, shape, kind, fresh=fresh))

    def fresh_array(self, name, shape, kind='real'):
        return self.st.box(uf_array(name, shape, kind, fresh=True))

    def defined_array(self, shape, fn, kind='real'):
        return self.st.box(PureArr(shape, fn, kind))

    def obj(self, cls, **attrs):
        ref = self.st.alloc_obj(cls, dict((k, self.st.box(v)) for k, v in attrs.items()))
        self.st.tags.add(('setup_obj', ref.addr))       # built by a contract set-up, not by the class's __init__
        return ref

    def list(self, items):
        return self.st.alloc_list(items)

    def dict(self, items):
        return self.st.alloc_dict(items)

    # --- access
    def A(self, v):
        return AV(self.st, v)

    def attr(self, obj, name):
        return self.st.heap[obj.addr].attrs.get(name)

    def has_attr(self, obj, name):
        return name in self.st.heap[obj.addr].attrs

    def set_attr(self, obj, name, v):
        self.st.set_attr(obj, name, self.st.box(v))

    def get(self, name):
        return self.st.env.get(name)

    def set(self, name, v):
        self.st.env[name] = v

    def cls(self, obj):
        return self.st.heap[obj.addr].cls

    # --- logic
    def forall(self, ranges, fn, name=None, lazy=False):
        return Forall(ranges, fn, name, lazy)

    def Sum(self, n, fn, opaque=False):
        if isinstance(n, int) and n <= 8:
            tot = 0
            for k in range(n):
                tot = arith('+', tot, fn(k))
            return tot
        j = fresh_int('sj')
        body = fn(Sc(j))
        if not isinstance(body, Sc):
            return arith('*', n, body)
        return wrap(make_sum(to_z3(n, 'int'), j, body.t, opaque=opaque))

    def Min(self, A):
        return self._extremum(A, 'min')

    def Max(self, A):
        return self._extremum(A, 'max')

    def Any(self, n, fn):
        """exists 0 <= k < n: fn(k)  as a canonical named Boolean (axioms added by the solver)."""
        j = fresh_int('j')
        body = fn(Sc(j))
        if isinstance(body, bool):
            return band(body, compare('>', n, 0))
        return wrap(sym.EXTREMA.atom(to_z3(n, 'int'), j, to_z3(body, 'bool'), 'any'))

    def _extremum(self, A, which):
        j = fresh_int('j')
        body = A[Sc(j)]
        if not isinstance(body, Sc):
            return body
        return wrap(sym.EXTREMA.atom(to_z3(A.n, 'int'), j, body.t, which))

    implies = staticmethod(implies)
    ite = staticmethod(ite)

    @staticmethod
    def and_(*xs):
        r = True
        for x in xs:
            r = band(r, x)
        return r

    @staticmethod
    def or_(*xs):
        r = False
        for x in xs:
            r = bor(r, x)
        return r

    not_ = staticmethod(bnot)

    @staticmethod
    def eq(a, b):
        return compare('==', a, b)

    @staticmethod
    def isin(x, values):
        r = False
        for v in values:
            r = bor(r, compare('==', x, v))
        return r

    def assume(self, f):
        self.st.assume(f)

    def fn(self, name, *sorts):
        """An uninterpreted spec function (sorts: 'int'/'real'/'bool', last is the range)."""
        m = {'int': z3.IntSort(), 'real': z3.RealSort(), 'bool': z3.BoolSort()}
        f = z3.Function(name, *[m[s] for s in sorts])
        kinds = sorts[:-1]
        return lambda *a: Sc(f(*[to_z3(x, k) for x, k in zip(a, kinds)]))

    log10 = staticmethod(lambda x: sym.mathfn('log10', x))
    ln = staticmethod(lambda x: sym.ln_const(x))
    sqrt = staticmethod(lambda x: sym.mathfn('sqrt', x))
    abs = staticmethod(sym.sabs)
    LN10 = Sc(sym.LN10)


class Args(object):
    """The (bound) arguments of the function under contract: a.data, a.self, a['self']."""

    def __init__(self, d):
        self.__dict__['_d'] = dict(d)

    def __getattr__(self, k):
        try:
            return self._d[k]
        except KeyError:
            raise AttributeError(k)

    def __getitem__(self, k):
        return self._d[k]

    def get(self, k, default=None):
        return self._d.get(k, default)


class Contract(object):
    name = None
    modifies = ()
    trusted = False         # True: body not verified (I/O etc.), contract only assumed at call sites
    properties = ()         # property ids this contract serves
    variants = (None,)      # the body is verified once per variant (e.g. '2d', '3d' inputs)
    derived = {}            # ensures clause -> tuple of ensures clauses it follows from (a lemma
                            # over the contract: proved for an arbitrary result satisfying them)

    def lemmas(self, c, a):
        """name -> (hypothesis, conclusion): instances of lemmas proved in Lean
        (lemmas/SumLemmas.lean); the hypothesis is an obligation, the conclusion is
        then assumed while verifying this function."""
        return {}

    def setup(self, c):
        raise NotImplementedError

    def requires(self, c, a):
        return {}

    def ensures(self, c, a, result, old):
        return {}

    def raises(self, c, a):
        """exception name -> condition (over the pre-state) under which the function
        raises it: it must raise then, and must not raise it otherwise."""
        return {}

    def result(self, c, a):
        return None

    def havoc(self, c, a):
        pass

    # ------------------------------------------------------------------
    def apply(self, interp, st, fr, bound):
        c = Ctx(interp, st, fr)
        caller = short_name(fr.qualname) if fr is not None else '?'
        callee = short_name(self.name)
        assume_pre = self.name in getattr(interp, 'assume_pre', ())
        try:
            pre_items = list(self.requires(c, Args(bound)).items())
            rz = self.raises(c, Args(bound))
        except (TypeError, AttributeError, KeyError, IndexError, ValueError) as e:
            # the arguments at this call site are not of the shape the contract was written for (the caller changed):
            # undecided, not a crash of the checker and not a violation
            raise Unsupported('contract set-up out of date: the contract of %s cannot be applied at the call site in %s (%s: %s)' % (callee, caller, type(e).__name__, e))
        for k, f in pre_items:
            if assume_pre:
                # the caller under verification only orchestrates: the callee's domain conditions on the DATA are
                # assumptions of the property (listed in the evidence), not obligations of the orchestration
                for x in flatten(f):
                    if not isinstance(x, bool):
                        st.assume(x)
                continue
            st.oblige('%s/call.%s/pre.%s' % (caller, callee, k), f, kind='pre')
        for exc, cond in rz.items():
            may = isinstance(cond, tuple) and cond[0] == 'may'
            if may:
                cond = band(cond[1], Sc(fresh_bool('raises')))
            if cond is False:
                continue
            rs = st.fork()
            rs.assume_pc(cond)
            rs.path += 'X'
            rs.status = 'raise'
            rs.exc = (exc, 'raised by %s' % callee, 0)
            interp._pending_forks.append(rs)
            st.assume_pc(bnot(cond))
        old_st = st.fork()
        st.events.append(('call', self.name, dict(bound)))
        try:
            self.havoc(c, Args(bound))
            res = self.result(c, Args(bound))
        except (TypeError, AttributeError, KeyError, IndexError, ValueError) as e:
            raise Unsupported('contract set-up out of date: the contract of %s cannot be applied at the call site in %s (%s: %s)' % (callee, caller, type(e).__name__, e))
        res = st.box(res)
        # the 4th component is a snapshot of the returned object's fields at return time (the caller may change them later)
        st.events.append(('ret', self.name, res, dict(st.heap[res.addr].attrs) if isinstance(res, ObjRef) and res.addr in st.heap else None))
        try:
            post = self.ensures(c, Args(bound), res, Ctx(interp, old_st, fr))
        except (AttributeError, KeyError, TypeError, IndexError):
            post = {}       # structural clauses that only make sense for the verification set-up
        # derived clauses follow from the others: not assumed again (keeps queries small).  Clauses that
        # evaluate to a Python bool are structural facts established by result()/havoc(): nothing to assume
        # (and a structural False must never become an assumption).
        for k, f in post.items():
            if k in self.derived:
                continue
            for x in flatten(f):
                if isinstance(x, bool):
                    continue
                st.assume(x)
        return res

    # ------------------------------------------------------------------
    def verify(self, interp, variant=None):
        """Returns (obligations, info)."""
        st = State()
        st.obligations = []
        found = interp.repo.find_function(self.name)
        if found is None:
            raise Unsupported("function %s not found in the repository" % self.name)
        mi, ci, fdef = found
        from .interp import Frame
        fr = Frame(mi, self.name, ci)
        c = Ctx(interp, st, fr)
        args = self.setup(c) if variant is None else self.setup(c, variant)
        args = dict((k, st.box(v)) for k, v in args.items())
        pre = self.requires(c, Args(args))
        st.assume(list(pre.values()))
        pre_forms = list(st.hyps)
        sn = short_name(self.name)
        for k, (hyp, concl) in self.lemmas(c, Args(args)).items():
            st.oblige('%s/lemma.%s.hypothesis' % (sn, k), hyp, kind='lemma')
            st.assume(concl)
        old_st = st.fork()
        self._entry_args, self._entry_state = args, old_st
        tracked = self._tracked(st, args)
        interp._pending_forks = []
        interp.assume_pre = tuple(getattr(self, 'assume_pre_of', ()))
        for key, spec in getattr(self, 'loops', {}).items():
            if isinstance(key, tuple):
                if key[0] == variant:
                    interp.loop_specs[(self.name, key[1])] = spec
                else:
                    interp.loop_specs.pop((self.name, key[1]), None) if interp.loop_specs.get((self.name, key[1])) is spec else None
            else:
                interp.loop_specs[(self.name, key)] = spec
        finals = interp.run_function(self.name, dict(args), st)
        sn = short_name(self.name)
        n_paths = {'return': 0, 'raise': 0}
        for fs in finals:
            fc = Ctx(interp, fs, fr, old=Ctx(interp, old_st, fr), mode='verify')
            rz = self.raises(Ctx(interp, old_st.fork(), fr), Args(args))
            if fs.status == 'return':
                n_paths['return'] += 1
                # reachability probe (vacuity guard): this goal must NOT be provable -- if it is for every returning path,
                # the hypotheses collected on the way (callee contracts, loop assumptions, preconditions) are contradictory
                fs.oblige('%s/cover.path_reachable' % sn, False, kind='cover')
                try:
                    ens = self.ensures(fc, Args(args), fs.retval, Ctx(interp, old_st, fr))
                except Raised as e:
                    ens = {'contract_evaluation(%s)' % e.exc: False}
                except (KeyError, AttributeError, IndexError, TypeError, ValueError) as e:
                    # the postcondition can no longer make sense of the final state (a field / event it inspects has
                    # another shape): contract out of date -> undecided, never a crash and never a violation
                    from .sym import Stale
                    ens = {'contract_evaluation': Stale('the postcondition of %s cannot be evaluated on this code (%s: %s)' % (sn, type(e).__name__, e))}
                for k, f in ens.items():
                    if k in self.derived:
                        continue
                    fs.oblige('%s/post.%s' % (sn, k), f, kind='post')
                for exc, cond in rz.items():
                    if isinstance(cond, tuple) and cond[0] == 'may':
                        continue        # may raise under cond, need not
                    fs.oblige('%s/raises.%s.must' % (sn, exc), bnot(cond) if not isinstance(cond, Forall) else cond, kind='raises')
                self._frame(fs, old_st, tracked, sn)
            elif fs.status == 'raise':
                n_paths['raise'] += 1
                exc = fs.exc[0]
                allowed = rz.get(exc)
                if allowed is None and exc != 'Exception' and 'Exception' in rz:
                    allowed = rz['Exception']
                if isinstance(allowed, tuple) and allowed[0] == 'may':
                    allowed = allowed[1]
                if allowed is None:
                    fs.oblige('%s/raises.unexpected(%s@%s)' % (sn, exc, fs.exc[2]), False, kind='raises')
                else:
                    fs.oblige('%s/raises.%s.only_if' % (sn, exc), allowed, kind='raises')
            else:
                raise Unsupported("path of %s ends in status %s" % (self.name, fs.status))
        # derived clauses: lemmas over the contract (arbitrary result satisfying the premises)
        if self.derived and n_paths['return']:
            ls = old_st.fork()
            ls.obligations = st.obligations
            lc = Ctx(interp, ls, fr)
            for k, (hyp, concl) in self.lemmas(lc, Args(args)).items():
                ls.assume(concl)
            res = ls.box(self.result(lc, Args(args)))
            ens = self.ensures(lc, Args(args), res, Ctx(interp, old_st, fr))
            for k, prem in self.derived.items():
                if k not in ens or any(p not in ens for p in prem):
                    continue            # (a variant of the contract without these clauses)
                s2 = ls.fork()
                s2.obligations = st.obligations
                for p in prem:
                    s2.assume(ens[p])
                s2.oblige('%s/post.%s' % (sn, k), ens[k], kind='post-lemma')
        info = {'paths': n_paths, 'pre': pre_forms}
        return st.obligations, info

    def _tracked(self, st, args):
        """Input arrays / objects whose contents must not change (frame)."""
        out = []
        seen = set()

        def walk(label, v, depth=0):
            if isinstance(v, Quantity):
                v = v.value
            if isinstance(v, ArrRef):
                if v.addr not in seen:
                    seen.add(v.addr)
                    out.append((label, 'arr', v.addr, st.heap[v.addr]))
            elif isinstance(v, ObjRef) and depth < 3:
                if v.addr not in seen:
                    seen.add(v.addr)
                    cell = st.heap[v.addr]
                    out.append((label, 'obj', v.addr, cell))
                    for k, x in cell.attrs.items():
                        walk(label + '.' + k, x, depth + 1)
            elif isinstance(v, ListRef) and depth < 3:
                if v.addr not in seen:
                    seen.add(v.addr)
                    out.append((label, 'list', v.addr, st.heap[v.addr]))
                    for i, x in enumerate(st.heap[v.addr].items):
                        walk('%s[%d]' % (label, i), x, depth + 1)
        for k, v in args.items():
            walk(k, v)
        return out

    def _frame(self, fs, old_st, tracked, sn):
        mods = set(self.modifies)
        for label, kind, addr, cell in tracked:
            root = label.split('.')[0].split('[')[0]
            if label in mods or root in mods and label == root and kind != 'obj':
                continue
            if any(label == m or label.startswith(m + '.') for m in mods if '.' in m):
                continue
            new = fs.heap.get(addr)
            if new is cell:
                continue
            if kind == 'arr':
                of, nf = cell.fn, new.fn
                fs.oblige('%s/frame.%s' % (sn, label),
                          Forall(list(cell.shape), lambda *idx: _same(nf(tuple(idx)), of(tuple(idx))), name='frame'), kind='frame')
            elif kind == 'obj':
                if root in mods and label == root:
                    continue
                for k in set(cell.attrs) | set(new.attrs):
                    if (label + '.' + k) in mods:
                        continue
                    a, b = cell.attrs.get(k, _MISSING), new.attrs.get(k, _MISSING)
                    if not _same_value(a, b):
                        if a is _MISSING:
                            # an attribute the contract's abstract state does not know: the frame speaks
                            # about the known state only, so this is "contract needs updating", not a violation
                            from .sym import Stale
                            fs.oblige('%s/frame.%s.%s' % (sn, label, k), Stale('the code stores attribute %r which the contract of %s does not describe' % (k, sn)), kind='frame')
                        else:
                            fs.oblige('%s/frame.%s.%s' % (sn, label, k), False, kind='frame')
            elif kind == 'list':
                if len(cell.items) != len(new.items) or any(not _same_value(a, b) for a, b in zip(cell.items, new.items)):
                    fs.oblige('%s/frame.%s' % (sn, label), False, kind='frame')


_MISSING = object()


def _same(a, b):
    if not isinstance(a, Sc) and not isinstance(b, Sc):
        return a == b
    return compare('==', a, b)


def _same_value(a, b):
    if a is b:
        return True
    if isinstance(a, (ArrRef, ObjRef, ListRef, DictRef)) and type(a) is type(b):
        return a.addr == b.addr and getattr(a, 'view', None) is getattr(b, 'view', None)
    if isinstance(a, Quantity) and isinstance(b, Quantity):
        return a.unit == b.unit and _same_value(a.value, b.value)
    import fractions
    if isinstance(a, (int, float, str, bool, type(None), fractions.Fraction)) and isinstance(b, (int, float, str, bool, type(None), fractions.Fraction)):
        return type(a) == type(b) and a == b
    if isinstance(a, Sc) and isinstance(b, Sc):
        return a.t.eq(b.t)
    if isinstance(a, tuple) and isinstance(b, tuple) and len(a) == len(b):
        return all(_same_value(x, y) for x, y in zip(a, b))
    return False


REGISTRY = {}


def contract(cls):
    inst = cls()
    REGISTRY[inst.name] = inst
    return cls
