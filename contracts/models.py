"""Contracts for sedfitter/models.py: Models.log_fluxes_mJy, Models.fit (C01-C04, C11)."""
from sedvc import units
from sedvc.contractlib import Contract, contract
from sedvc.sym import Sc, compare, band, bor, bnot, implies, ite, arith, smin, smax, fresh_int
from sedvc.values import Quantity, Opaque
from .source import make_source, source_arrays, well_formed, SpecSource, SOURCE
from .fitting import chi2_term, penalty, moments, wcs
from .fit_info import FITINFO, META, is_permutation, sorted_nondecreasing

MODELS = 'sedfitter.models.Models'
MJY = units.BASE['mJy']


def make_models(c, variant, prefix='mod'):
    variant, _, fu = str(variant).partition('/')
    MJY = units.BASE[fu or 'mJy']           # (the unit the grid of model fluxes is held in; shadows the module constant on purpose)
    M, N = c.int('n_models'), c.int('n_filters')
    c.assume([M >= 0, N >= 0])
    names = c.array(prefix + '_names', (M,), 'int')
    wav = Quantity(c.array(prefix + '_wav', (N,)), units.BASE['micron'])
    if variant == '2d':
        flux = Quantity(c.array(prefix + '_flux', (M, N)), MJY)
        return c.obj(MODELS, names=names, _fluxes=flux, _distances=None, _apertures=None, logd=None,
                     _wavelengths=wav, extended=c.list([]))
    D = c.int('n_dist')
    c.assume(D >= 1)
    flux = Quantity(c.array(prefix + '_flux', (M, D, N)), MJY)
    dist = Quantity(c.array(prefix + '_dist', (D,)), units.BASE['kpc'])
    return c.obj(MODELS, names=names, _fluxes=flux, _distances=dist, _apertures=None,
                 logd=c.array(prefix + '_logd', (D,)), _wavelengths=wav, extended=c.list([]))


def model_flux(c, models):
    q = c.attr(models, '_fluxes')
    return c.A(q.value), q.unit


def log_model_flux(c, models):
    """log10 of the model flux expressed in mJy (spec function)."""
    F, unit = model_flux(c, models)
    from sedvc.npmodel import unit_factor
    k = unit_factor(unit, MJY)
    return lambda *idx: c.log10(F[idx] * k if not (not isinstance(k, Sc) and k == 1) else F[idx])


def fluxes_positive(c, models):
    F, _ = model_flux(c, models)
    return c.forall(list(F.shape), lambda *idx: F[idx] > 0, 'model fluxes > 0')


@contract
class LogFluxesMJy(Contract):
    name = MODELS + '.log_fluxes_mJy'
    properties = ('C01', 'C02', 'C04')
    variants = ('2d', '3d', '2d/Jy')        # (the grid held in mJy / in Jy)

    def setup(self, c, variant):
        return dict(self=make_models(c, variant))

    def requires(self, c, a):
        return {'fluxes_positive': fluxes_positive(c, a.self)}

    def result(self, c, a):
        F, _ = model_flux(c, a.self)
        lmf = log_model_flux(c, a.self)
        return c.defined_array(F.shape, lambda idx: lmf(*idx))

    def ensures(self, c, a, result, old):
        F, _ = model_flux(c, a.self)
        R = c.A(result)
        lmf = log_model_flux(c, a.self)
        return {'shape': c.and_(*[compare('==', x, y) for x, y in zip(R.shape, F.shape)]) if R.rank == F.rank else False,
                'log10_of_mJy': c.forall(list(F.shape), lambda *idx: R[idx] == lmf(*idx), 'log10 mJy')}


class _W(object):
    """array-like adapter so that `moments`/`wcs` accept a spec function"""

    def __init__(self, n, fn):
        self.n = n
        self.fn = fn

    def __getitem__(self, j):
        return self.fn(j)


@contract
class ModelsFit(Contract):
    """Models.fit(source, av_law, sc_law, av_min, av_max): for every model the constrained
    least-squares optimum, its chi^2 (fit + limit penalties at the same parameters), ranked
    by chi^2 with every row describing one model; nothing reachable from self/source/laws
    is modified (history independence, C11)."""
    name = MODELS + '.fit'
    properties = ('C01', 'C02', 'C03', 'C04', 'C11')
    variants = ('2d', '3d')

    def setup(self, c, variant):
        models = make_models(c, variant)
        N = c.A(c.attr(models, '_wavelengths').value).n
        source = make_source(c, n=N)
        return dict(self=models, source=source, av_law=c.array('av_law', (N,)), sc_law=c.array('sc_law', (N,)),
                    av_min=c.real('av_min'), av_max=c.real('av_max'), output_convolved=False)

    def _is3d(self, c, a):
        return c.attr(a.self, '_distances') is not None

    def requires(self, c, a):
        sp = SpecSource(c, a.source)
        F, _ = model_flux(c, a.self)
        N = F.shape[-1]
        p1, p2 = c.A(a.av_law), c.A(a.sc_law)
        W = _W(N, sp.W)
        req = {
            'source_well_formed': well_formed(c, a.source),
            'fluxes_positive': fluxes_positive(c, a.self),
            'lengths': c.and_(compare('==', sp.N, N), compare('==', p1.n, N), compare('==', p2.n, N)),
            'av_range': a.av_min <= a.av_max,
            'names_len': compare('==', c.A(c.attr(a.self, 'names')).n, F.shape[0]),
        }
        if self._is3d(c, a):
            m11 = c.Sum(N, lambda j: W[j] * p1[j] * p1[j])
            req['nonsingular'] = bnot(m11 == 0)
            req['logd_len'] = compare('==', c.A(c.attr(a.self, 'logd')).n, F.shape[1])
        else:
            m11, m12, m22 = moments(c, W, p1, p2)
            req['nonsingular'] = bnot(m11 * m22 - m12 * m12 == 0)
        return req

    def lemmas(self, c, a):
        sp = SpecSource(c, a.source)
        F, _ = model_flux(c, a.self)
        N = F.shape[-1]
        p1, p2 = c.A(a.av_law), c.A(a.sc_law)
        W = _W(N, sp.W)
        hyp = c.forall(N, lambda j: W[j] >= 0, 'W>=0')
        out = {'W_nonneg': (hyp, hyp),
               'W_zero_unless_fitted': ((lambda f: (f, f))(c.forall(N, lambda j: implies(bnot(bor(sp.v[j] == 1, sp.v[j] == 4)), W[j] == 0), 'W=0')))}
        if not self._is3d(c, a):
            out['wcs'] = (hyp, wcs(c, W, p1, p2))
        return out

    def result(self, c, a):
        F, _ = model_flux(c, a.self)
        M, N = F.shape[0], F.shape[-1]
        info = c.obj(FITINFO, source=a.source,
                     av=c.fresh_array('fit_av', (M,)), sc=c.fresh_array('fit_sc', (M,)),
                     chi2=c.fresh_array('fit_chi2', (M,)), model_name=c.fresh_array('fit_name', (M,), 'int'),
                     model_fluxes=c.fresh_array('fit_mf', (M, N)), model_id=c.fresh_array('fit_id', (M,), 'int'),
                     meta=c.obj(META))
        return info

    def ensures(self, c, a, result, old):
        info = result
        sp = SpecSource(c, a.source)
        F, _ = model_flux(c, a.self)
        M, N = F.shape[0], F.shape[-1]
        lmf = log_model_flux(c, a.self)
        p1, p2 = c.A(a.av_law), c.A(a.sc_law)
        lo, hi = a.av_min, a.av_max
        AV, SC, CH = c.A(c.attr(info, 'av')), c.A(c.attr(info, 'sc')), c.A(c.attr(info, 'chi2'))
        NM, ID, MF = c.A(c.attr(info, 'model_name')), c.A(c.attr(info, 'model_id')), c.A(c.attr(info, 'model_fluxes'))
        names = c.A(c.attr(a.self, 'names'))
        v = sp.v
        # LF/LE of a plot-only (flag 9) point are unspecified; every clause below multiplies
        # them by the weight W_j = 0 or goes through the chi^2 term, which ignores them
        out = {
            'source_is_argument': c.attr(info, 'source') is a.source or (getattr(c.attr(info, 'source'), 'addr', None) == a.source.addr),
            'lengths': c.and_(*[compare('==', X.n, M) for X in (AV, SC, CH, NM, ID)] + [compare('==', MF.shape[0], M), compare('==', MF.shape[1], N)]),
            'every_model_once': is_permutation(c, ID, M),
            'ranked': sorted_nondecreasing(c, CH, M),
            'row_name': c.forall(M, lambda k: NM[k] == names[ID[k]], 'row_name'),
            'av_in_range': c.forall(M, lambda k: band(AV[k] >= lo, AV[k] <= hi), 'av_in_range'),
        }
        if not self._is3d(c, a):
            def r(i, j):
                return sp.LF(j) - lmf(i, j)

            def Q(i, av, sc):
                return c.Sum(N, lambda j: sp.W(j) * (r(i, j) - av * p1[j] - sc * p2[j]) * (r(i, j) - av * p1[j] - sc * p2[j]))

            def fit_plus_pen(k):
                i = ID[k]
                return c.Sum(N, lambda j: chi2_term(c, v[j], r(i, j), AV[k] * p1[j] + SC[k] * p2[j], sp.LE(j), sp.W(j)), opaque=True)
            out['optimal'] = c.forall([M, 'real', 'real'],
                                      lambda k, av, sc: implies(band(av >= lo, av <= hi), Q(ID[k], av, sc) >= Q(ID[k], AV[k], SC[k])), 'optimal')
            out['chi2_is_fit_plus_penalties'] = c.forall(M, lambda k: CH[k] == fit_plus_pen(k), 'chi2')
            out['predicted_fluxes'] = c.forall([M, N], lambda k, j: MF[k, j] == lmf(ID[k], j) + AV[k] * p1[j] + SC[k] * p2[j], 'model_fluxes')
        else:
            D = F.shape[1]
            logd = c.A(c.attr(a.self, 'logd'))
            m11 = c.Sum(N, lambda j: sp.W(j) * p1[j] * p1[j])

            def r(i, d, j):
                return sp.LF(j) - lmf(i, d, j)

            def av_opt(i, d):
                unc = c.Sum(N, lambda j: r(i, d, j) * p1[j] * sp.W(j)) / m11
                return ite(unc > hi, hi, ite(unc < lo, lo, unc))

            def chi2_at(i, d):
                return c.Sum(N, lambda j: chi2_term(c, v[j], r(i, d, j), av_opt(i, d) * p1[j], sp.LE(j), sp.W(j)), opaque=True)
            # existential witness: the grid index chosen for model i (from the implementation
            # while verifying; fresh at call sites)
            Bw = c.A(c.witness('best', (M,), 'int'))
            B = lambda k: Bw[ID[k]]
            out['best_distance_on_grid'] = c.forall(M, lambda k: band(B(k) >= 0, B(k) < D), 'best in grid')
            out['scale_is_log_distance'] = c.forall(M, lambda k: SC[k] == logd[B(k)], 'sc')
            out['av_is_clipped_optimum'] = c.forall(M, lambda k: AV[k] == av_opt(ID[k], B(k)), 'av')
            out['chi2_at_best'] = c.forall(M, lambda k: CH[k] == chi2_at(ID[k], B(k)), 'chi2')
            out['predicted_fluxes'] = c.forall([M, N], lambda k, j: MF[k, j] == lmf(ID[k], B(k), j) + AV[k] * p1[j], 'model_fluxes')
            out['chi2_is_grid_minimum'] = c.forall([M, D], lambda k, d: CH[k] <= chi2_at(ID[k], d), 'grid_min')
        return out
