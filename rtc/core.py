"""Common machinery of the bounded (E2) checks: case accounting, violations, replay."""
import json
import math
import os
import time

import numpy as np


class Violation(object):
    def __init__(self, key, message, case):
        self.key = key          # stable key of the failing input / call site (for known findings)
        self.message = message
        self.case = case        # JSON-serialisable description sufficient to replay


class Recorder(object):
    """Counts what a bounded run actually explored."""

    def __init__(self, prop, rule):
        self.prop = prop
        self.rule = rule
        self.evaluations = 0
        self.nontrivial = set()
        self.samples = []
        self.violations = []
        self.exhaustive = None
        self.notes = []
        self.t0 = time.time()
        self.deadline = None

    def case(self, key=None, sample=None, nontrivial=True):
        self.evaluations += 1
        if nontrivial and key is not None:
            self.nontrivial.add(key)
        if sample is not None and len(self.samples) < 4:
            self.samples.append(sample)

    def fail(self, key, message, case):
        if len(self.violations) < 20:
            self.violations.append(Violation(key, message, case))

    def expect(self, cond, key, message, case):
        if not cond:
            self.fail(key, message, case)
        return bool(cond)

    def out_of_time(self):
        return self.deadline is not None and time.time() > self.deadline

    def summary(self):
        return dict(evaluations=self.evaluations, distinct_nontrivial=len(self.nontrivial), rule=self.rule,
                    samples=self.samples, exhaustive=bool(self.exhaustive), notes=self.notes)


def jsonable(x):
    if isinstance(x, dict):
        return dict((str(k), jsonable(v)) for k, v in x.items())
    if isinstance(x, (list, tuple)):
        return [jsonable(v) for v in x]
    if isinstance(x, np.ndarray):
        return jsonable(x.tolist())
    if isinstance(x, (np.integer,)):
        return int(x)
    if isinstance(x, (np.floating, float)):
        x = float(x)
        if math.isnan(x):
            return 'nan'
        if math.isinf(x):
            return 'inf' if x > 0 else '-inf'
        return x
    if isinstance(x, (np.bool_,)):
        return bool(x)
    return x


def unjson_floats(x):
    if isinstance(x, list):
        return [unjson_floats(v) for v in x]
    if isinstance(x, dict):
        return dict((k, unjson_floats(v)) for k, v in x.items())
    if x == 'nan':
        return float('nan')
    if x == 'inf':
        return float('inf')
    if x == '-inf':
        return float('-inf')
    return x


def close(a, b, rtol=1e-9, atol=1e-12):
    a, b = np.asarray(a, dtype=float), np.asarray(b, dtype=float)
    if a.shape != b.shape:
        return False
    with np.errstate(invalid='ignore'):
        same = (a == b) | (np.isnan(a) & np.isnan(b))
        ok = same | (np.abs(a - b) <= atol + rtol * np.maximum(np.abs(a), np.abs(b)))
    return bool(np.all(ok))


def rng_for(seed, *salt):
    return np.random.default_rng([int(seed) & 0x7fffffff] + [__import__('zlib').crc32(str(s).encode()) % (2 ** 31) if not isinstance(s, int) else s for s in salt])
