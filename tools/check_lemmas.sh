#!/bin/bash
# Re-checks lemmas/SumLemmas.lean with Lean 4 + Mathlib (no sorry, only the standard axioms) and
# (re)writes lemmas/STAMP = sha256 of the lemma file + lean version + the #print axioms output.
cd "$(dirname "$0")/../lemmas" || exit 3
out=$(lean SumLemmas.lean 2>&1); rc=$?
if [ $rc -ne 0 ] || echo "$out" | grep -q -e 'sorryAx' -e 'error'; then
  echo "$out" | tail -20; echo "LEMMA-CHECK FAILED"; exit 3
fi
{ sha256sum SumLemmas.lean | cut -d' ' -f1; lean --version; echo "$out" | grep 'depends on axioms'; } > STAMP
echo "lemmas ok: $(head -1 STAMP)"
