"""Heap values of the symbolic executor: functional arrays with symbolic shapes,
views, boolean-mask ("compressed") arrays, objects, quantities.

Everything here is a pure data model; the numpy-level operations live in npmodel.py.
"""
import z3

from .sym import (Sc, Unsupported, to_z3, wrap, ite, band, bor, bnot, compare, arith,
                  fresh_name, is_sym)


# ---------------------------------------------------------------------------
# heap cells
# ---------------------------------------------------------------------------

def memo_fn(fn):
    """Memoise an element function (arrays are immutable values: cells are replaced on
    write).  Keys are z3 term ids; the terms are kept alive by the cache entry."""
    if getattr(fn, '_memo', False):
        return fn
    cache = {}

    def g(idx):
        try:
            key = tuple(i.t.get_id() if isinstance(i, Sc) else i for i in idx)
        except Exception:
            return fn(idx)
        hit = cache.get(key)
        if hit is not None:
            return hit[1]
        v = fn(idx)
        if len(cache) < 5000:
            cache[key] = (idx, v)
        return v
    g._memo = True
    return g


class ArrCell(object):
    __slots__ = ('shape', 'fn', 'kind')

    def __init__(self, shape, fn, kind='real'):
        self.shape = tuple(shape)
        self.fn = memo_fn(fn)   # tuple of index scalars -> element scalar
        self.kind = kind        # 'real' | 'int' | 'bool' | 'str' | 'obj'


class ObjCell(object):
    __slots__ = ('cls', 'attrs')

    def __init__(self, cls, attrs=None):
        self.cls = cls          # qualified class name, e.g. 'sedfitter.fit_info.FitInfo'
        self.attrs = dict(attrs or {})


class ListCell(object):
    __slots__ = ('items',)

    def __init__(self, items):
        self.items = list(items)


class DictCell(object):
    __slots__ = ('items',)

    def __init__(self, items=None):
        self.items = dict(items or {})


# ---------------------------------------------------------------------------
# references (immutable values that can be stored anywhere)
# ---------------------------------------------------------------------------

class View(object):
    """Maps an index tuple of the view to an index tuple of the base array,
    and back (for write-through)."""
    __slots__ = ('shape', 'to_base', 'from_base')

    def __init__(self, shape, to_base, from_base):
        self.shape = tuple(shape)
        self.to_base = to_base        # view idx tuple -> base idx tuple
        self.from_base = from_base    # base idx tuple -> (membership cond, view idx tuple)


class ArrRef(object):
    __slots__ = ('addr', 'view')

    def __init__(self, addr, view=None):
        self.addr = addr
        self.view = view

    def __repr__(self):
        return "ArrRef(%s%s)" % (self.addr, ',view' if self.view else '')


class ObjRef(object):
    __slots__ = ('addr',)

    def __init__(self, addr):
        self.addr = addr

    def __repr__(self):
        return "ObjRef(%s)" % self.addr


class ListRef(object):
    __slots__ = ('addr',)

    def __init__(self, addr):
        self.addr = addr


class DictRef(object):
    __slots__ = ('addr',)

    def __init__(self, addr):
        self.addr = addr


class PureArr(object):
    """An immutable array value (result of an expression that nobody can alias yet).
    It is boxed into the heap when it is bound to a name/attribute or mutated."""
    __slots__ = ('shape', 'fn', 'kind')

    def __init__(self, shape, fn, kind='real'):
        self.shape = tuple(shape)
        self.fn = memo_fn(fn)
        self.kind = kind


class Masked(object):
    """x[mask] for a boolean mask over the first `mrank` axes of x, kept in the
    *uncompressed* index space (numpy contract N-MASK: selection preserves order
    and row-wise operations commute with it).  Only meaningful where mask holds."""
    __slots__ = ('shape', 'fn', 'kind', 'mrank', 'mask', 'mkey')

    def __init__(self, shape, fn, kind, mrank, mask, mkey):
        self.shape = tuple(shape)   # full (uncompressed) shape
        self.fn = memo_fn(fn)
        self.kind = kind
        self.mrank = mrank
        self.mask = mask            # idx[:mrank] -> bool scalar
        self.mkey = mkey            # canonical string identifying the mask


class Unit(object):
    """A physical unit: scale to SI as a z3 Real term or exact python number, and
    integer dimension exponents."""
    __slots__ = ('name', 'scale', 'dims')

    def __init__(self, name, scale, dims):
        self.name = name
        self.scale = scale
        self.dims = dict((k, v) for k, v in dims.items() if v != 0)

    def __repr__(self):
        return "Unit(%s)" % self.name

    def same_dims(self, other):
        return self.dims == other.dims

    def __eq__(self, other):
        return isinstance(other, Unit) and self.name == other.name

    def __hash__(self):
        return hash(self.name)


class Quantity(object):
    """value (scalar | array value) with a unit."""
    __slots__ = ('value', 'unit')

    def __init__(self, value, unit):
        self.value = value
        self.unit = unit

    def __repr__(self):
        return "Quantity(%r, %s)" % (self.value, self.unit.name)


class Opaque(object):
    """A value the executor does not interpret (strings built by formatting, file
    handles, tables...).  `tag` identifies it for equality of provenance."""
    __slots__ = ('tag', 'info')

    def __init__(self, tag, info=None):
        self.tag = tag
        self.info = info

    def __repr__(self):
        return "Opaque(%s)" % self.tag


class Abstract(object):
    """An object the executor keeps abstract (an element of a list built by a comprehension over a
    symbolic range, or an attribute path of one).  Everything done to it is recorded as an event:
    ('set', obj, attr, value), ('store', obj, attr, key, value), ('mcall', obj, method, args, kw).
    `key` identifies it: (list id, index term) for elements, (owner, attribute name) for paths."""
    __slots__ = ('tag', 'key')

    def __init__(self, tag, key):
        self.tag = tag
        self.key = key

    def __repr__(self):
        return "Abstract(%s,%r)" % (self.tag, self.key)


def is_array(v):
    return isinstance(v, (ArrRef, PureArr, Masked))


# ---------------------------------------------------------------------------
# input arrays as uninterpreted functions
# ---------------------------------------------------------------------------

_SORTS = {'real': z3.RealSort, 'int': z3.IntSort, 'nat': z3.IntSort, 'bool': z3.BoolSort}


def uf_array(name, shape, kind='real', fresh=False):
    """An array whose elements are applications of an uninterpreted function."""
    nm = fresh_name(name) if fresh else name
    rank = len(shape)
    if rank == 0:
        c = z3.Const(nm, _SORTS[kind]())
        return PureArr((), lambda idx: Sc(c), kind)
    f = z3.Function(nm, *([z3.IntSort()] * rank + [_SORTS[kind]()]))

    def fn(idx):
        return Sc(f(*[to_z3(i, 'int') for i in idx]))
    return PureArr(shape, fn, kind)


def dim_term(d):
    return to_z3(d, 'int')
