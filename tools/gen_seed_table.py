#!/usr/bin/env python3
"""Regenerates the tables of DESIGN.md section 10 from seeded/RESULTS.txt, seeded/*/meta.json and benign/RESULTS.txt
(between the markers <!-- SEEDS-BEGIN --> ... <!-- SEEDS-END -->)."""
import json, os, re, sys
here = os.path.dirname(os.path.dirname(os.path.abspath(__file__)))
rows, e1, e2 = [], 0, 0
for line in open(os.path.join(here, 'seeded', 'RESULTS.txt')):
    m = re.match(r'(C\d\d_\d) rc=(\d) violations=(\d+) undecided=(\d+) ::\s*(.*)', line.strip())
    if not m:
        continue
    sid, rc, nv, und, rest = m.groups()
    try:
        summ = json.load(open(os.path.join(here, 'seeded', sid, 'meta.json'))).get('summary', '')
    except Exception:
        summ = ''
    summ = re.split(r'(?<=[a-z\)])\. ', summ.replace('\n', ' ').replace('|', '/'))[0][:190]
    who = re.search(r'\b(E1|E2):([^:]+):', rest)
    first = '%s `%s`' % (who.group(1), who.group(2).strip()) if who else ('exit %s' % rc)
    if who and who.group(1) == 'E1':
        e1 += 1
    elif who:
        e2 += 1
    rows.append('| %s | %s | %s |' % (sid, summ, first if rc == '1' else '**not reported** (exit %s)' % rc))
ben = [l.strip() for l in open(os.path.join(here, 'benign', 'RESULTS.txt')) if l.startswith('B')]
clean = sum(1 for l in ben if 'rc=0 violations=0 undecided=0' in l)
alarms = [l for l in ben if 'rc=0 violations=0' not in l]
text = ['<!-- SEEDS-BEGIN -->',
        '%d seeded changes, %d reported (exit 1 with a VIOLATION line); first line from E1 for %d, from E2 for %d (`seeded/RESULTS.txt`, produced by `tools/run_seeds_par.sh`).' % (len(rows), sum('not reported' not in r for r in rows), e1, e2),
        '', '| seed | change (first sentence of the author\'s summary) | first reported by |', '|---|---|---|'] + rows + ['',
        '%d behaviour-preserving refactors (`benign/`, `benign/RESULTS.txt`, produced by `tools/run_benign_par.sh`): %d raise an alarm; %d leave every obligation discharged; %d make one sidecar contract "out of date" (an UNDECIDED line, exit 0).' % (len(ben), len(alarms), clean, len(ben) - clean - len(alarms)),
        '<!-- SEEDS-END -->']
p = os.path.join(here, 'DESIGN.md')
s = open(p).read()
if '<!-- SEEDS-BEGIN -->' in s:
    s = re.sub(r'<!-- SEEDS-BEGIN -->.*<!-- SEEDS-END -->', lambda m_: '\n'.join(text), s, flags=re.S)
    open(p, 'w').write(s)
    print('updated: %d seeds, %d benign' % (len(rows), len(ben)))
else:
    print('\n'.join(text))
