"""Loads the *real* repository source on every run (nothing is cached or copied).

The extraction drops exactly (counted per function in the evidence): docstrings,
`from __future__` imports, print(...) statements, log.info/debug/warning(...),
ProgressBar (identity on iterables, .update() a no-op), timer.Timer calls.
"""
import ast
import os
import warnings


class ModuleInfo(object):
    def __init__(self, name, path, tree, source):
        self.name = name
        self.path = path
        self.tree = tree
        self.source = source
        self.functions = {}     # name -> FunctionDef
        self.classes = {}       # name -> ClassInfo
        self.imports = {}       # local name -> ('module', dotted) | ('attr', dotted module, attr)
        self.constants = {}     # name -> ast expression node


class ClassInfo(object):
    def __init__(self, qualname, node, module):
        self.qualname = qualname
        self.node = node
        self.module = module
        self.methods = {}       # name -> FunctionDef
        self.getters = {}       # property name -> FunctionDef
        self.setters = {}       # property name -> FunctionDef
        self.classmethods = set()
        self.staticmethods = set()
        self.bases = []         # base class expressions (ast)
        self.class_attrs = {}   # name -> ast expr


class Repo(object):
    def __init__(self, root, package='sedfitter'):
        self.root = root
        self.package = package
        self.modules = {}
        self._load()

    def _load(self):
        base = os.path.join(self.root, self.package)
        for dirpath, dirnames, filenames in os.walk(base):
            dirnames[:] = [d for d in dirnames if d not in ('tests', '__pycache__')]
            for fn in sorted(filenames):
                if not fn.endswith('.py'):
                    continue
                path = os.path.join(dirpath, fn)
                rel = os.path.relpath(path, self.root)[:-3].replace(os.sep, '.')
                if rel.endswith('.__init__'):
                    rel = rel[:-len('.__init__')]
                    is_pkg = True
                else:
                    is_pkg = False
                with open(path) as f:
                    src = f.read()
                try:
                    with warnings.catch_warnings():
                        warnings.simplefilter('ignore')
                        tree = ast.parse(src, filename=path)
                except SyntaxError:
                    continue
                mi = ModuleInfo(rel, path, tree, src)
                mi.is_pkg = is_pkg
                self._index(mi)
                self.modules[rel] = mi

    def _resolve_relative(self, mi, level, module):
        parts = mi.name.split('.')
        if not mi.is_pkg:
            parts = parts[:-1]
        if level > 1:
            parts = parts[:-(level - 1)]
        if module:
            parts = parts + module.split('.')
        return '.'.join(parts)

    def _index(self, mi):
        for node in mi.tree.body:
            self._index_stmt(mi, node)

    def _index_stmt(self, mi, node):
        if isinstance(node, ast.Import):
            for a in node.names:
                local = a.asname or a.name.split('.')[0]
                mi.imports[local] = ('module', a.name if a.asname else a.name.split('.')[0])
        elif isinstance(node, ast.ImportFrom):
            if node.module == '__future__':
                return
            modname = self._resolve_relative(mi, node.level, node.module) if node.level else node.module
            for a in node.names:
                if a.name == '*':
                    mi.__dict__.setdefault('star_imports', []).append(modname)
                    continue
                mi.imports[a.asname or a.name] = ('attr', modname, a.name)
        elif isinstance(node, ast.FunctionDef):
            mi.functions[node.name] = node
        elif isinstance(node, ast.ClassDef):
            ci = ClassInfo(mi.name + '.' + node.name, node, mi)
            ci.bases = node.bases
            for b in node.body:
                if isinstance(b, ast.FunctionDef):
                    decs = [self._dec_name(d) for d in b.decorator_list]
                    if 'property' in decs:
                        ci.getters[b.name] = b
                    elif any(d.endswith('.setter') for d in decs):
                        ci.setters[b.name] = b
                    else:
                        ci.methods[b.name] = b
                        if 'classmethod' in decs:
                            ci.classmethods.add(b.name)
                        if 'staticmethod' in decs:
                            ci.staticmethods.add(b.name)
                elif isinstance(b, ast.Assign) and len(b.targets) == 1 and isinstance(b.targets[0], ast.Name):
                    ci.class_attrs[b.targets[0].id] = b.value
            mi.classes[node.name] = ci
        elif isinstance(node, ast.Assign) and len(node.targets) == 1 and isinstance(node.targets[0], ast.Name):
            mi.constants[node.targets[0].id] = node.value
        elif isinstance(node, ast.Try):
            for b in node.body:
                self._index_stmt(mi, b)

    @staticmethod
    def _dec_name(d):
        if isinstance(d, ast.Name):
            return d.id
        if isinstance(d, ast.Attribute):
            return (d.value.id if isinstance(d.value, ast.Name) else '?') + '.' + d.attr
        return '?'

    # --- lookups
    def find_class(self, qualname):
        mod, _, cls = qualname.rpartition('.')
        mi = self.modules.get(mod)
        if mi and cls in mi.classes:
            return mi.classes[cls]
        return None

    def find_function(self, qualname):
        """qualname: module.func  or module.Class.method"""
        mod, _, name = qualname.rpartition('.')
        mi = self.modules.get(mod)
        if mi and name in mi.functions:
            return mi, None, mi.functions[name]
        mod2, _, cls = mod.rpartition('.')
        mi = self.modules.get(mod2)
        if mi and cls in mi.classes:
            ci = mi.classes[cls]
            for table in (ci.methods, ci.getters):
                if name in table:
                    return mi, ci, table[name]
            if name.endswith('.setter') and name[:-7] in ci.setters:
                return mi, ci, ci.setters[name[:-7]]
        return None

    def mro(self, ci):
        """Linearised list of repo classes (single inheritance in this code base)."""
        out = [ci]
        cur = ci
        while True:
            nxt = None
            for b in cur.bases:
                if isinstance(b, ast.Name):
                    tgt = self.resolve_name(cur.module, b.id)
                    if tgt and tgt[0] == 'class':
                        nxt = tgt[1]
                        break
            if nxt is None:
                break
            out.append(nxt)
            cur = nxt
        return out

    def resolve_name(self, mi, name):
        """Resolve a module-level name to ('function', qualname) | ('class', ClassInfo) |
        ('module', dotted) | ('const', ast expr, module) | ('extern', dotted module, attr) | None"""
        if name in mi.functions:
            return ('function', mi.name + '.' + name)
        if name in mi.classes:
            return ('class', mi.classes[name])
        if name in mi.constants:
            return ('const', mi.constants[name], mi)
        imp = mi.imports.get(name)
        if imp is None:
            for modname in getattr(mi, 'star_imports', []):
                tmi = self.modules.get(modname)
                if tmi is not None and tmi is not mi:
                    r = self.resolve_name(tmi, name)
                    if r is not None:
                        return r
            return None
        if imp[0] == 'module':
            return ('module', imp[1])
        _, modname, attr = imp
        # from .pkg import sub  (sub is a module)
        if (modname + '.' + attr) in self.modules:
            return ('module', modname + '.' + attr)
        tmi = self.modules.get(modname)
        if tmi is not None:
            r = self.resolve_name(tmi, attr)
            if r is not None:
                return r
            return None
        return ('extern', modname, attr)
