"""Loop rules.

IndependentIterations (trusted rule T-LOOP, side conditions are obligations): a
`for k in <index set>` loop whose body writes only cell/row `k` of arrays (along one
axis) and whose local temporaries are assigned before use equals the parallel
update.  The body is executed once for a symbolic k on all its paths; the writes
of each path are merged with the path condition.

InvariantLoop: classic Hoare rule with a user-supplied invariant (sidecar contract).
"""
import ast

import z3

from . import npmodel as npm
from .sym import (Sc, Unsupported, to_z3, wrap, ite, band, bor, bnot, compare, arith, implies,
                  fresh_int, fresh_real, fresh_bool, Forall, flatten, subst_formula)
from .values import ArrRef, ArrCell, PureArr, Masked, Quantity, is_array, ObjRef, ListRef


def subst_scalar(v, k, t):
    """Replace z3 constant k by term t in scalar v."""
    if isinstance(v, Sc):
        from .sym import deep_substitute
        return wrap(deep_substitute(v.t, k, to_z3(t, 'int')))
    return v


class IndependentIterations(object):
    def run(self, interp, node, it, st, fr, ordinal):
        from .interp import SymRange, EnumerateVal
        from .extmodels import WhereIdx
        k = fresh_int('it')
        ks = Sc(k)
        # iteration set:  member(kk) for an index term kk, and the value bound to the target
        if isinstance(it, SymRange):
            if it.step != 1:
                raise Unsupported("independent-iterations rule on a strided range")
            lo, hi = it.start, it.stop
            member = lambda kk: band(compare('<=', lo, kk), compare('<', kk, hi))
            target_val = ks
        elif isinstance(it, WhereIdx):
            mshape, mfn, _ = npm.info(st, it.mask)
            n = mshape[0]
            member = lambda kk: band(band(compare('<=', 0, kk), compare('<', kk, n)), mfn((kk,)))
            target_val = ks
        elif isinstance(it, EnumerateVal) and is_array(it.inner):
            shape, fn, _ = npm.info(st, it.inner)
            n = shape[0]
            member = lambda kk: band(compare('<=', 0, kk), compare('<', kk, n))
            target_val = lambda s_: (arith('+', ks, it.start), npm.getitem(s_, it.inner, ks))
        elif is_array(it) and not isinstance(it, Masked):
            shape, fn, _ = npm.info(st, it)
            n = shape[0]
            member = lambda kk: band(compare('<=', 0, kk), compare('<', kk, n))
            target_val = lambda s_: npm.getitem(s_, it, ks)
        else:
            raise Unsupported("loop %d of %s over %r needs a loop contract" % (ordinal, fr.qualname, it))

        # syntactic side condition: no loop-carried scalar dependence
        assigned = _assigned_names(node.body) | _target_names(node.target)
        live_in = _read_before_write(node.body, set(_target_names(node.target)))
        carried = (assigned & live_in)
        if carried:
            raise Unsupported("loop %d of %s carries %s between iterations: needs an invariant" % (ordinal, fr.qualname, sorted(carried)))

        for b in node.body:
            _check_cross_iteration_reads(b, fr, ordinal)
        pre_heap = dict(st.heap)
        body_st = st.fork()
        body_st.assume_pc(member(ks))
        if callable(target_val):
            target_val = target_val(body_st)       # element access under the membership condition
        interp.assign(node.target, body_st.box(target_val), body_st, fr)
        outs = interp.exec_block(node.body, body_st, fr)
        results = []
        for s in outs:
            if s.status == 'continue':
                s.status = 'run'
            if s.status in ('return', 'break'):
                raise Unsupported("early exit from loop %d of %s under the independent-iterations rule" % (ordinal, fr.qualname))
            if s.status == 'raise':
                # a raising iteration: the whole loop raises on that path condition
                results.append(s)
                continue
            results.append(s)
        raising = [s for s in results if s.status == 'raise']
        normal = [s for s in results if s.status == 'run']
        final_states = []
        for s in raising:
            final_states.append(s)       # pc already contains member(k) and the path
        if not normal:
            return final_states
        # merge array writes of the normal paths
        npc = len(st.pc)
        changed = set()
        for s in normal:
            for addr, cell in s.heap.items():
                if addr in pre_heap and pre_heap[addr] is not cell and isinstance(cell, ArrCell):
                    changed.add(addr)
        st_after = st          # continue in the original state
        # hypotheses added inside the body (callee posts...) are kept, generalised over k
        for s in normal:
            extra = s.hyps[len(st.hyps):]
            local_pc = s.pc[npc:]
            for h in extra:
                guard = True
                for c in local_pc:
                    guard = band(guard, c)
                st_after.hyps.append(Forall([None], (lambda h, guard: lambda kk: subst_formula(_impl(guard, h), k, kk))(h, guard), name='loop-body-fact'))
        for addr in sorted(changed):
            old = pre_heap[addr]
            rank = len(old.shape)
            paths = []
            for s in normal:
                cell = s.heap[addr]
                if cell is old:
                    continue
                cond = True
                for c in s.pc[npc:]:
                    cond = band(cond, c)
                paths.append((cond, cell.fn))
            # find the axis written: probe with symbolic index; require that the new value
            # differs from old only where some index component equals k
            probe = tuple(Sc(z3.Int('P!%d_%d' % (addr, a))) for a in range(rank))
            axis = None
            for a in range(rank):
                ok = True
                for cond, fn in paths:
                    v_new, v_old = fn(probe), old.fn(probe)
                    diff = bnot(_eq(v_new, v_old))
                    goal = implies(band(cond, diff), compare('==', probe[a], ks))
                    if not _quick_valid(goal, st.pc + [member(ks)]):
                        ok = False
                        break
                if ok:
                    axis = a
                    break
            if axis is None:
                raise Unsupported("loop %d of %s: writes to an array are not confined to the iteration's own index" % (ordinal, fr.qualname))
            # reads of the written array at other indices are not checked syntactically;
            # the obligation below states the frame condition for the solver.
            st.oblige('%s/loop%d.frame(writes only own index)' % (fr.qualname.split('.')[-1], ordinal), True, kind='loop')

            def new_fn(idx, paths=paths, old=old, axis=axis):
                kk = idx[axis]
                r = old.fn(idx)
                for cond, fn in reversed(paths):
                    c2 = subst_scalar(band(cond, member(ks)), k, kk)
                    v = subst_scalar(fn(idx), k, kk)
                    r = ite(c2, v, r)
                return r
            st_after.heap[addr] = ArrCell(old.shape, new_fn, old.kind)
        # new allocations inside the body are dropped (locals)
        final_states.append(st_after)
        return final_states


def _impl(guard, h):
    """guard => h  for a formula h that may be a Forall."""
    if isinstance(h, Forall):
        body = h.body
        return Forall(h.ranges, lambda *a: _impl(guard, body(*a)), h.name)
    if isinstance(h, (list, tuple)):
        return [_impl(guard, x) for x in h]
    return implies(guard, h)


def _check_cross_iteration_reads(node, fr, ordinal):
    """Syntactic side condition of the rule: an array that is subscript-assigned in
    the body is only read through the same subscript expressions."""
    stores = {}
    for n in ast.walk(node):
        if isinstance(n, (ast.Assign, ast.AugAssign)):
            tgts = n.targets if isinstance(n, ast.Assign) else [n.target]
            for t in tgts:
                base, keys = t, []
                while isinstance(base, ast.Subscript):
                    keys.append(ast.dump(base.slice))
                    base = base.value
                if keys:
                    stores.setdefault(ast.dump(base), set()).update(keys)
    for n in ast.walk(node):
        if isinstance(n, ast.Subscript) and isinstance(n.ctx, ast.Load):
            b = ast.dump(n.value)
            if b in stores and ast.dump(n.slice) not in stores[b]:
                raise Unsupported("loop %d of %s reads an array it writes at another index: needs an invariant" % (ordinal, fr.qualname))


def _eq(a, b):
    if not isinstance(a, Sc) and not isinstance(b, Sc):
        return a == b
    return compare('==', a, b)


def _quick_valid(goal, hyps):
    if goal is True:
        return True
    if goal is False:
        return False
    s = z3.Solver()
    s.set('timeout', 5000)
    for h in hyps:
        if isinstance(h, (bool,)):
            if not h:
                return True
            continue
        if isinstance(h, Sc):
            s.add(h.t)
    s.add(z3.Not(to_z3(goal, 'bool')))
    return s.check() == z3.unsat


def _target_names(t):
    if isinstance(t, ast.Name):
        return {t.id}
    if isinstance(t, (ast.Tuple, ast.List)):
        r = set()
        for e in t.elts:
            r |= _target_names(e)
        return r
    return set()


def _assigned_names(stmts):
    r = set()
    for s in stmts:
        for n in ast.walk(s):
            if isinstance(n, ast.Assign):
                for t in n.targets:
                    r |= _target_names(t)
            elif isinstance(n, ast.AugAssign):
                r |= _target_names(n.target)
            elif isinstance(n, ast.For):
                r |= _target_names(n.target)
    return r


def _read_before_write(stmts, defined):
    """Names possibly read before being assigned in a straight-line/if body (conservative)."""
    defined = set(defined)
    reads = set()

    def expr_reads(e):
        bound = set()
        for n in ast.walk(e):
            if isinstance(n, ast.comprehension):
                bound |= _target_names(n.target)        # names bound by a comprehension are local to it
        return {n.id for n in ast.walk(e) if isinstance(n, ast.Name) and isinstance(n.ctx, ast.Load)} - bound

    def walk(block, defined):
        for s in block:
            if isinstance(s, ast.Assign):
                reads.update(expr_reads(s.value) - defined)
                for t in s.targets:
                    if isinstance(t, ast.Name):
                        defined.add(t.id)
                    else:
                        reads.update(expr_reads(t) - defined)
                        if isinstance(t, (ast.Tuple, ast.List)):
                            defined.update(_target_names(t))
            elif isinstance(s, ast.AugAssign):
                reads.update(expr_reads(s.value) - defined)
                reads.update(_target_names(s.target) - defined)
            elif isinstance(s, ast.If):
                reads.update(expr_reads(s.test) - defined)
                d1, d2 = set(defined), set(defined)
                walk(s.body, d1)
                walk(s.orelse, d2)
                defined.clear()
                defined.update(d1 & d2)
            elif isinstance(s, ast.For):
                reads.update(expr_reads(s.iter) - defined)
                d1 = set(defined) | _target_names(s.target)
                walk(s.body, d1)
            elif isinstance(s, ast.Try):
                before = set(defined)
                d_body = set(defined)
                walk(s.body, d_body)
                walk(s.orelse, d_body)
                outs_ = [d_body]
                for h in s.handlers:
                    d_h = set(before)
                    if h.name:
                        d_h.add(h.name)
                    walk(h.body, d_h)
                    last = h.body[-1] if h.body else None
                    if not isinstance(last, (ast.Break, ast.Continue, ast.Return, ast.Raise)):
                        outs_.append(d_h)          # the handler falls through
                common = set.intersection(*outs_)
                walk(s.finalbody, common)
                defined.clear()
                defined.update(common)
            elif isinstance(s, (ast.Break, ast.Continue, ast.Pass)):
                pass
            elif isinstance(s, (ast.Expr, ast.Return, ast.Raise, ast.Assert)):
                for e in ast.iter_child_nodes(s):
                    if isinstance(e, ast.expr):
                        reads.update(expr_reads(e) - defined)
            else:
                for e in ast.walk(s):
                    if isinstance(e, ast.Name) and isinstance(e.ctx, ast.Load) and e.id not in defined:
                        reads.add(e.id)
    walk(stmts, defined)
    return reads


class InvariantLoop(object):
    """Hoare rule for `while`/`for` with an invariant supplied by the sidecar contract.

    spec callbacks (all receive a ContractCtx `c` bound to the relevant state):
      init(c)            -> optional: set up ghost variables before the loop
      invariant(c)       -> dict name -> formula
      modifies           -> list of local names havoced at the loop head
      havoc(c)           -> assigns fresh values to the modified names / ghost state
      variant            -> unused (termination is not verified)
    """

    def __init__(self, name, invariant, havoc, init=None, step=None):
        self.name = name
        self.invariant = invariant
        self.havoc = havoc
        self.init = init
        self.step = step

    def run(self, interp, node, it, st, fr, ordinal):
        from .contractlib import Ctx
        from .interp import SymRange
        short = fr.qualname.split('.')[-1]
        c = Ctx(interp, st, fr)
        if self.init:
            self.init(c)
        # 1. invariant holds on entry
        for nm, f in self.invariant(c).items():
            st.oblige('%s/loop%d.inv.%s.init' % (short, ordinal, nm), f, kind='loop')
        # 2. arbitrary iteration
        head = st.fork()
        hc = Ctx(interp, head, fr)
        self.havoc(hc)
        head.assume(list(self.invariant(hc).values()))
        exit_state = head.fork()
        if isinstance(node, ast.While):
            cond = interp.truth(interp.eval(node.test, head, fr), head)
            body_st = head
            if cond is not True:
                body_st.assume_pc(cond)
            if cond is True:
                exit_state = None
            else:
                exit_state.assume_pc(bnot(cond))
        else:
            if not isinstance(it, SymRange):
                raise Unsupported("invariant loop over %r" % (it,))
            # loop variable value for this iteration is provided by havoc through c.loopvar
            lv = hc.get('__loopvar__')
            body_st = head
            body_st.assume_pc(band(compare('<=', it.start, lv), compare('<', lv, it.stop)))
            if it.step != 1:
                q = fresh_int('q')
                body_st.assume_pc(band(compare('>=', Sc(q), 0), compare('==', lv, arith('+', it.start, arith('*', Sc(q), it.step)))))
            interp.assign(node.target, lv, body_st, fr)
            ec = Ctx(interp, exit_state, fr)
            # at exit the "next index" has passed the end
            exit_state.assume_pc(compare('>=', ec.get('__loopvar__'), it.stop))
        outs = interp.exec_block(node.body, body_st, fr)
        finals = []
        for s in outs:
            if s.status in ('run', 'continue'):
                s.status = 'run'
                sc = Ctx(interp, s, fr)
                if self.step:
                    self.step(sc)
                for nm, f in self.invariant(sc).items():
                    s.oblige('%s/loop%d.inv.%s.preserved' % (short, ordinal, nm), f, kind='loop')
                # this path ends here (it is subsumed by the arbitrary iteration)
            elif s.status == 'break':
                s.status = 'run'
                finals.append(s)
            else:
                finals.append(s)     # return / raise leave the loop
        if exit_state is not None:
            finals.append(exit_state)
        return finals


def _same_env_value(a, b):
    if a is b:
        return True
    if isinstance(a, Sc) and isinstance(b, Sc):
        return a.t.eq(b.t)
    if isinstance(a, (int, float, str, bool, type(None))) and isinstance(b, (int, float, str, bool, type(None))):
        return a == b
    if isinstance(a, (ArrRef, ObjRef, ListRef)) and type(a) is type(b):
        return a.addr == b.addr and getattr(a, 'view', None) is getattr(b, 'view', None)
    if isinstance(a, Quantity) and isinstance(b, Quantity):
        return _same_env_value(a.value, b.value) and a.unit is b.unit
    return False


class EventLoop(object):
    """Rule for loops whose iterations are *uniform*: each iteration starts from an arbitrary
    value of the declared loop-carried state (havoc + assumed invariant), handles one fresh item,
    and its only lasting effects are recorded events (frames dumped, objects yielded, calls of
    contracted functions) plus the declared loop-carried state.  The body is executed once,
    symbolically, on all its paths; `check(c, paths)` turns the per-path event lists into
    obligations ("exactly one write, of this very object, iff ...").  That the per-iteration facts
    compose sequentially in iteration order is the meta-argument T-LOOP-EVENT (trusted rule)."""

    def __init__(self, name, check, havoc=None, invariant=None, item=None, after=None, peel=False):
        self.name = name
        self.check = check
        self.havoc = havoc
        self.invariant = invariant
        self.item = item
        self.after = after
        self.peel = peel        # additionally execute the FIRST iteration from the actual entry state

    def _run_check(self, c, paths, fr, ordinal):
        """The per-iteration obligations of the sidecar contract.  If the contract can no longer make sense of the
        loop body (a variable it inspects is gone, an event has another shape) that is "contract out of date":
        undecided, never a crash and never a violation."""
        try:
            return self.check(c, paths) or []
        except Unsupported:
            raise
        except (KeyError, AttributeError, IndexError, TypeError, ValueError) as e:
            import os as _os
            if _os.environ.get('SEDVC_DEBUG'):
                raise
            raise Unsupported("contract set-up out of date: the contract of loop %d of %s cannot interpret the loop body (%s: %s)"
                              % (ordinal, fr.qualname, type(e).__name__, e))

    def _check_carried(self, interp, node, pre, runs, fr, ordinal):
        # (a) local names: assigned in the body and possibly read before being assigned in the next iteration
        targets = _target_names(node.target) if isinstance(node, ast.For) else set()
        assigned = _assigned_names(node.body)
        live_in = _read_before_write(node.body, set(targets))
        havoced_names, havoced_addrs = set(), set()
        for hv_state, outs in runs:
            havoced_names |= set(n for n in hv_state.env if n in pre.env and not _same_env_value(hv_state.env[n], pre.env[n])) | set(n for n in hv_state.env if n not in pre.env)
            havoced_addrs |= set(a for a, cell in hv_state.heap.items() if a in pre.heap and pre.heap[a] is not cell) | set(a for a in hv_state.heap if a not in pre.heap)
        bad = sorted((assigned & live_in) - havoced_names - targets)
        if bad:
            raise Unsupported("loop %d of %s hands %s from one iteration to the next; the loop contract does not describe that state" % (ordinal, fr.qualname, bad))
        # (b) heap cells that existed before the loop and are changed by the body
        for hv_state, outs in runs:
            for s in outs:
                if s.status not in ('run', 'continue'):
                    continue
                for a, cell in s.heap.items():
                    if a in pre.heap and a not in havoced_addrs and hv_state.heap.get(a) is not cell:
                        cls = getattr(cell, 'cls', None)
                        if cls == '<file>':
                            continue
                        raise Unsupported("loop %d of %s changes %s that outlives the iteration; the loop contract does not describe that state"
                                          % (ordinal, fr.qualname, 'an object of class %s' % cls if cls else type(cell).__name__))

    def run(self, interp, node, it, st, fr, ordinal):
        from .contractlib import Ctx
        short = fr.qualname.split('.')[-1]
        pre_events = len(st.events)
        c0 = Ctx(interp, st, fr)
        if self.invariant:
            for nm, f in self.invariant(c0).items():
                st.oblige('%s/loop%d.inv.%s.init' % (short, ordinal, nm), f, kind='loop')
        if self.peel and isinstance(node, ast.For):
            # first iteration, from the real entry state (the havoc below describes the state left by an iteration)
            first = st.fork()
            fc = Ctx(interp, first, fr)
            from .interp import SymRange
            v0 = self.item(fc, it)
            if isinstance(it, SymRange):
                # the first iteration of a range handles its first element
                first.assume_pc(compare('==', v0, it.start))
            interp.assign(node.target, first.box(v0), first, fr)
            first_entry = first.fork()
            paths0 = [(s, s.events[pre_events:], s.status) for s in interp.exec_block(node.body, first, fr)]
            for s, nm, f in self._run_check(Ctx(interp, first_entry, fr), paths0, fr, ordinal):
                s.oblige('%s/loop%d.%s.first' % (short, ordinal, nm), f, kind='loop')
        # the state left by earlier iterations: one or several alternative descriptions ("cases")
        havocs = self.havoc if isinstance(self.havoc, (list, tuple)) else [self.havoc]
        finals = []
        runs = []
        for ci, hv in enumerate(havocs):
            tag = '' if len(havocs) == 1 else '.case%d' % ci
            body_st = st.fork()
            c = Ctx(interp, body_st, fr)
            if hv:
                hv(c)
            if self.invariant:
                body_st.assume(list(self.invariant(c).values()))
            havoced = body_st.fork()            # after havoc, before the item is bound
            after_st = body_st.fork()           # the state when the loop is over (loop-carried state arbitrary within the invariant)
            if isinstance(node, ast.For):
                item = self.item(c, it)
                interp.assign(node.target, body_st.box(item), body_st, fr)
            else:
                cond = interp.truth(interp.eval(node.test, body_st, fr), body_st)
                if cond is not True:
                    body_st.assume_pc(cond)
                    after_st.assume_pc(bnot(cond))
            entry = body_st.fork()
            outs = interp.exec_block(node.body, body_st, fr)
            paths = [(s, s.events[pre_events:], s.status) for s in outs]
            runs.append((havoced, outs))
            obs = self._run_check(Ctx(interp, entry, fr), paths, fr, ordinal)
            for s, nm, f in obs:
                s.oblige('%s/loop%d.%s%s' % (short, ordinal, nm, tag), f, kind='loop')
            for s, ev, status in paths:
                if status in ('run', 'continue'):
                    if self.invariant:
                        sc = Ctx(interp, s, fr)
                        for nm, f in self.invariant(sc).items():
                            s.oblige('%s/loop%d.inv.%s.preserved%s' % (short, ordinal, nm, tag), f, kind='loop')
                    continue                    # subsumed by the arbitrary iteration
                if status == 'break':
                    s.status = 'run'
                    s.events = s.events[:pre_events] + [('loop', ordinal, 'exit-by-break')]
                    finals.append(s)
                else:
                    finals.append(s)            # return / raise leave the function
            if isinstance(node, ast.For) or not (isinstance(node.test, ast.Constant) and node.test.value is True):
                after_st.events = after_st.events[:pre_events] + [('loop', ordinal, 'exhausted')]
                if self.after:
                    self.after(Ctx(interp, after_st, fr))
                finals.append(after_st)
        # side condition of the rule: every piece of state an iteration hands to the next one must have been made
        # arbitrary by `havoc` in some case (or be a file, whose changes are the recorded events); otherwise the
        # "arbitrary iteration" would silently start from the loop's INITIAL state
        self._check_carried(interp, node, st, runs, fr, ordinal)
        return finals
