"""Assumed contracts for sedfitter/utils/validator.py (A-TYPE): for well-typed inputs (the
right physical type, rank and shape -- which is what every contract's `setup` constructs)
the validators return their argument unchanged.  Their raising paths (wrong type/unit/shape)
are exercised by the repository's own unit tests and are outside the properties."""
from sedvc.contractlib import Contract, contract

V = 'sedfitter.utils.validator.'


@contract
class ValidateArray(Contract):
    name = V + 'validate_array'
    trusted = 'assumed (A-TYPE)'

    def result(self, c, a):
        v = a.value
        from sedvc.values import ListRef
        if isinstance(v, ListRef):
            from sedvc import npmodel as npm
            return npm.from_list(c.st, c.st.heap[v.addr].items)
        if isinstance(v, (list, tuple)):
            from sedvc import npmodel as npm
            return npm.from_list(c.st, list(v))
        return v


@contract
class ValidateScalar(Contract):
    name = V + 'validate_scalar'
    trusted = 'assumed (A-TYPE)'

    def result(self, c, a):
        return a.value


@contract
class ValidatePhysicalType(Contract):
    name = V + 'validate_physical_type'
    trusted = 'assumed (A-TYPE)'

    def result(self, c, a):
        return None
