"""Bounded (E2) checks of C06 (broadband convolution = binned integral) on the real
Filter.rebin / integrate_subset / convolve_model_dir."""
import itertools
import math
import os

import numpy as np
from astropy import units as u

from . import pkg
from .core import Recorder, close, jsonable, unjson_floats


def pl_integral(x, y, a, b):
    """Exact integral over [a,b] (a<=b) of the piecewise-linear function through (x,y), x ascending."""
    if b <= a:
        return 0.
    tot = 0.
    for k in range(len(x) - 1):
        l, r = max(x[k], a), min(x[k + 1], b)
        if r <= l:
            continue
        def f(v):
            return y[k] + (v - x[k]) * (y[k + 1] - y[k]) / (x[k + 1] - x[k])
        tot += 0.5 * (r - l) * (f(l) + f(r))
    return tot


def expected_bins(fnu, resp, snu):
    """R_i of the statement: integral of the PL response over the bin of SED frequency i
    (midpoint edges, first/last bins end at the first/last SED frequency), restricted to
    the overlap with the filter range."""
    fx, fy = np.asarray(fnu, float), np.asarray(resp, float)
    if fx[0] > fx[-1]:
        fx, fy = fx[::-1], fy[::-1]
    s = np.asarray(snu, float)
    n = len(s)
    out = np.zeros(n)
    for i in range(n):
        e1 = s[0] if i == 0 else 0.5 * (s[i - 1] + s[i])
        e2 = s[-1] if i == n - 1 else 0.5 * (s[i] + s[i + 1])
        lo, hi = min(e1, e2), max(e1, e2)
        lo, hi = max(lo, fx[0]), min(hi, fx[-1])
        out[i] = pl_integral(fx, fy, lo, hi)
    return out


def make_filter(fnu, resp, name='f', unit='Hz'):
    from sedfitter.filter import Filter
    f = Filter()
    f.name = name
    f.central_wavelength = 1. * u.micron
    f.nu = (np.asarray(fnu, float) * u.Hz).to(getattr(u, unit))      # the frequencies may be held in any frequency unit
    f.response = np.asarray(resp, float)
    return f


def c06_one(rec, case):
    c = unjson_floats(case)
    fnu, resp, snu = np.array(c['fnu']), np.array(c['resp']), np.array(c['snu'])
    f = make_filter(fnu, resp, unit=c.get('f_unit', 'Hz'))
    if c.get('normalize'):
        f.normalize()
        norm = abs(pl_integral(*((fnu, resp) if fnu[0] < fnu[-1] else (fnu[::-1], resp[::-1])), min(fnu), max(fnu)))
        resp = resp / norm
        rec.expect(close(f.response, resp, 1e-10, 0), 'normalize', 'normalize() does not divide by |integral of R d nu|', case)
    try:
        b = f.rebin((snu * u.Hz).to(getattr(u, c.get('s_unit', 'Hz'))))
    except Exception as e:
        rec.fail('crash', 'rebin raised %s: %s' % (type(e).__name__, e), case)
        return False
    exp = expected_bins(fnu, resp, snu)
    scale = max(1e-300, np.max(np.abs(exp)))
    ok = rec.expect(close(b.response, exp, 1e-9, 1e-12 * scale), 'response_i',
                    'rebinned response differs from the exact bin integrals: got %s expected %s' % (jsonable(np.asarray(b.response)[:6]), jsonable(exp[:6])), case)
    lo, hi = max(min(fnu), min(snu)), min(max(fnu), max(snu))
    fx, fy = (fnu, resp) if fnu[0] < fnu[-1] else (fnu[::-1], resp[::-1])
    tot = pl_integral(fx, fy, lo, hi)
    ok &= rec.expect(abs(np.sum(b.response) - tot) <= 1e-9 * max(abs(tot), 1e-300) + 1e-12 * scale, 'sum_is_overlap_integral',
                     'sum of R_i = %.12g but the filter integral over the overlap is %.12g' % (np.sum(b.response), tot), case)
    return ok


def run_c06(tier, seed):
    rec = Recorder('C06', 'random filters (2..60 samples, irregular spacing, zero / non-zero edges, either storage order) x random SED grids '
                          '(2..80 frequencies, either order, coarser/finer, partial/full/no overlap, bin edges coinciding with filter end '
                          'points) through the real Filter.rebin/normalize, against an independent exact piecewise-linear integral; plus '
                          'integrate_subset on exhaustive small grids; plus the real convolve_model_dir on small packages (flat spectrum, '
                          'linearity, errors in quadrature, filters read from text files); distinct = (orders, overlap kind, sizes)')
    rng = np.random.default_rng(seed + 6)
    n_cases = 150 if tier == 'quick' else 5000
    for t in range(n_cases):
        nf = int(rng.integers(2, 61 if t % 5 else 6))
        ns = int(rng.integers(2, 81 if t % 5 else 7))
        fnu = np.cumsum(rng.uniform(0.2, 3., nf)) + rng.uniform(0, 5)
        resp = rng.uniform(0., 1., nf)
        if t % 3 == 0 and nf >= 3:
            resp[0] = resp[-1] = 0.
        kind = t % 6
        lo, hi = fnu[0], fnu[-1]
        span = hi - lo
        if kind == 0:       # SED covers the filter
            a, b = lo - rng.uniform(0.1, 2) * span, hi + rng.uniform(0.1, 2) * span
        elif kind == 1:     # partial overlap low side
            a, b = lo - span, lo + rng.uniform(0.2, 0.8) * span
        elif kind == 2:     # SED inside the filter
            a, b = lo + 0.2 * span, hi - 0.2 * span
        elif kind == 3:     # partial overlap high side
            a, b = lo + rng.uniform(0.2, 0.8) * span, hi + span
        elif kind == 4:     # SED end points coincide with filter end points
            a, b = lo, hi
        else:               # no overlap
            a, b = hi + span, hi + 2 * span
        snu = np.sort(rng.uniform(a, b, ns))
        snu[0], snu[-1] = a, b
        if kind == 4 and ns >= 4 and nf >= 3:
            # a bin edge exactly on a filter node
            snu[1] = fnu[1] - (snu[2] - fnu[1]) if False else snu[1]
        if len(np.unique(snu)) < ns:
            continue
        fo, so = bool(rng.integers(0, 2)), bool(rng.integers(0, 2))
        if fo:
            fnu, resp = fnu[::-1], resp[::-1]
        if so:
            snu = snu[::-1]
        case = dict(seed=seed, tag='c06', fnu=jsonable(fnu), resp=jsonable(resp), snu=jsonable(snu), normalize=bool(t % 2),
                    f_unit=('kHz' if t % 4 == 3 else 'Hz'), s_unit=('kHz' if t % 7 == 5 else 'Hz'))
        c06_one(rec, case)
        rec.case(key=(fo, so, kind, nf, ns, case['f_unit'], case['s_unit']), nontrivial=kind != 5,
                 sample=dict(filter_descending=fo, sed_descending=so, overlap_kind=kind, n_filter=nf, n_sed=ns) if t < 3 else None)
    _subset_small(rec, seed)
    _through_files(rec, seed, 2 if tier == 'quick' else 12)
    # SED files on alternating wavelength grids (same size, same end points): every model must be convolved
    # with the responses binned to ITS OWN grid
    from . import pipe_props
    for t in range(2 if tier == 'quick' else 10):
        case = dict(seed=seed, tag='c07', pseed=int(rng.integers(1, 10 ** 6)), n_models=5 + t % 4, n_ap=1 + t % 2, n_wav=14 + 3 * t, wav_desc=bool(t % 2), f_desc=bool(t % 2),
                    nf=5, n_filters=2, memmap=False, two_calls=False, fit=False, sorted_names_reversed=False, mixed_grids=True, postprocess_between=False)
        try:
            pipe_props.c07_one(rec, case)
        except Exception as e:
            rec.fail('mixed_grids_crash', 'raised %s: %s' % (type(e).__name__, e), case)
        rec.case(key=('mixed-grids', t), nontrivial=True)
    return rec, REPLAY


def c06_subset(rec, case):
    from sedfitter.utils.integrate import integrate_subset
    c = unjson_floats(case)
    x, y = np.array(c['x'], float), np.array(c['y'], float)
    a, b = c['a'], c['b']
    try:
        got = integrate_subset(x.copy(), y.copy(), a, b)
    except Exception as e:
        rec.fail('crash', 'integrate_subset raised %s: %s' % (type(e).__name__, e), case)
        return False
    xs, ys = (x, y) if x[0] < x[-1] else (x[::-1], y[::-1])
    exp = pl_integral(xs, ys, min(a, b), max(a, b))
    return rec.expect(abs(got - exp) <= 1e-12 * (1 + abs(exp)), 'integrate_subset',
                      'integrate_subset(%s,%s,%g,%g) = %.12g, exact integral %.12g' % (x.tolist(), y.tolist(), a, b, got, exp), case)


def _subset_small(rec, seed):
    """integrate_subset: every pair of limits on nodes / midpoints of grids with 2..5 nodes, both orders."""
    for n in range(2, 6):
        x = np.array([0., 1., 2.5, 3., 5.][:n])
        y = np.array([1., 3., 0., 2., 4.][:n])
        pts = sorted(set(list(x) + [0.5 * (x[i] + x[i + 1]) for i in range(n - 1)]))
        for desc in (False, True):
            xx, yy = (x[::-1], y[::-1]) if desc else (x, y)
            for a, b in itertools.product(pts, repeat=2):
                case = dict(seed=seed, tag='c06-subset', x=jsonable(xx), y=jsonable(yy), a=float(a), b=float(b))
                c06_subset(rec, case)
                rec.case(key=('subset', n, desc, a, b), nontrivial=a != b)


def c06_files(rec, case):
    """Flat spectrum -> c, linearity, errors in quadrature, through the real convolve_model_dir with a filter read from a text file."""
    from sedfitter.filter import Filter
    from sedfitter.convolve import convolve_model_dir
    from sedfitter.convolved_fluxes import ConvolvedFluxes
    from astropy import log
    log.setLevel('ERROR')
    c = unjson_floats(case)
    rng = np.random.default_rng(c['pseed'])
    n_wav = c['n_wav']
    wav = np.logspace(-1, 2, n_wav) * (1 + 0.02 * rng.uniform(-1, 1, n_wav))
    wav = np.sort(wav)[::-1] if c['wav_desc'] else np.sort(wav)
    cst = 3.5
    base = 10. ** rng.uniform(-1, 1, (1, 1, n_wav))
    flux = np.concatenate([np.full((1, 1, n_wav), cst), base, 2. * base + 3. * cst], axis=0)
    err = np.concatenate([np.full((1, 1, n_wav), 0.5), 0.1 * base, 0.2 * base], axis=0)
    spec = pkg.Spec(['flat', 'a', 'lin'], wav, None, flux, err, par_order=[2, 0, 1])
    # filter inside the SED range, written to a two-column text file (wavelength, response)
    fw = np.sort(rng.uniform(2., 20., c['n_f']))
    if c['fw_desc']:
        fw = fw[::-1]
    fr = rng.uniform(0.1, 1., c['n_f'])
    ok = True
    with pkg.scratch() as d:
        (pkg.write_v1 if c['version'] == 1 else pkg.write_v2)(d, spec)
        fn = os.path.join(d, 'F1.txt')
        with open(fn, 'w') as fh:
            fh.write('# wav = 7.0\n')
            for a, b in zip(fw, fr):
                fh.write('%.10e %.10e\n' % (a, b))
        f = Filter.read(fn)
        f.normalize()
        with pkg.quiet():
            convolve_model_dir(d, [f], memmap=False)
        cf = ConvolvedFluxes.read(os.path.join(d, 'convolved', 'F1.fits'))
        names = [str(x).strip() for x in cf.model_names]
        val = dict((nm, float(cf.flux[i, 0].to(u.mJy).value)) for i, nm in enumerate(names))
        er = dict((nm, float(cf.error[i, 0].to(u.mJy).value)) for i, nm in enumerate(names))
        ok &= rec.expect(abs(val['flat'] - cst) <= 1e-5 * cst, 'flat_spectrum', 'a normalised filter inside the SED range returns %.8g for the flat spectrum F_nu=%g' % (val['flat'], cst), case)
        ok &= rec.expect(abs(val['lin'] - (2 * val['a'] + 3 * cst)) <= 1e-5 * abs(val['lin']), 'linear_in_sed', 'convolution is not linear in the SED', case)
        # errors in quadrature with the same R_i
        nu = (wav * u.micron).to(u.Hz, equivalencies=u.spectral()).value
        order = np.argsort(nu)
        fnu = (fw * u.micron).to(u.Hz, equivalencies=u.spectral()).value
        fx, fy = (fnu, fr) if fnu[0] < fnu[-1] else (fnu[::-1], fr[::-1])
        R = expected_bins(fx, fy / abs(pl_integral(fx, fy, fx[0], fx[-1])), nu[order])
        e_exp = math.sqrt(np.sum((err[1, 0][order] * R) ** 2))
        ok &= rec.expect(abs(er['a'] - e_exp) <= 1e-5 * e_exp, 'error_quadrature', 'flux errors do not combine in quadrature with the R_i (got %.8g expected %.8g)' % (er['a'], e_exp), case)
        f_exp = np.sum(flux[1, 0][order] * R)
        ok &= rec.expect(abs(val['a'] - f_exp) <= 1e-5 * abs(f_exp), 'flux_is_sum_F_R', 'convolved flux %.8g != sum F_nu R_i = %.8g' % (val['a'], f_exp), case)
    return ok


def _through_files(rec, seed, count):
    rng = np.random.default_rng(seed + 66)
    for t in range(count):
        case = dict(seed=seed, tag='c06-files', pseed=int(rng.integers(1, 10 ** 6)), n_wav=int(rng.integers(20, 60)), n_f=int(rng.integers(2, 12)),
                    wav_desc=bool(t % 2), fw_desc=bool((t // 2) % 2), version=1 + (t % 2))
        try:
            c06_files(rec, case)
        except Exception as e:
            rec.fail('files_crash', 'convolve_model_dir path raised %s: %s' % (type(e).__name__, e), case)
        rec.case(key=('files', t), nontrivial=True)


def _c07(rec, case):
    from . import pipe_props
    return pipe_props.c07_one(rec, case)


REPLAY = {'c06': c06_one, 'c06-subset': c06_subset, 'c06-files': c06_files, 'c07': _c07}
