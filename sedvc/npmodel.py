"""numpy semantics over functional arrays (assumption A-NP: indexing, broadcasting
and view rules as documented by numpy for ranks <= 3; N-MASK for boolean masks)."""
import z3

from . import sym
from .sym import (Sc, Unsupported, to_z3, wrap, ite, band, bor, bnot, compare, arith, implies,
                  fresh_int, fresh_real, fresh_bool, fresh_name, Forall, make_sum, smin, smax)
from .values import (ArrCell, ArrRef, PureArr, Masked, View, Quantity, Unit, ObjRef, ListRef,
                     Opaque, is_array, uf_array)


class Raised(Exception):
    """A Python exception raised by the code under analysis."""

    def __init__(self, exc, msg=None):
        Exception.__init__(self, exc)
        self.exc = exc
        self.msg = msg


# ---------------------------------------------------------------------------
# basic access
# ---------------------------------------------------------------------------

def info(st, v):
    """(shape, fn, kind) snapshot of an (unmasked) array value."""
    if isinstance(v, PureArr):
        return v.shape, v.fn, v.kind
    if isinstance(v, ArrRef):
        c = st.heap[v.addr]
        if v.view is None:
            return c.shape, c.fn, c.kind
        f, tb = c.fn, v.view.to_base
        return v.view.shape, (lambda idx: f(tb(idx))), c.kind
    if isinstance(v, Masked):
        raise Unsupported("boolean-mask selection used where a plain array is needed")
    raise Unsupported("not an array: %r" % (v,))


def shape_of(st, v):
    if isinstance(v, Quantity):
        return shape_of(st, v.value)
    if isinstance(v, Masked):
        raise Unsupported("shape of a boolean-mask selection")
    if is_array(v):
        return info(st, v)[0]
    return ()


def same_dim(st, a, b):
    """Decide whether two dimension terms are equal; differing symbolic terms are
    assumed equal only after recording a safe.shape obligation."""
    if isinstance(a, int) and isinstance(b, int):
        return a == b
    za, zb = to_z3(a, 'int'), to_z3(b, 'int')
    if za.eq(zb):
        return True
    if z3.is_true(z3.simplify(za == zb)):
        return True
    st.oblige('safe.shape', wrap(za == zb), kind='safe')
    return True


def broadcast_shapes(st, shapes):
    rank = max(len(s) for s in shapes)
    out = []
    for ax in range(rank):
        dim = 1
        for s in shapes:
            k = ax - (rank - len(s))
            if k < 0:
                continue
            d = s[k]
            if isinstance(d, int) and d == 1:
                continue
            if isinstance(dim, int) and dim == 1:
                dim = d
            else:
                if not same_dim(st, dim, d):
                    raise Raised('ValueError', 'operands could not be broadcast together')
        out.append(dim)
    return tuple(out)


def _bfn(shape, fn, out_rank):
    """Lift fn of an array with `shape` to index tuples of rank out_rank (numpy
    right-aligned broadcasting)."""
    off = out_rank - len(shape)
    ones = [isinstance(d, int) and d == 1 for d in shape]
    if off == 0 and not any(ones):
        return fn

    def g(idx):
        sub = idx[off:]
        return fn(tuple(0 if ones[k] else sub[k] for k in range(len(shape))))
    return g


def elementwise(st, f, *args, **kw):
    """Apply scalar function f element-wise with broadcasting.  Handles Quantity-free
    scalars, arrays and same-mask Masked operands."""
    kind = kw.get('kind', 'real')
    if not any(is_array(a) for a in args):
        return f(*args)
    masked = [a for a in args if isinstance(a, Masked)]
    if masked:
        m0 = masked[0]
        for m in masked[1:]:
            if m.mkey != m0.mkey or m.mrank != m0.mrank:
                raise Unsupported("operands selected with different boolean masks")
        shapes, fns = [], []
        for a in args:
            if isinstance(a, Masked):
                shapes.append(a.shape)
                fns.append(a.fn)
            elif is_array(a):
                s, fn, _ = info(st, a)
                # the compressed axis of the other operand must broadcast
                if len(s) > len(m0.shape) - m0.mrank + 1:
                    raise Unsupported("array combined with mask selection has too many dims")
                if len(s) == len(m0.shape) - m0.mrank + 1:
                    if not (isinstance(s[0], int) and s[0] == 1):
                        raise Unsupported("array combined with mask selection along the compressed axis")
                    s = (1,) * m0.mrank + tuple(s[1:])
                    fn0 = fn
                    mr = m0.mrank
                    fn = (lambda fn0, mr: lambda idx: fn0((0,) + tuple(idx[mr:])))(fn0, mr)
                shapes.append(s)
                fns.append(fn)
            else:
                shapes.append(())
                fns.append((lambda a: lambda idx: a)(a))
        shape = broadcast_shapes(st, shapes)
        rank = len(shape)
        bf = [_bfn(s, fn, rank) for s, fn in zip(shapes, fns)]
        return Masked(shape, lambda idx: f(*[g(idx) for g in bf]), kind, m0.mrank, m0.mask, m0.mkey)
    shapes, fns = [], []
    for a in args:
        if is_array(a):
            s, fn, _ = info(st, a)
            shapes.append(s)
            fns.append(fn)
        else:
            shapes.append(())
            fns.append((lambda a: lambda idx: a)(a))
    shape = broadcast_shapes(st, shapes)
    rank = len(shape)
    bf = [_bfn(s, fn, rank) for s, fn in zip(shapes, fns)]
    return PureArr(shape, lambda idx: f(*[g(idx) for g in bf]), kind)


# ---------------------------------------------------------------------------
# indexing
# ---------------------------------------------------------------------------

def _known_nonneg(st, i):
    """syntactic check: some conjunct of the path condition is `0 <= i` (or `lo <= i` with a literal lo >= 0)"""
    t = i.t

    def conj(f):
        if z3.is_and(f):
            for ch in f.children():
                for x in conj(ch):
                    yield x
        else:
            yield f
    for c in st.pc:
        if not isinstance(c, Sc):
            continue
        for f in conj(c.t):
            if z3.is_le(f) and f.arg(1).eq(t) and z3.is_int_value(f.arg(0)) and f.arg(0).as_long() >= 0:
                return True
            if z3.is_ge(f) and f.arg(0).eq(t) and z3.is_int_value(f.arg(1)) and f.arg(1).as_long() >= 0:
                return True
    return False


def norm_index(st, i, n, check=True):
    """Python index normalisation (negative wraps once) + bounds obligation."""
    if isinstance(i, int):
        if i < 0:
            i2 = arith('+', n, i)
        else:
            i2 = i
        if isinstance(i2, int) and isinstance(n, int):
            if not (0 <= i2 < n):
                raise Raised('IndexError', 'index out of bounds')
            return i2
        if check:
            st.oblige('safe.index', band(compare('<=', 0, i2), compare('<', i2, n)), kind='safe')
        return i2
    if isinstance(i, Sc):
        if not i.is_int:
            raise Unsupported("non-integer index")
        if _known_nonneg(st, i):
            # the path condition already says 0 <= i (a loop index): no wrap-around, keep the index term as it is
            if check:
                st.oblige('safe.index', compare('<', i, n), kind='safe')
            return i
        i2 = ite(i < 0, i + n, i)
        if check:
            st.oblige('safe.index', band(compare('<=', 0, i2), compare('<', i2, n)), kind='safe')
        return i2
    raise Unsupported("index %r" % (i,))


def _clamp(x, lo, hi):
    return smin(smax(x, lo), hi)


def slice_params(s, n):
    """(start, length, step) of python slice s over a dimension of length n."""
    start, stop, step = s.start, s.stop, s.step
    if step is None:
        step = 1
    if not isinstance(step, int) or step == 0:
        raise Unsupported("symbolic slice step")

    def nrm(v):
        if isinstance(v, int):
            return arith('+', n, v) if v < 0 else v
        return ite(v < 0, v + n, v)
    if start is None and stop is None and step in (1, -1):
        # the whole axis: its length is the dimension itself (a shape is never negative)
        return (0, n, 1) if step == 1 else (arith('-', n, 1), n, -1)
    if step > 0:
        lo = 0 if start is None else _clamp(nrm(start), 0, n)
        hi = n if stop is None else _clamp(nrm(stop), 0, n)
        span = arith('-', hi, lo)
        if step == 1:
            length = smax(span, 0)
        else:
            length = smax(arith('//', arith('+', span, step - 1), step), 0)
        return lo, length, step
    else:
        if step != -1:
            raise Unsupported("negative slice step other than -1")
        s0 = arith('-', n, 1) if start is None else _clamp(nrm(start), -1, arith('-', n, 1))
        e0 = -1 if stop is None else _clamp(nrm(stop), -1, arith('-', n, 1))
        length = smax(arith('-', s0, e0), 0)
        return s0, length, -1


def _expand_key(key, rank):
    if not isinstance(key, tuple):
        key = (key,)
    n_real = sum(1 for k in key if k is not None and k is not Ellipsis)
    out = []
    seen = False
    for k in key:
        if k is Ellipsis:
            if seen:
                raise Raised('IndexError', 'two ellipses')
            seen = True
            out.extend([slice(None)] * (rank - n_real))
        else:
            out.append(k)
    n_real2 = sum(1 for k in out if k is not None)
    if n_real2 > rank:
        raise Raised('IndexError', 'too many indices for array')
    out.extend([slice(None)] * (rank - n_real2))
    return out


def _is_slice(k):
    return isinstance(k, slice)


def _is_full(k):
    return isinstance(k, slice) and k.start is None and k.stop is None and k.step is None


def _arr_kind(st, k):
    if isinstance(k, Masked):
        raise Unsupported("mask selection used as an index")
    kd = info(st, k)[2]
    return 'int' if kd == 'nat' else kd


def getitem(st, a, key):
    if isinstance(a, Quantity):
        return Quantity(getitem(st, a.value, key), a.unit)
    if isinstance(a, Masked):
        return _getitem_masked(st, a, key)
    shape, fn, kind = info(st, a)
    rank = len(shape)
    keys = _expand_key(key, rank)
    arr_keys = [k for k in keys if is_array(k)]
    if arr_keys:
        kinds = [_arr_kind(st, k) for k in arr_keys]
        if all(kd == 'bool' for kd in kinds):
            return _getitem_mask(st, a, shape, fn, kind, keys)
        if any(kd == 'bool' for kd in kinds):
            raise Unsupported("mixed boolean/integer advanced indexing")
        return _getitem_fancy(st, shape, fn, kind, keys)
    # basic indexing -> view (of the base array if there is one)
    vshape, to_sub, from_sub = _basic_view(st, shape, keys)
    if not vshape and not any(k is None for k in keys) and all(not _is_slice(k) for k in keys):
        return fn(to_sub(()))
    if isinstance(a, ArrRef):
        if a.view is None:
            return ArrRef(a.addr, View(vshape, to_sub, from_sub))
        otb, ofb = a.view.to_base, a.view.from_base

        def from_base(b):
            c1, vi = ofb(b)
            c2, wi = from_sub(vi)
            return band(c1, c2), wi
        return ArrRef(a.addr, View(vshape, lambda idx: otb(to_sub(idx)), from_base))
    return PureArr(vshape, lambda idx: fn(to_sub(idx)), kind)


def _basic_view(st, shape, keys):
    """keys: list of int/Sc | slice triple | None.  Returns (view shape, to_sub, from_sub)."""
    plan = []       # per base axis: ('fix', i) | ('slice', lo, step, viewaxis)
    vshape = []
    ax = 0
    for k in keys:
        if k is None:
            vshape.append(1)
            continue
        n = shape[ax]
        if _is_slice(k):
            lo, length, step = slice_params(k, n)
            plan.append(('slice', lo, step, len(vshape), length))
            vshape.append(length)
        else:
            plan.append(('fix', norm_index(st, k, n)))
        ax += 1

    def to_sub(idx):
        out = []
        for p in plan:
            if p[0] == 'fix':
                out.append(p[1])
            else:
                _, lo, step, vax, _len = p
                k = idx[vax]
                if step == 1:
                    out.append(arith('+', lo, k))
                elif step == -1:
                    out.append(arith('-', lo, k))
                else:
                    out.append(arith('+', lo, arith('*', step, k)))
        return tuple(out)

    nview = len(vshape)

    def from_sub(b):
        cond = True
        vidx = [0] * nview
        for p, bi in zip(plan, b):
            if p[0] == 'fix':
                cond = band(cond, compare('==', bi, p[1]))
            else:
                _, lo, step, vax, length = p
                if step == 1:
                    k = arith('-', bi, lo)
                elif step == -1:
                    k = arith('-', lo, bi)
                else:
                    d = arith('-', bi, lo)
                    cond = band(cond, compare('==', arith('%', d, step), 0))
                    k = arith('//', d, step)
                cond = band(cond, band(compare('<=', 0, k), compare('<', k, length)))
                vidx[vax] = k
        return cond, tuple(vidx)
    return tuple(vshape), to_sub, from_sub


def _mask_key(st, m):
    shape, mfn, _ = info(st, m)
    probe = tuple(z3.Int('M!%d' % i) for i in range(len(shape)))
    t = mfn(tuple(Sc(p) for p in probe))
    return shape, mfn, (to_z3(t, 'bool').sexpr() if not isinstance(t, bool) else str(t))


def _getitem_mask(st, a, shape, fn, kind, keys):
    if not is_array(keys[0]):
        raise Unsupported("boolean mask on a non-leading axis in an expression")
    if not all(_is_full(k) for k in keys[1:] if not is_array(k)) or sum(1 for k in keys if is_array(k)) != 1:
        raise Unsupported("boolean mask combined with other indices")
    mshape, mfn, mkey = _mask_key(st, keys[0])
    mrank = len(mshape)
    for d1, d2 in zip(mshape, shape[:mrank]):
        same_dim(st, d1, d2)
    return Masked(shape, fn, kind, mrank, lambda idx: mfn(tuple(idx)), mkey)


def _getitem_masked(st, a, key):
    if not isinstance(key, tuple):
        key = (key,)
    if not _is_full(key[0]):
        raise Unsupported("indexing the compressed axis of a mask selection")
    rest = list(key[1:])
    tail_shape = a.shape[a.mrank:]
    keys = _expand_key(tuple(rest), len(tail_shape)) if rest else [slice(None)] * len(tail_shape)
    if any(is_array(k) for k in keys):
        raise Unsupported("advanced indexing of a mask selection")
    vshape, to_sub, _ = _basic_view(st, tail_shape, keys)
    mr, f = a.mrank, a.fn
    return Masked(a.shape[:mr] + vshape, lambda idx: f(tuple(idx[:mr]) + to_sub(tuple(idx[mr:]))), a.kind, mr, a.mask, a.mkey)


def _getitem_fancy(st, shape, fn, kind, keys):
    apos = [i for i, k in enumerate(keys) if is_array(k)]
    if len(apos) == 1 and apos[0] > 0 and all(_is_full(k) for i, k in enumerate(keys) if i != apos[0]):
        # a single index array on a later axis replaces that axis in place
        p = apos[0]
        ishape, ifn, ikind = info(st, keys[p])
        r = len(ishape)
        dim = shape[p]

        def g1(idx):
            j = ifn(tuple(idx[p:p + r]))
            if ikind != 'nat':
                j = norm_index(st, j, dim, check=False)
            return fn(tuple(idx[:p]) + (j,) + tuple(idx[p + r:]))
        return PureArr(tuple(shape[:p]) + tuple(ishape) + tuple(shape[p + 1:]), g1, kind)
    n_adv = 0
    for k in keys:
        if is_array(k) or not _is_slice(k):
            n_adv += 1
        else:
            break
    if not all(_is_full(k) for k in keys[n_adv:]):
        raise Unsupported("advanced indexing followed by partial slices")
    adv = keys[:n_adv]
    ishapes, ifns, nats = [], [], []
    for ax, k in enumerate(adv):
        if is_array(k):
            s, f, kd = info(st, k)
            ishapes.append(s)
            ifns.append(f)
            nats.append(kd == 'nat')
        elif k is None:
            raise Unsupported("newaxis in advanced indexing")
        else:
            ishapes.append(())
            ifns.append((lambda k: lambda idx: k)(k))
            nats.append(False)
    ishape = broadcast_shapes(st, ishapes)
    r = len(ishape)
    bf = [_bfn(s, f, r) for s, f in zip(ishapes, ifns)]
    dims = shape[:n_adv]

    def g(idx):
        head = tuple(b(tuple(idx[:r])) if nats[i] else norm_index(st, b(tuple(idx[:r])), dims[i], check=False) for i, b in enumerate(bf))
        return fn(head + tuple(idx[r:]))
    return PureArr(tuple(ishape) + tuple(shape[n_adv:]), g, kind)


def setitem(st, target, key, value):
    """target[key] = value  (write-through for views)."""
    if isinstance(target, Quantity):
        if isinstance(value, Quantity):
            value = quantity_to(st, value, target.unit).value
        else:
            raise Raised('TypeError', 'cannot assign a bare number into a Quantity')
        return setitem(st, target.value, key, value)
    if isinstance(value, Quantity):
        raise Unsupported("assigning a Quantity into a plain array")
    if not isinstance(target, ArrRef):
        raise Unsupported("item assignment to %r" % (target,))
    cell = st.heap[target.addr]
    if target.view is None:
        tshape = cell.shape
        to_base = lambda idx: idx
        from_base = lambda b: (True, b)
    else:
        tshape, to_base, from_base = target.view.shape, target.view.to_base, target.view.from_base
    rank = len(tshape)
    keys = _expand_key(key, rank)
    arr_keys = [k for k in keys if is_array(k)]
    old = cell.fn
    if arr_keys:
        if len(arr_keys) != 1 or _arr_kind(st, arr_keys[0]) != 'bool':
            raise Unsupported("assignment through integer-array index")
        pos = [i for i, k in enumerate(keys) if is_array(k)][0]
        if any(k is None for k in keys) or not all(_is_full(k) for i, k in enumerate(keys) if i != pos):
            raise Unsupported("boolean mask assignment combined with partial indices")
        mshape, mfn, mkey = _mask_key(st, arr_keys[0])
        mrank = len(mshape)
        for d1, d2 in zip(mshape, tshape[pos:pos + mrank]):
            same_dim(st, d1, d2)
        if isinstance(value, Masked):
            if pos != 0 or value.mkey != mkey or value.mrank != mrank:
                raise Unsupported("mask assignment from a selection with a different mask")
            vfn = _bfn(value.shape, value.fn, rank) if len(value.shape) == rank else None
            if vfn is None:
                raise Unsupported("mask assignment rank mismatch")
        elif is_array(value):
            vs, vf, _ = info(st, value)
            # allowed only if it broadcasts over the non-masked trailing axes
            if len(vs) > rank - mrank - pos:
                raise Unsupported("mask assignment from a plain array along the compressed axis")
            vfn = _bfn(vs, vf, rank)
        else:
            vfn = (lambda v: lambda idx: v)(value)

        def new(b, old=old, vfn=vfn):
            cond, vi = from_base(b)
            m = mfn(tuple(vi[pos:pos + mrank]))
            return ite(band(cond, m), vfn(vi), old(b))
        st.heap[target.addr] = ArrCell(cell.shape, new, cell.kind)
        return
    # basic-index assignment
    if isinstance(value, Masked):
        raise Unsupported("assigning a mask selection through a basic index")
    vshape, to_sub, from_sub = _basic_view(st, tshape, keys)
    if is_array(value):
        vs, vf, _ = info(st, value)
        vr = len(vshape)
        if len(vs) > vr:
            # numpy allows leading 1s; keep it simple
            raise Raised('ValueError', 'could not broadcast input array')
        for ax in range(len(vs)):
            d = vs[ax]
            if not (isinstance(d, int) and d == 1):
                same_dim(st, d, vshape[vr - len(vs) + ax])
        vfn = _bfn(vs, vf, vr)
    else:
        vfn = (lambda v: lambda idx: v)(value)

    def new(b, old=old, vfn=vfn):
        c1, vi = from_base(b)
        c2, wi = from_sub(vi)
        return ite(band(c1, c2), vfn(wi), old(b))
    st.heap[target.addr] = ArrCell(cell.shape, new, cell.kind)


# ---------------------------------------------------------------------------
# reductions
# ---------------------------------------------------------------------------

def reduce_sum(st, a, axis=None, opaque=False):
    if isinstance(a, Quantity):
        return Quantity(reduce_sum(st, a.value, axis, opaque), a.unit)
    if isinstance(a, Masked):
        if axis is None or a.mrank != 1:
            raise Unsupported("full reduction of a mask selection")
        shape, fn = a.shape, a.fn
        ax = axis if axis >= 0 else len(shape) + axis
        if ax < a.mrank:
            raise Unsupported("reduction along the compressed axis")
        r = _sum_axis(shape, fn, ax, opaque)
        return Masked(r.shape, r.fn, r.kind, a.mrank, a.mask, a.mkey)
    if not is_array(a):
        return a
    shape, fn, kind = info(st, a)
    if axis is None:
        # a dimension that the path condition fixes to a small constant (e.g. "if n_ap == 1:") is that constant
        shape = tuple(_implied_const(st, d) for d in shape)
        cur = PureArr(shape, fn, kind)
        while len(cur.shape) > 0:
            cur = _sum_axis(cur.shape, cur.fn, len(cur.shape) - 1, opaque)
        return cur.fn(())
    if isinstance(axis, Sc):
        raise Unsupported("symbolic axis")
    ax = axis if axis >= 0 else len(shape) + axis
    r = _sum_axis(shape, fn, ax, opaque)
    if not r.shape:
        return r.fn(())
    return r


def _implied_const(st, d):
    """d, or the small integer the path condition forces d to be (syntactic: a conjunct `d == c` / `c == d`)."""
    if not isinstance(d, Sc):
        return d

    def conj(f):
        if z3.is_and(f):
            for ch in f.children():
                for x in conj(ch):
                    yield x
        else:
            yield f
    for c in st.pc:
        if not isinstance(c, Sc):
            continue
        for f in conj(c.t):
            if z3.is_eq(f):
                l, r = f.arg(0), f.arg(1)
                if l.eq(d.t) and z3.is_int_value(r) and 0 <= r.as_long() <= 8:
                    return r.as_long()
                if r.eq(d.t) and z3.is_int_value(l) and 0 <= l.as_long() <= 8:
                    return l.as_long()
    return d


def _sum_axis(shape, fn, ax, opaque=False):
    n = shape[ax]
    oshape = tuple(shape[:ax]) + tuple(shape[ax + 1:])
    cache = {}

    def g(idx):
        ck = tuple(repr(i) for i in idx)
        if ck in cache:
            return cache[ck]
        if isinstance(n, int) and n <= 8:
            tot = 0
            for k in range(n):
                v = fn(tuple(idx[:ax]) + (k,) + tuple(idx[ax:]))
                if isinstance(v, (bool,)) or (isinstance(v, Sc) and v.is_bool):
                    v = ite(v, 1, 0)
                tot = arith('+', tot, v)
            cache[ck] = tot
            return tot
        j = fresh_int('j')
        body = fn(tuple(idx[:ax]) + (Sc(j),) + tuple(idx[ax:]))
        if isinstance(body, bool):
            body = 1 if body else 0
        if not isinstance(body, Sc):
            r = arith('*', n, body)
        else:
            r = wrap(make_sum(to_z3(n, 'int'), j, body.t, opaque=opaque))
        cache[ck] = r
        return r
    return PureArr(oshape, g, 'real')


def reduce_any(st, a):
    """np.any over all elements: a fresh Boolean constrained by Skolem/Forall axioms."""
    if not is_array(a):
        return a
    shape, fn, _ = info(st, a)
    if all(isinstance(d, int) for d in shape):
        import itertools
        r = False
        for idx in itertools.product(*[range(d) for d in shape]):
            r = bor(r, fn(idx))
        return r
    if len(shape) == 1:
        j = fresh_int('j')
        body = fn((Sc(j),))
        if isinstance(body, bool):
            return band(body, compare('>', shape[0], 0))
        return wrap(sym.EXTREMA.atom(to_z3(shape[0], 'int'), j, to_z3(body, 'bool'), 'any'))
    b = fresh_bool('any')
    ks = [fresh_int('w') for _ in shape]
    inr = True
    for k, d in zip(ks, shape):
        inr = band(inr, band(compare('<=', 0, Sc(k)), compare('<', Sc(k), d)))
    st.assume(implies(Sc(b), band(inr, fn(tuple(Sc(k) for k in ks)))))
    st.assume(Forall(list(shape), lambda *idx: implies(bnot(Sc(b)), bnot(fn(tuple(idx)))), name='not-any'))
    return Sc(b)


def reduce_all(st, a):
    if not is_array(a):
        return a
    neg = elementwise(st, bnot, a, kind='bool')
    return bnot(reduce_any(st, neg))


def reduce_minmax(st, a, which):
    if isinstance(a, Quantity):
        return Quantity(reduce_minmax(st, a.value, which), a.unit)
    if not is_array(a):
        return a
    shape, fn, kind = info(st, a)
    if all(isinstance(d, int) for d in shape):
        import itertools
        r = None
        for idx in itertools.product(*[range(d) for d in shape]):
            v = fn(idx)
            r = v if r is None else (smin(r, v) if which == 'min' else smax(r, v))
        if r is None:
            raise Raised('ValueError', 'zero-size array to reduction operation')
        return r
    if len(shape) == 1:
        # canonical named extremum (same array => same constant); its axioms are added by the solver
        j = fresh_int('j')
        body = fn((Sc(j),))
        if isinstance(body, Sc):
            st.oblige('safe.%s_nonempty' % which, compare('>', shape[0], 0), kind='safe')
            return wrap(sym.EXTREMA.atom(to_z3(shape[0], 'int'), j, body.t, which))
        return body
    m = fresh_real(which) if kind not in ('int', 'nat') else fresh_int(which)
    ks = [fresh_int('w') for _ in shape]
    inr = True
    for k, d in zip(ks, shape):
        inr = band(inr, band(compare('<=', 0, Sc(k)), compare('<', Sc(k), d)))
    st.assume(band(inr, compare('==', Sc(m), fn(tuple(Sc(k) for k in ks)))))
    op = '<=' if which == 'min' else '>='
    st.assume(Forall(list(shape), lambda *idx: compare(op, Sc(m), fn(tuple(idx))), name=which))
    return Sc(m)


# ---------------------------------------------------------------------------
# constructors
# ---------------------------------------------------------------------------

def zeros(shape, value=0.0, kind='real'):
    if not isinstance(shape, tuple):
        shape = (shape,)
    return PureArr(shape, lambda idx: value, kind)


def arange(n):
    return PureArr((n,), lambda idx: idx[0], 'nat')


def from_list(st, items, kind=None):
    items = list(items)
    if items and all(is_array(x) or isinstance(x, (list, tuple)) for x in items):
        raise Unsupported("nested array literal")
    n = len(items)

    def fn(idx):
        i = idx[0]
        if isinstance(i, int):
            return items[i]
        r = items[-1]
        for k in range(n - 2, -1, -1):
            r = ite(compare('==', i, k), items[k], r)
        return r
    if kind is None:
        kind = 'real'
        if items and all(isinstance(x, bool) for x in items):
            kind = 'bool'
        elif items and all(isinstance(x, int) and not isinstance(x, bool) for x in items):
            kind = 'int'
        elif items and all(isinstance(x, str) for x in items):
            kind = 'str'
    return PureArr((n,), fn, kind)


def hstack(st, parts):
    """np.hstack of scalars and 1-d arrays."""
    segs = []
    for p in parts:
        if is_array(p):
            s, fn, _ = info(st, p)
            if len(s) != 1:
                raise Unsupported("hstack of non 1-d arrays")
            segs.append((s[0], fn))
        else:
            segs.append((1, (lambda v: lambda idx: v)(p)))
    total = 0
    offs = []
    for ln, _ in segs:
        offs.append(total)
        total = arith('+', total, ln)

    def fn(idx):
        i = idx[0]
        r = None
        for (ln, f), off in reversed(list(zip(segs, offs))):
            v = f((arith('-', i, off),))
            r = v if r is None else ite(compare('<', i, arith('+', off, ln)), v, r)
        return r
    return PureArr((total,), fn, 'real')


# ---------------------------------------------------------------------------
# quantities (assumption A-UNIT)
# ---------------------------------------------------------------------------

def unit_factor(src, dst):
    """Multiplicative factor converting a value in unit src to unit dst."""
    if not src.same_dims(dst):
        raise Raised('UnitConversionError', '%s -> %s' % (src.name, dst.name))
    if src.name == dst.name:
        return 1
    from .units import _sdiv
    return _sdiv(src.scale, dst.scale)


def scale_value(st, v, f):
    if not isinstance(f, Sc) and f == 1:
        return v
    return elementwise(st, lambda x: arith('*', x, f), v)


def quantity_to(st, q, unit, equivalencies=None):
    if q.unit.same_dims(unit):
        return Quantity(scale_value(st, q.value, unit_factor(q.unit, unit)), unit)
    if equivalencies == 'spectral':
        # lambda = c / nu
        from .units import C_SI
        L, T = {'m': 1}, {'s': -1}
        if q.unit.dims == L and unit.dims == T or q.unit.dims == T and unit.dims == L:
            k = arith('/', arith('/', Sc(C_SI), q.unit.scale), unit.scale)
            return Quantity(elementwise(st, lambda x: arith('/', k, x), q.value), unit)
    if isinstance(equivalencies, tuple) and equivalencies and equivalencies[0] == 'spectral_density':
        # F = nu F_nu  (per-frequency density <-> flux): the frequencies run along the LAST axis
        nu = equivalencies[1]
        FNU, FL = {'kg': 1, 's': -2}, {'kg': 1, 's': -3}
        if isinstance(nu, Quantity) and q.unit.dims == FNU and unit.dims == FL:
            k = arith('/', arith('*', q.unit.scale, nu.unit.scale), unit.scale)
            nshape, nfn, _ = info(st, nu.value)
            shape, fn, kind = info(st, q.value)
            same_dim(st, shape[-1], nshape[0])
            return Quantity(PureArr(shape, lambda idx: arith('*', arith('*', fn(idx), nfn((idx[-1],))), k), 'real'), unit)
    raise Raised('UnitConversionError', '%s -> %s' % (q.unit.name, unit.name))
