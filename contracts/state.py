"""State completeness (C10, C14, C20): what __getstate__ / to_dict hand to pickle is every field of the object,
and __setstate__ / from_dict put every field back.  (That pickle itself preserves a dictionary of arrays, numbers,
strings and quantities is the assumed dependency contract D-PICKLE; natively exercised by the bounded runs.)"""
from sedvc import units
from sedvc.contractlib import Contract, contract
from sedvc.sym import Sc, compare, band, bnot, implies
from sedvc.values import Quantity, Opaque, ObjRef, DictRef
from .source import make_source, SOURCE
from .fit_info import make_fitinfo, FITINFO
from .extinction import make_extinction, CHI_CGS, EXT

U = units.BASE


def _same_value(c0, v0, c1, v1):
    """formula / bool: value v1 (in state c1) is value v0 (in state c0): same object, or equal content and unit"""
    if v0 is v1:
        return True
    if v0 is None or v1 is None:
        return v0 is v1
    if isinstance(v0, Quantity) or isinstance(v1, Quantity):
        if not (isinstance(v0, Quantity) and isinstance(v1, Quantity)):
            return False
        if v0.unit is not v1.unit and not (v0.unit.same_dims(v1.unit) and str(v0.unit.scale) == str(v1.unit.scale)):
            return False
        return _same_value(c0, v0.value, c1, v1.value)
    if isinstance(v0, ObjRef) and isinstance(v1, ObjRef):
        return v0.addr == v1.addr
    if isinstance(v0, (Sc, int)) and isinstance(v1, (Sc, int)):
        return compare('==', v0, v1)
    if isinstance(v0, Opaque) or isinstance(v1, Opaque):
        return v0 is v1
    try:
        A0, A1 = c0.A(v0), c1.A(v1)
    except Exception:
        return False
    if len(A0.shape) != len(A1.shape):
        return False
    return [compare('==', x, y) for x, y in zip(A0.shape, A1.shape)] + [c1.forall(list(A0.shape), lambda *idx: A1[idx] == A0[idx], 'same content')]


def _make(qual, maker, fields, getter, setter, props, invariant=None):
    keys = tuple(fields)

    class Get(Contract):
        __doc__ = "%s.%s(): a dictionary with exactly the keys %s, each holding that field of the object (with its unit); the object is not modified." % (qual.split('.')[-1], getter, ', '.join(keys))
        name = qual + '.' + getter
        properties = props
        variants = ('object',)
        modifies = ()

        def setup(self, c, variant):
            return dict(self=maker(c))

        def ensures(self, c, a, result, old):
            if not isinstance(result, DictRef):
                return {'returns_a_dictionary': False}
            items = c.st.heap[result.addr].items
            out = {'exactly_the_documented_keys': set(items) == set(keys)}
            for k in keys:
                if k in items:
                    out['field(%s)' % k] = _same_value(old, old.attr(a.self, fields[k]), c, items[k])
            return out

    class Set(Contract):
        __doc__ = "%s.%s(state): every field is set from the state dictionary (%s), nothing is left from another object." % (qual.split('.')[-1], setter, ', '.join(keys))
        name = qual + '.' + setter
        properties = props
        variants = ('state',)
        modifies = ('self',)

        def setup(self, c, variant):
            donor = maker(c)
            self.donor = donor
            d = c.dict(dict((k, c.attr(donor, fields[k])) for k in keys))
            if setter == 'from_dict':
                from sedvc.interp import ClassVal
                return dict(cls=ClassVal(c.interp.repo.find_class(qual)), source_dict=d)
            return dict(self=c.obj(qual), d=d)

        def requires(self, c, a):
            # the state is that of a well-formed object of the class
            return {'state_of_a_well_formed_object': invariant(c, self.donor)} if invariant is not None else {}

        def ensures(self, c, a, result, old):
            obj = result if setter == 'from_dict' else a.self
            if not isinstance(obj, ObjRef):
                return {'yields_an_object': False}
            out = {}
            for k in keys:
                has = c.st.has_attr(obj, fields[k])
                out['field(%s)' % k] = _same_value(old, old.attr(self.donor, fields[k]), c, c.attr(obj, fields[k])) if has else False
            return out

    Get.__name__ = qual.split('.')[-1] + getter.strip('_').title()
    Set.__name__ = qual.split('.')[-1] + setter.strip('_').title()
    contract(Get)
    contract(Set)
    return Get, Set


def _source(c):
    return make_source(c, prefix='st_src')


def _fitinfo(c):
    M, N = c.int('M'), c.int('N')
    c.assume([M >= 0, N >= 0])
    return make_fitinfo(c, M, N, prefix='st_fi')


def _extinction(c):
    return make_extinction(c, U['micron'], CHI_CGS, prefix='st_ext')


SRC_FIELDS = dict(name='_name', x='_x', y='_y', valid='_valid', flux='_flux', error='_error')
from .source import well_formed
_make(SOURCE, _source, SRC_FIELDS, '__getstate__', '__setstate__', ('C10', 'C20'), invariant=well_formed)
_make(SOURCE, _source, SRC_FIELDS, 'to_dict', 'from_dict', ('C20',), invariant=well_formed)
_make(FITINFO, _fitinfo, dict(source='source', av='av', sc='sc', chi2='chi2', model_id='model_id', model_name='model_name', model_fluxes='model_fluxes'),
      '__getstate__', '__setstate__', ('C10',))
_make(EXT, _extinction, dict(wav='_wav', chi='_chi'), '__getstate__', '__setstate__', ('C14', 'C10', 'C17'))
