#!/bin/bash
# usage: run_seeds_par.sh [-j N] [seed ids...]
# Like run_seeds.sh, but never touches /repo or the committed evidence: every seeded change is applied to its own
# scratch worktree of /repo (SEDVC_REPO points the check at it), evidence and replays of that run go to a scratch
# directory (VERIF_OUT_DIR), N runs at a time.  One line per seed on stdout, sorted at the end.
cd "$(dirname "$0")/.." || exit 2
V=$(pwd)
J=3
if [ "$1" = "-j" ]; then J=$2; shift; shift; fi
ids="$@"; [ -z "$ids" ] && ids=$(ls seeded | grep -v RESULTS)
ncpu=$(nproc)
export SEDVC_MAX_SOLVERS=$(( (ncpu + J - 1) / J ))
[ "$SEDVC_MAX_SOLVERS" -lt 4 ] && export SEDVC_MAX_SOLVERS=4
one() {
  id=$1; V=$2
  prop=${id%%_*}
  [ -f "$V/seeded/$id/patch.diff" ] || exit 0
  d=$(mktemp -d /var/tmp/seedrun.XXXXXX)
  git -C /repo worktree add -q --detach "$d/repo" HEAD || { echo "$id: cannot make a worktree"; rm -rf "$d"; exit 0; }
  if ! git -C "$d/repo" apply "$V/seeded/$id/patch.diff" 2>/dev/null; then
    echo "$id: patch does not apply"
  else
    out=$(cd "$V" && SEDVC_REPO="$d/repo" VERIF_OUT_DIR="$d/out" ./check "$prop" quick 2>&1); rc=$?
    v=$(echo "$out" | grep -c '^VIOLATION')
    first=$(echo "$out" | grep -A1 '^VIOLATION' | head -2 | tr '\n' ' ' | cut -c1-260)
    und=$(echo "$out" | grep -c '^UNDECIDED')
    echo "$id rc=$rc violations=$v undecided=$und :: $first"
  fi
  git -C /repo worktree remove --force "$d/repo" 2>/dev/null
  rm -rf "$d"
}
export -f one
echo $ids | tr ' ' '\n' | xargs -P "$J" -I{} bash -c 'one {} '"$V" | sort
git -C /repo worktree prune
