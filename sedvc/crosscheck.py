"""CPython cross-check of the symbolic executor (DESIGN.md 6.4).

A proof is only as good as the encoding it was made in.  This module tests the ENCODING, not the repository: for
a contract whose inputs can be built natively (arrays, scalars, quantities, plain objects), it

  1. runs the symbolic executor on the real source with every array length fixed to a small constant, exactly
     like the counterexample concretiser does, and keeps the final state of every path;
  2. for each path asks z3 for inputs that satisfy the contract's preconditions and drive execution down that
     path, pinning as many input numbers as possible to pseudo-random values (seeded) so that different runs and
     different samples use different inputs;
  3. re-evaluates every hypothesis and path condition with REAL mathematics (math.log10 & co. instead of the
     uninterpreted functions; a sample whose path is not the one real mathematics takes is discarded);
  4. evaluates the executor's result term, its exception status and the final value of every argument under those
     inputs, builds the same inputs as real Python objects, calls the real function and compares.

A disagreement means the executor's semantics of some Python / numpy / astropy construct differs from what
CPython does on that input: every proof that went through that construct is then suspect.  It is reported as a
fault of the checker (never as a violation of a property).  Agreement on N samples is a test, not a proof; it is
reported as such in the evidence (`engine_crosscheck`).
"""
import copy
import fractions
import itertools
import random
import time

import z3

from . import sym, solver
from .sym import Sc, Forall, flatten, to_z3
from .concretize import RealMath, GiveUp, describe, replay_native, _size_symbols


def _small_run(name, variant, size, repo_root):
    from . import engine
    from .contractlib import Ctx
    from .state import State
    from .interp import Frame
    sym.reset_globals()
    it = engine.make_interp(repo_root)
    con = it.contracts[name]
    st0 = State()
    st0.obligations = []
    found = it.repo.find_function(name)
    c0 = Ctx(it, st0, Frame(found[0], name, found[1]))
    a0 = con.setup(c0) if variant is None else con.setup(c0, variant)
    sizes = dict((n, size) for n in _size_symbols(st0, a0))
    sym.reset_globals()
    it = engine.make_interp(repo_root)
    it.concrete_ints = sizes
    it.keep_states = True
    con = it.contracts[name]
    obs, info = con.verify(it, variant)
    return con, obs, sizes


def _concrete_range(r):
    if r is None or isinstance(r, str):
        return None
    lo, hi = (0, r) if not isinstance(r, tuple) else r
    out = []
    for b in (lo, hi):
        if isinstance(b, int):
            out.append(b)
        elif isinstance(b, Sc):
            v = z3.simplify(b.t)
            if not z3.is_int_value(v):
                return None
            out.append(v.as_long())
        else:
            return None
    return range(out[0], out[1])


def _expand(f, out, depth=0):
    """ground z3 formulas of a hypothesis; quantifiers over concrete ranges are expanded.  Returns False if some
    quantifier could not be (it is then LEFT OUT: the formulas are weaker, i.e. more inputs / behaviours pass)."""
    ok = True
    for x in flatten(f):
        if x is True:
            continue
        if x is False:
            out.append(z3.BoolVal(False))
            continue
        if isinstance(x, Forall):
            ranges = [_concrete_range(r) for r in x.ranges]
            if any(r is None for r in ranges) or depth > 3:
                ok = False
                continue
            n = 1
            for r in ranges:
                n *= max(len(r), 1)
            if n > 400:
                ok = False
                continue
            for idx in itertools.product(*ranges):
                ok = _expand(x.body(*idx), out, depth + 1) and ok
            continue
        try:
            out.append(to_z3(x, 'bool'))
        except Exception:
            ok = False
    return ok


def _input_terms(formulas, limit=60):
    """real- or int-valued applications of uninterpreted INPUT symbols with numeral arguments (array cells,
    scalars) in the formulas -- the things a sample pins to random values"""
    from .extmodels import INTERP_TABLES
    seen, out = set(), []
    stack = list(formulas)
    while stack:
        t = stack.pop()
        if t.get_id() in seen:
            continue
        seen.add(t.get_id())
        if z3.is_app(t):
            if t.decl().kind() == z3.Z3_OP_UNINTERPRETED and (z3.is_real(t) or z3.is_int(t)):
                name = t.decl().name()
                ch = t.children()
                if name not in ('log10', 'ln', 'pow10', 'sqrt', 'ln10') and name not in INTERP_TABLES \
                        and sym.SUMS.by_const.get(t.get_id()) is None and sym.EXTREMA.by_const.get(t.get_id()) is None \
                        and all(z3.is_int_value(c) for c in ch):
                    out.append(t)
            stack.extend(t.children())
    out.sort(key=lambda t: t.sexpr())
    return out[:limit]


def _cells(st, args, limit=80):
    """z3 terms of the numbers the inputs consist of (array cells at concrete indices, scalars)"""
    from .values import ArrRef, ObjRef, ListRef, DictRef, PureArr, Quantity, is_array
    from . import npmodel as npm
    out, seen = [], set()

    def walk(v, depth=0):
        if depth > 5 or len(out) >= limit:
            return
        if isinstance(v, Sc):
            if z3.is_real(v.t) or z3.is_int(v.t):
                out.append(v.t)
        elif isinstance(v, Quantity):
            walk(v.value, depth)
        elif is_array(v):
            if isinstance(v, ArrRef):
                if v.addr in seen:
                    return
                seen.add(v.addr)
            try:
                shape, fn, kind = npm.info(st, v)
                dims = []
                for d in shape:
                    d = d if isinstance(d, int) else z3.simplify(d.t).as_long()
                    dims.append(range(d))
                for idx in itertools.product(*dims):
                    x = fn(tuple(idx))
                    if isinstance(x, Sc) and kind != 'bool':
                        out.append(x.t)
            except Exception:
                return
        elif isinstance(v, ObjRef):
            if v.addr in seen:
                return
            seen.add(v.addr)
            for k in sorted(st.heap[v.addr].attrs):
                walk(st.heap[v.addr].attrs[k], depth + 1)
        elif isinstance(v, ListRef):
            for x in st.heap[v.addr].items:
                walk(x, depth + 1)
        elif isinstance(v, DictRef):
            for x in st.heap[v.addr].items.values():
                walk(x, depth + 1)
        elif isinstance(v, (tuple, list)):
            for x in v:
                walk(x, depth + 1)
    for k in sorted(args):
        walk(args[k])
    return out[:limit]


def _flat_terms(st, v, out, depth=0):
    """z3 terms of the numbers of a symbolic value, in the order concretize.flat_predicted lists those of its
    description (so that they line up with concretize.flat_numbers of the native value)"""
    from .values import ArrRef, ObjRef, ListRef, DictRef, Quantity, Opaque, Unit, Masked, is_array
    from . import npmodel as npm
    if depth > 6:
        raise GiveUp('value too deep')
    if v is None or isinstance(v, (str, Opaque, Unit)):
        return out
    if isinstance(v, bool):
        out.append(z3.RealVal(1 if v else 0))
    elif isinstance(v, int):
        out.append(z3.RealVal(v))
    elif isinstance(v, (float, fractions.Fraction)):
        out.append(z3.RealVal(str(fractions.Fraction(v))))
    elif isinstance(v, Sc):
        t = v.t
        out.append(z3.If(t, z3.RealVal(1), z3.RealVal(0)) if z3.is_bool(t) else (z3.ToReal(t) if z3.is_int(t) else t))
    elif isinstance(v, Quantity):
        tmp = []
        _flat_terms(st, v.value, tmp, depth + 1)
        sc = v.unit.scale
        sc = sc.t if isinstance(sc, Sc) else z3.RealVal(str(fractions.Fraction(sc)))
        out.extend(t * sc for t in tmp)
    elif isinstance(v, Masked):
        raise GiveUp('mask selection')
    elif is_array(v):
        shape, fn, kind = npm.info(st, v)
        dims = [range(d if isinstance(d, int) else z3.simplify(d.t).as_long()) for d in shape]
        for idx in itertools.product(*dims):
            _flat_terms(st, fn(tuple(idx)), out, depth + 1)
    elif isinstance(v, ObjRef):
        cell = st.heap[v.addr]
        if cell.cls.startswith('<'):
            raise GiveUp('abstract record %s' % cell.cls)
        for k in sorted(cell.attrs):
            _flat_terms(st, cell.attrs[k], out, depth + 1)
    elif isinstance(v, ListRef):
        for x in st.heap[v.addr].items:
            _flat_terms(st, x, out, depth + 1)
    elif isinstance(v, DictRef):
        items = st.heap[v.addr].items
        for k in sorted(items, key=str):
            _flat_terms(st, items[k], out, depth + 1)
    elif isinstance(v, (tuple, list)):
        for x in v:
            _flat_terms(st, x, out, depth + 1)
    else:
        raise GiveUp('cannot list the numbers of %r' % (v,))
    return out


def _truth(rm, h):
    """truth under real mathematics; quantifiers over the reals (axioms of interpolants, which RealMath evaluates
    natively) count as true"""
    if isinstance(h, Forall) and any(_concrete_range(r) is None for r in h.ranges):
        return True
    return rm.truth(h)


def _has_opaque_input(d, depth=0):
    """an input the native side cannot construct (an abstract value standing for a file, a table, ...)"""
    if isinstance(d, dict):
        if 'opaque' in d and d.get('opaque') != 'str':
            return True
        return any(_has_opaque_input(x, depth + 1) for x in d.values())
    if isinstance(d, (list, tuple)):
        return any(_has_opaque_input(x, depth + 1) for x in d)
    return False


def _allowed_by_some_path(by_path, con, base_axioms, pins, native, tol=1e-6):
    """Relational comparison: is the behaviour of the real function (exception class, or the numbers it returned and
    left in its arguments) one the executor ALLOWS for these inputs on some path?  Needed where the executor's
    semantics is a relation, not a function (ties in argsort, results of callees known by contract only).
    -> True / False / None (undecided)"""
    undecided = False
    for p, ob in sorted(by_path.items()):
        fs = ob.final_state
        if fs.status != native['status']:
            continue
        if fs.status == 'raise':
            pe = fs.exc[0] if fs.exc else None
            if not (pe in (None, 'Exception') or pe == native.get('exc')):
                continue
        formulas = list(base_axioms)
        _expand(list(ob.hyps) + list(ob.pc), formulas)
        formulas.extend(pins)
        if fs.status == 'return':
            try:
                terms = _flat_terms(fs, fs.retval, [])
                for k in sorted(con._entry_args):
                    _flat_terms(fs, con._entry_args[k], terms)
            except (GiveUp, Exception):
                undecided = True
                continue
            nums = native['numbers']
            if len(terms) != len(nums):
                continue
            for t, g in zip(terms, nums):
                q = z3.RealVal(str(fractions.Fraction(g).limit_denominator(10 ** 12)))
                eps = z3.RealVal(str(fractions.Fraction(tol * (1 + abs(g))).limit_denominator(10 ** 15)))
                formulas.append(z3.And(t - q <= eps, q - t <= eps))
        r = _sat_with_real_math(formulas)
        if r is True:
            return True
        if r is None:
            undecided = True
    return None if undecided else False


def _relational_path(ob, cells, con=None):
    """does the path (its conditions or its outputs) mention an uninterpreted symbol that is neither an input nor a
    mathematical function (a callee's result known by contract only, a permutation chosen by argsort, ...)?"""
    from .extmodels import INTERP_TABLES
    formulas = []
    _expand(list(ob.hyps) + list(ob.pc), formulas)
    fs = ob.final_state
    try:
        if fs.status == 'return':
            _flat_terms(fs, fs.retval, formulas)
        if con is not None:
            for k in sorted(con._entry_args):
                _flat_terms(fs, con._entry_args[k], formulas)
    except Exception:       # noqa
        return True
    inputs = set()
    for t in cells:
        if z3.is_app(t):
            inputs.add(t.decl().name())
    seen = set()
    stack = list(formulas)
    while stack:
        t = stack.pop()
        if t.get_id() in seen:
            continue
        seen.add(t.get_id())
        if z3.is_app(t):
            if t.decl().kind() == z3.Z3_OP_UNINTERPRETED:
                nm = t.decl().name()
                if nm not in inputs and nm not in ('log10', 'ln', 'pow10', 'sqrt', 'ln10', 'pc_in_m', 'au_in_m', 'c_m_per_s', 'arcsec_in_rad') \
                        and nm not in INTERP_TABLES and sym.SUMS.by_const.get(t.get_id()) is None and sym.EXTREMA.by_const.get(t.get_id()) is None:
                    return True
            stack.extend(t.children())
    return False


def _math_apps(formulas):
    seen, out = set(), []
    stack = list(formulas)
    while stack:
        t = stack.pop()
        if t.get_id() in seen:
            continue
        seen.add(t.get_id())
        if z3.is_app(t):
            if t.decl().kind() == z3.Z3_OP_UNINTERPRETED and t.decl().name() in ('log10', 'ln', 'pow10', 'sqrt') and t.num_args() == 1:
                out.append(t)
            stack.extend(t.children())
        elif z3.is_quantifier(t):
            stack.append(t.body())
    return out


def _qval(v):
    if z3.is_int_value(v):
        return fractions.Fraction(v.as_long())
    if z3.is_rational_value(v):
        return fractions.Fraction(v.numerator_as_long(), v.denominator_as_long())
    if z3.is_algebraic_value(v):
        a = v.approx(20)
        return fractions.Fraction(a.numerator_as_long(), a.denominator_as_long())
    return None


def _sat_with_real_math(formulas, rounds=8):
    """Satisfiability where log10 / ln / 10**x / sqrt mean what they mean: the solver knows them as uninterpreted
    functions, so a model is checked against real mathematics and every application it got wrong is pinned to its
    real value at that argument (lazily, a few rounds).  -> True (sat) / False (unsat) / None"""
    import math
    s = z3.Solver()
    s.set('timeout', 5000)
    for f in formulas:
        s.add(f)
    apps = _math_apps(formulas)
    fn = {'log10': lambda x: math.log10(x) if x > 0 else None, 'ln': lambda x: math.log(x) if x > 0 else None,
          'pow10': lambda x: 10. ** x if abs(x) < 300 else None, 'sqrt': lambda x: math.sqrt(x) if x >= 0 else None}
    for _ in range(rounds):
        r = s.check()
        if r == z3.unsat:
            return False
        if r != z3.sat:
            return None
        m = s.model()
        wrong = 0
        for t in apps:
            a = _qval(m.eval(t.arg(0), model_completion=True))
            got = _qval(m.eval(t, model_completion=True))
            if a is None or got is None:
                continue
            real = fn[t.decl().name()](float(a))
            if real is None:
                continue
            if abs(float(got) - real) > 1e-9 * (1 + abs(real)):
                wrong += 1
                lo = z3.RealVal(str(fractions.Fraction(real - 1e-9 * (1 + abs(real))).limit_denominator(10 ** 15)))
                hi = z3.RealVal(str(fractions.Fraction(real + 1e-9 * (1 + abs(real))).limit_denominator(10 ** 15)))
                s.add(z3.Implies(t.arg(0) == z3.RealVal(str(a)), z3.And(t >= lo, t <= hi)))
        if not wrong:
            return True
    return None


VALUES = [fractions.Fraction(a, b) for a in (1, 2, 3, 5, 7, 9, 11, 13, 17, 25, 40) for b in (1, 2, 4, 8)]


def _sample_model(formulas, rng, cells=(), budget_ms=4000):
    """inputs satisfying the formulas, with as many input numbers as possible pinned to pseudo-random values.
    (Where the hypotheses are nonlinear callee contracts z3 may not find any model in the time allowed: such a
    function is then not cross-checked -- its callees are.)"""
    s = z3.Solver()
    s.set('timeout', 2000)
    for f in formulas:
        s.add(f)
    if s.check() != z3.sat:
        return None, 0
    terms = list(cells) or _input_terms(formulas)
    rng.shuffle(terms)
    pinned = 0
    t0 = time.time()
    s.set('timeout', 300)
    for t in terms:
        if (time.time() - t0) * 1000 > budget_ms:
            break
        v = rng.choice(VALUES) * rng.choice([1, 1, 1, -1])
        if z3.is_int(t):
            v = int(v) if v == int(v) else int(v) + 1
        s.push()
        s.add(t == (z3.IntVal(v) if z3.is_int(t) else z3.RealVal(str(v))))
        if s.check() == z3.sat:
            pinned += 1
        else:
            s.pop()
    s.set('timeout', 4000)
    if s.check() != z3.sat:
        return None, pinned
    return s.model(), pinned


def crosscheck(name, variant=None, samples=2, seed=1, repo_root=None, sizes=(2, 3), max_paths=12, max_seconds=60):
    """-> dict(function, variant, agree, disagree=[...], discarded, skipped, reason)"""
    from . import units as _u
    deadline = time.time() + max_seconds
    rng = random.Random('%s/%s/%s' % (name, variant, seed))
    res = dict(function=name, variant=variant, agree=0, disagree=[], discarded=0, skipped=0, paths=0, reason=None)
    ax = [_u.AU_M == z3.RealVal('149597870700'), _u.PC_M == z3.RealVal('30856775814913673'), _u.C_SI == z3.RealVal('299792458')]
    for size in sizes:
        try:
            con, obs, szs = _small_run(name, variant, size, repo_root)
        except Exception as e:      # noqa
            res['reason'] = 'small-scope run not possible: %s' % (str(e)[:120],)
            continue
        if not szs and size != sizes[0]:
            continue                # nothing depends on the size: one run is enough
        by_path = {}
        for ob in obs:
            fs = getattr(ob, 'final_state', None)
            if fs is None or ob.kind not in ('post', 'frame', 'raises'):
                continue
            by_path.setdefault(ob.path, ob)
        paths = sorted(by_path)
        rng.shuffle(paths)
        for p in paths[:max_paths]:
            ob = by_path[p]
            fs = ob.final_state
            formulas = list(ax) + list(solver.global_axioms())
            _expand(list(ob.hyps) + list(ob.pc), formulas)      # (quantifiers over the reals are left out: see step 3)
            res['paths'] += 1
            cells = _cells(getattr(con, '_entry_state', fs), con._entry_args)
            for k in range(samples):
                if time.time() > deadline:
                    res['reason'] = res['reason'] or 'time budget of the cross-check used up'
                    return res
                model, pinned = _sample_model(formulas, rng, cells)
                if model is None:
                    res['discarded'] += 1
                    continue
                rm = RealMath(model)
                try:
                    inputs = dict((a, describe(rm, getattr(con, '_entry_state', fs), v)) for a, v in con._entry_args.items())
                    # does real mathematics take this path for these inputs?  (no: a callee's result symbol or an
                    # uninterpreted function got a value real mathematics does not give it -> the functional comparison
                    # is meaningless, only the relational one below applies)
                    try:
                        on_path = all(_truth(rm, h) for h in flatten(list(ob.hyps)))
                        rm.tight = None         # (only the branch decisions of the path matter for the boundary test)
                        on_path = on_path and all(_truth(rm, h) for h in flatten(list(ob.pc)))
                        predicted = dict(result=describe(rm, fs, fs.retval) if fs.status == 'return' else None,
                                         status=fs.status, exc=fs.exc[0] if fs.exc else None,
                                         args_after=dict((a, describe(rm, fs, v)) for a, v in con._entry_args.items())) if on_path else None
                    except GiveUp:
                        predicted = None
                    if rm.tight:
                        # an order comparison the path depends on holds with EQUALITY of two real numbers: in floating
                        # point either side may win (A-REAL); such a sample tests rounding, not the executor
                        res['discarded'] += 1
                        continue
                    if predicted is None:
                        predicted = dict(result=None, status='unknown', exc=None, args_after={})
                except GiveUp as e:
                    res['skipped'] += 1
                    res['reason'] = res['reason'] or str(e)[:120]
                    continue
                except Exception as e:      # noqa
                    res['skipped'] += 1
                    res['reason'] = res['reason'] or ('%s: %s' % (type(e).__name__, str(e)[:100]))
                    continue
                if _has_opaque_input(inputs):
                    res['skipped'] += 1
                    res['reason'] = res['reason'] or 'an input stands for a file / table the native side cannot construct'
                    return res              # (true of every sample of this function)
                cex = dict(inputs=inputs, predicted=predicted, path=p, sizes=szs, function=name, variant=variant)
                try:
                    out = replay_native(copy.deepcopy(cex))
                except GiveUp as e:
                    res['skipped'] += 1
                    res['reason'] = res['reason'] or str(e)[:120]
                    continue
                except Exception as e:      # noqa
                    res['skipped'] += 1
                    res['reason'] = res['reason'] or ('native set-up: %s: %s' % (type(e).__name__, str(e)[:100]))
                    continue
                nat = out.get('native') or {}
                if nat.get('exc') in ('FileNotFoundError', 'OSError', 'IsADirectoryError', 'PermissionError'):
                    res['skipped'] += 1
                    res['reason'] = res['reason'] or 'the real function needs files that only exist abstractly'
                    continue
                if out['agrees']:
                    res['agree'] += 1
                    continue
                # the executor may allow several behaviours for one input: is the real one among them?
                try:
                    est = getattr(con, '_entry_state', fs)
                    pins = []
                    for t in cells:
                        pins.append(t == model.eval(t, model_completion=True))
                    native = dict(status=nat.get('status', 'return'), exc=nat.get('exc'), numbers=out.get('all_numbers') or [])
                    ok = _allowed_by_some_path(by_path, con, list(ax) + list(solver.global_axioms()), pins, native)
                except Exception as e:      # noqa
                    ok = None
                if ok is True and predicted['status'] == 'unknown':
                    res['agree_relational'] = res.get('agree_relational', 0) + 1
                elif ok is True and not _relational_path(ob, cells, con):
                    # every symbol of this path is an input or a mathematical function: the executor predicted ONE
                    # behaviour and the real code showed another -- not excused by the relational comparison
                    res['disagree'].append(dict(path=p, size=size, detail=out['detail'], inputs=inputs, predicted=predicted))
                elif ok is True:
                    res['agree_relational'] = res.get('agree_relational', 0) + 1
                elif ok is None:
                    res['skipped'] += 1
                    res['reason'] = res['reason'] or 'relational comparison undecided'
                else:
                    res['disagree'].append(dict(path=p, size=size, detail=out['detail'], inputs=inputs, predicted=predicted))
    return res


def main(argv):
    import json
    import os
    from . import engine
    seed = int(os.environ.get('VERIF_SEED', '1') or 1)
    it = engine.make_interp(None)
    names = argv or sorted(it.contracts)
    total = dict(agree=0, agree_relational=0, disagree=0, discarded=0, skipped=0)
    for nm in names:
        con = it.contracts[nm]
        if getattr(con, 'trusted', False) or getattr(con, 'crosscheck', True) is not True:
            continue
        for v in (getattr(con, 'variants', None) or [None]):
            t0 = time.time()
            try:
                r = crosscheck(nm, v, seed=seed)
            except Exception as e:      # noqa
                print('%-70s %-14s ERROR %s: %s' % (nm, v, type(e).__name__, str(e)[:100]))
                continue
            print('%-70s %-14s agree=%d+%d disagree=%d discarded=%d skipped=%d paths=%d %.1fs %s' % (
                nm, v, r['agree'], r.get('agree_relational', 0), len(r['disagree']), r['discarded'], r['skipped'], r['paths'], time.time() - t0, r['reason'] or ''))
            for d in r['disagree'][:3]:
                print('   DISAGREE path=%s size=%s %s' % (d['path'], d['size'], d['detail']))
                print('      inputs=%s' % json.dumps(d['inputs'])[:600])
                print('      predicted=%s' % json.dumps(d['predicted'])[:400])
            total['agree'] += r['agree']
            total['agree_relational'] += r.get('agree_relational', 0)
            total['disagree'] += len(r['disagree'])
            total['discarded'] += r['discarded']
            total['skipped'] += r['skipped']
    print('TOTAL', total)
    return 1 if total['disagree'] else 0


if __name__ == '__main__':
    import sys
    sys.exit(main(sys.argv[1:]))
