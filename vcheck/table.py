"""Which functions are under contract (E1) and which bounded driver (E2) serve each property."""

A_REAL = 'A-REAL: floats are mathematical reals (no rounding/overflow/NaN/inf in the proved part)'
A_INT = 'A-INT: numpy integers are mathematical integers'
A_NP = 'A-NP: numpy indexing/broadcasting/view semantics as modelled in sedvc/npmodel.py (ranks <= 3); N-MASK: boolean-mask selection preserves order'
T_LOOP = 'T-LOOP: independent-iterations rule of sedvc/loops.py (side conditions are obligations)'
T_GLUE = 'T-GLUE: the sum normaliser applies the Lean-proved lemmas (lemmas/SumLemmas.lean) with the right instances; sum-witness axioms of sedvc/solver.py'
T_ENGINE = ('T-ENGINE: soundness of the sedvc executor itself (mitigated by the CPython cross-check of the executor run by every check, 120 seeded property-breaking changes, 40 property-preserving refactors, re-detection of the 16 repaired '
            'defects when reverted, reachability probes on every returning path, native replay of small counterexamples on the real code)')
D_ARGSORT = 'dep: np.argsort returns a permutation that sorts ascending'
D_ARGMIN = 'dep: np.argmin returns an index of a minimal element'
L_WCS = 'lemma wcs (weighted Cauchy-Schwarz) and count_prefix: proved in Lean/Mathlib, instantiated by contracts'
COMMON = [A_REAL, A_INT, A_NP, T_GLUE, T_ENGINE]

FR = 'sedfitter.fitting_routines.'
SRC = 'sedfitter.source.source.Source.'
FI = 'sedfitter.fit_info.FitInfo.'
MOD = 'sedfitter.models.Models.'

PROPS = {
    'C01': dict(
        level='proof',
        e1=[FR + 'linear_regression', FR + 'optimal_scaling', FR + 'chi_squared', SRC + 'get_log_fluxes', MOD + 'log_fluxes_mJy', MOD + 'fit', FI + 'sort'],
        e2=('rtc.fit_props', 'run_c01'),
        assumptions=COMMON + [T_LOOP, D_ARGSORT, L_WCS, 'non-singular regression is the hypothesis det != 0 (>= 2 fitted points with unequal k)'],
        explanation='E1: every function on the path from photometry to the ranked result is under contract and all obligations are discharged '
                    'for symbolic numbers of models and filters; E2: the same clauses on the real Models.fit/Fitter against an independent KKT oracle.'),
    'C03': dict(
        level='proof',
        e1=[SRC + 'get_log_fluxes', SRC + 'n_data', FR + 'chi_squared', MOD + 'fit'],
        e2=('rtc.fit_props', 'run_c03'),
        assumptions=COMMON + [T_LOOP, 'confidence 1 (log 0) and non-finite stored values are outside A-REAL: bounded run only'],
        explanation='E1: pointwise flag semantics (weights, chi^2 term, definedness of log/division for every stored value of a 0/9 point); '
                    'E2: exhaustive flag vectors with perturbation pairs.'),
    'C04': dict(
        level='proof',
        e1=[FI + 'sort', MOD + 'fit', FR + 'chi_squared'],
        e2=('rtc.fit_props', 'run_c04'),
        assumptions=COMMON + [D_ARGSORT, D_ARGMIN, 'NaN/inf ordering of argsort is outside A-REAL: bounded run only'],
        explanation='E1: one permutation applied to every per-model array, row integrity, predicted-flux formula, frames of chi_squared; E2: ties and 1e30 rows.'),
    'C05': dict(
        level='proof',
        e1=[FI + 'keep', SRC + 'n_data'],
        e2=('rtc.select_props', 'run_c05'),
        assumptions=COMMON + [L_WCS, 'chi^2 values are finite reals in the proved part; inf/NaN vectors are enumerated exhaustively by the bounded part'],
        explanation='E1: prefix/count/threshold clauses for every selector form and every length; E2: exhaustive small vectors incl. inf/NaN and compositions.'),
    'C11': dict(
        level='proof',
        e1=[MOD + 'fit', SRC + 'get_log_fluxes', FR + 'linear_regression', FR + 'optimal_scaling', FR + 'chi_squared'],
        e2=('rtc.fit_props', 'run_c11'),
        assumptions=COMMON + ['permutation/scaling invariances are decided by the bounded paired runs; E1 proves the frames (nothing reachable from '
                              'the fitter state or the source is modified) from which history independence follows for all histories'],
        explanation='E1: frame obligations of every function on the fit path (history independence for all histories); E2: paired runs.'),
}

UT = 'sedfitter.utils.'
FLT = 'sedfitter.filter.filter.Filter.'
M1 = 'M1/M2 (calculus, not mechanised): the trapezium sum over a grid containing every breakpoint of a piecewise-linear function is its integral, additive over adjacent intervals'

PROPS['C06'] = dict(
    level='other',
    e1=[UT + 'integrate.integrate', UT + 'integrate.integrate_subset', UT + 'interpolate.interp1d_fast', FLT + 'normalize', FLT + 'rebin'],
    e2=('rtc.conv_props', 'run_c06'),
    assumptions=COMMON + [T_LOOP, M1, 'integrate_subset: its BODY is proved to integrate exactly the grid {lo} + every tabulated node strictly inside + {hi} with interpolated end values (any storage order, any limit '
                          'order); that this trapezium sum is the exact integral used by its callers is M1',
                          'dep: np.searchsorted (side=left partition of a sorted array; sortedness is an obligation)'],
    explanation='E1 proves: integrate = trapezium sum (frame: y untouched); interp1d_fast = the line of every bracketing segment (incl. the x[-1] wrap at the first node); '
                'normalize divides by |integral|; rebin: response_i = PLI(clipped midpoint edges) with the clip to the filter\'s own [min,max] range for either storage '
                'order, integrate_subset preconditions at the call site. NOT proved (bounded only): sum R_i = integral over the overlap, flat-spectrum '
                'and linearity corollaries, convolve_model_dir regions. Level "other": kernels proved, composition bounded.')

for _p, _fn, _lvl in (('C12', 'run_c12', 'other'), ('C13', 'run_c13', 'other'), ('C14', 'run_c14', 'other'), ('C15', 'run_c15', 'other'),
                      ('C19', 'run_c19', 'fault_enumeration'), ('C20', 'run_c20', 'other')):
    PROPS[_p] = dict(level=_lvl, e1=[], e2=('rtc.io_props', _fn), assumptions=COMMON, explanation='(being extended) bounded run on the real code')

for _p, _fn, _lvl in (('C02', 'run_c02', 'other'), ('C07', 'run_c07', 'other'), ('C08', 'run_c08', 'other'), ('C09', 'run_c09', 'other'), ('C10', 'run_c10', 'other'),
                      ('C16', 'run_c16', 'other'), ('C17', 'run_c17', 'exploration'), ('C18', 'run_c18', 'other')):
    PROPS[_p] = dict(level=_lvl, e1=[], e2=('rtc.pipe_props', _fn), assumptions=COMMON, explanation='(being extended) bounded run on the real code through real files')

PROPS['C20'] = dict(
    level='proof',
    e1=[SRC + 'from_ascii'],
    e2=('rtc.io_props', 'run_c20'),
    assumptions=COMMON + ['tokens are well-formed numbers (numpy raises ValueError otherwise, which is also a rejection); str.split() yields L tokens',
                          'text formatting (to_ascii) and dict/pickle round trips are decided by the bounded run only'],
    explanation='E1: from_ascii accepts iff L = 3(n+1) with flags in {0,1,2,3,4,9}, EOFError iff L < 3, ValueError otherwise (both directions), and the column association of '
                'name, coordinates, flags and (flux, error) pairs -- for every column count. The validation code of the setters is executed as part of the caller (inlined). '
                'E2: exhaustive column counts for n <= 5/12, bad flags, formatted round trips.')

EXTN = 'sedfitter.extinction.extinction.Extinction.'
PROPS['C14'] = dict(
    level='proof',
    e1=[EXTN + 'get_av'],
    e2=('rtc.io_props', 'run_c14'),
    assumptions=COMMON + ['A-UNIT: unit model of sedvc/units.py (exact rational SI scales, dimension vectors)',
                          'dep: np.interp = the line of every tabulated segment containing the argument; a value inside a strictly increasing table lies in some segment (sedvc/extmodels.py interp_function)',
                          'pickle / table / text-file round trips are decided by the bounded run only'],
    explanation='E1 (4 unit combinations of table and query, any table length, any number of queries): result * chi(V) = -0.4 chi(lambda) inside the table with chi = np.interp\'s '
                'interpolant of the table, chi(V) > 0, exactly -0.4 at V, 0 outside, result dimensionless; the unit factors cancel symbolically. E2: tables, units, round trips.')
PROPS['C15'] = dict(
    level='proof',
    e1=['sedfitter.sed.helpers.convert_flux'],
    e2=('rtc.io_props', 'run_c15'),
    assumptions=COMMON + ['A-UNIT: unit model of sedvc/units.py', 'the two call sites in SED.read (which nu is passed after a reversal) are decided by the bounded run only'],
    explanation='E1: for each of the 25 (stored, requested) unit pairs and all values/frequencies/distances/shapes (incl. square arrays) the result equals the statement\'s relation '
                '(F = nu F_nu, L = F d^2); A->B->A = id and A->B->C = A->C as lemmas over the spec; an unsupported unit reaches the raise. E2: the same through SED.write/SED.read.')
PROPS['C01']['e1'] = PROPS['C01']['e1'] + [EXTN + 'get_av']

CFX = 'sedfitter.convolved_fluxes.convolved_fluxes.ConvolvedFluxes.'
SEDC = 'sedfitter.sed.sed.SED.'
PROPS['C13'] = dict(
    level='proof',
    e1=[CFX + 'interpolate', SEDC + 'interpolate'],
    e2=('rtc.io_props', 'run_c13'),
    assumptions=COMMON + ['A-UNIT: unit model of sedvc/units.py', 'dep: scipy interp1d = the line of every tabulated segment containing the argument (rows of the table), ValueError outside the table '
                          '(in-range is an obligation at the call)', 'interpolate_variable (the wavelength-dependent variant used by plot) is decided by the bounded run only',
                          'float round-off of unit conversions is outside A-REAL (the bounded run covers it: see known_findings cf4fac7)'],
    explanation='E1 (table in AU or pc, request in AU/pc/bare AU numbers, any table length >= 2, any number of requests and models, and the single-aperture case): exact at tabulated '
                'radii, linear on every bracketing segment, largest-aperture value beyond the table, an exception iff some request is below the smallest aperture (both directions), '
                'names / wavelength untouched, repetition for a single aperture. E2: the same natively incl. interpolate_variable.')
PROPS['C17'] = dict(
    level='exploration',
    e1=[SEDC + 'scale_to_distance', SEDC + 'scale_to_av', SEDC + 'interpolate', EXTN + 'get_av'],
    e2=('rtc.pipe_props', 'run_c17'),
    assumptions=COMMON + ['matplotlib and the body of plot() are outside E1: the composite claim (curve through the predicted flux, number of curves, best fit last) is decided by the bounded run'],
    explanation='E2 (bounded) decides the property on the real plot(). E1 proves the helper contracts it composes: scale_to_distance (inverse square, copy), scale_to_av (10^(A_V k)), '
                'SED.interpolate, Extinction.get_av.')

FIFN = 'sedfitter.fit_info.FitInfoFile.'
T_EVENT = 'T-LOOP-EVENT: uniform-iteration rule of sedvc/loops.py (EventLoop): per-iteration facts proved for an arbitrary iteration compose sequentially in iteration order'
D_PICKLE = ('dep: pickle framing (sedvc/files.py): dump appends one self-delimiting frame; load returns the next complete frame, raises EOFError at the end, and EOFError or '
            'UnpicklingError -- never an object -- for an incomplete frame; validated by the exhaustive truncation run of C19')
PROPS['C19'] = dict(
    level='fault_enumeration',
    e1=[FIFN + '__init__', FIFN + '__iter__', FIFN + 'write'],
    e2=('rtc.io_props', 'run_c19'),
    assumptions=COMMON + [T_EVENT, D_PICKLE],
    explanation='Fault enumeration (E2): every truncation offset of real files written by the real FitInfoFile (1..3/4 records, with/without predicted fluxes, plus a 70000-fit record). '
                'E1 proves, given the pickle framing contract: every record is exactly one frame holding that object, metadata written once before the first record; the reader yields '
                'exactly the next complete frame per iteration, stops only at the end of the complete frames, never yields for an incomplete frame and lets UnpicklingError propagate.')
PROPS['C18'] = dict(
    level='other',
    e1=['sedfitter.filter_output.filter_output', FIFN + '__init__', FIFN + 'write', FIFN + '__iter__', SRC + 'n_data'],
    e2=('rtc.pipe_props', 'run_c18'),
    assumptions=COMMON + [T_EVENT, D_PICKLE, 'every record holds at least one fit and n_data >= 1 (property quantifier); a zero threshold is treated by the code as "not given"',
                          'that untouched output files of an earlier run are not mistaken for output (file truncation on open) is decided by the bounded run'],
    explanation='E1: for an arbitrary record of the input exactly one write happens, of that very (unmodified) object, to the good file if the criterion quantity is below the threshold and to '
                'the bad file if above (chi: best chi^2; cpd: best chi^2 / n_data with n_data counting flags 1 and 4); automatic names; refusal of non-file input without names. '
                'E2: files read back, order within each file, reused output names.')
PROPS['C10'] = dict(
    level='other',
    e1=['sedfitter.fit.fit', 'sedfitter.fit.Fitter.fit', FIFN + '__init__', FIFN + 'write', FIFN + '__iter__', SRC + 'from_ascii', SRC + 'n_data', FI + 'keep'],
    e2=('rtc.pipe_props', 'run_c10'),
    assumptions=COMMON + [T_EVENT, D_PICKLE, 'Fitter.__init__ (Models.read: file I/O) is assumed; the numeric domain conditions of Fitter.fit / keep on the data lines are assumptions of the orchestration proof',
                          'interchangeability of file / object / list in the six post-processing functions and the text outputs are decided by the bounded run'],
    explanation='E1: the main loop of fit(): for an arbitrary input line -- end of input (< 3 columns) stops; a source with n_data >= n_data_min is fitted (that source, the fitter settings), '
                'stripped of predicted fluxes unless requested, cut by the output selector and written exactly once; any other source writes nothing; malformed lines are errors. FitInfoFile: '
                'one frame per record, metadata once, in-memory results are yielded as copies (the objects of the caller are never handed to consumers). E2: real files, three input forms, call sequences.')

CUBEN = 'sedfitter.sed.cube.'
D_FITS = ('dep: astropy.io.fits (contracts/fitsmodel.py): what an HDU was written with is what .data / .header / .columns[i].unit give back; the stored unit string denotes the unit '
          '(parse_unit_safe assumed; see known_findings 4920375 for the natively found defect there)')
PROPS['C12'] = dict(
    level='other',
    e1=[SEDC + 'read', CUBEN + 'BaseCube.read', CUBEN + 'SEDCube.get_sed'],
    e2=('rtc.io_props', 'run_c12'),
    assumptions=COMMON + [D_FITS, 'A-UNIT: unit model of sedvc/units.py', 'SED.write / SEDCube.write (astropy Table sorting and FITS serialisation) and the consumers of the order '
                          '(Filter.rebin, convolve_model_dir) are decided by the bounded run; Filter.rebin accepting either storage order is proved under C06'],
    explanation='E1: SED.read (4 unit/order variants): for either stored order and either requested order, wavelengths, frequencies, fluxes and errors come back as stored or reversed '
                'TOGETHER, each cell converted with the frequency of that cell, and the requested order holds. SEDCube.read (with/without uncertainties and apertures): the same for '
                'wavelengths, values and uncertainties on the third axis; names/apertures untouched. SEDCube.get_sed: the SED of the first row with that name, cell for cell. '
                'E2: write/read round trips in both orders, cube vs per-file, native.')
PROPS['C15']['e1'] = PROPS['C15']['e1'] + [SEDC + 'read']
PROPS['C15']['assumptions'] = COMMON + ['A-UNIT: unit model of sedvc/units.py', D_FITS]
PROPS['C15']['explanation'] = PROPS['C15']['explanation'].replace('E2: the same', 'SED.read: every cell is converted with the frequency of that very cell whichever way the axis is '
                                                                  'flipped (4 variants). E2: the same')

# ---- second wave of E1 coverage ---------------------------------------------------------------
D_TABLE = 'dep: astropy Table: boolean row selection keeps the selected rows in order, integer selection gathers whole rows, rows that do not exist raise (sedvc/extmodels.py table model); np.isin = membership'
PROPS['C02'] = dict(
    level='other',
    e1=[MOD + 'fit', MOD + 'log_fluxes_mJy', FR + 'optimal_scaling', FR + 'chi_squared', SRC + 'get_log_fluxes', CFX + 'interpolate'],
    e2=('rtc.pipe_props', 'run_c02'),
    assumptions=COMMON + [T_LOOP, D_ARGMIN, 'A-UNIT: unit model of sedvc/units.py', 'the distance grid (ceil, logspace) and the theta*d / (1 kpc/d)^2 scaling inside Models._read_version_1/2 '
                          '(file I/O orchestration) are decided by the bounded run only; a float ceil at an exact multiple may add one grid point (outside A-REAL)'],
    explanation='E1: Models.fit on a (model, distance, filter) grid: for every model and every grid distance the A_V is the 1-D least-squares optimum clipped to the range, the chi^2 is the fit '
                'term plus limit penalties at that A_V, the reported chi^2 is <= the chi^2 at every grid distance, the reported scale is logd of the chosen distance and the predicted fluxes are '
                'gathered at that distance; ConvolvedFluxes.interpolate (the aperture interpolation used for the scaling). E2: grid formula and scaling through real packages, both formats, memmap.')
PROPS['C07'] = dict(
    level='other',
    e1=[CFX + 'sort_to_match', CUBEN + 'SEDCube.get_sed', CUBEN + 'BaseCube.read'],
    e2=('rtc.pipe_props', 'run_c07'),
    assumptions=COMMON + [D_ARGSORT, D_FITS, 'np.char.strip = a function of the name', 'the convolve loops of _convolve_model_dir_1/2 (which SED goes to which row, per-aperture sums, rebinning per '
                          'wavelength grid), the FITS writers and the memmap path are decided by the bounded run only; that a permutation of unique names never raises "Sorting failed" is bounded'],
    explanation='E1: sort_to_match: on normal return row r is labelled requested[r] and carries the name, fluxes and errors of ONE input row (the same for all three), anything else is an exception; '
                'SEDCube.read / get_sed (the cube side of format equality). E2: packages x formats x memmap x mixed wavelength grids x row permutations against an independent convolution oracle.')
PROPS['C09'] = dict(
    level='other',
    e1=[FI + 'filter_table'],
    e2=('rtc.pipe_props', 'run_c09'),
    assumptions=COMMON + [T_LOOP, D_ARGSORT, D_TABLE, 'the text written by write_parameters / write_parameter_ranges / extract_parameters and the plots are decided by the bounded run only; '
                          'that a parameter table holding every fitted model exactly once never raises is bounded (exhaustive row permutations)'],
    explanation='E1: FitInfo.filter_table for any row order of the input table and any number of rows/fits: on normal return row i is an ENTIRE input row (every column from the same row) whose '
                'MODEL_NAME is the name of fit i; additional parameters are attached by stripped model name; nothing else is returned silently (exceptions only). E2: the three writers parsed back.')
PROPS['C16']['e1'] = [CFX + 'sort_to_match']
PROPS['C16']['assumptions'] = COMMON + [D_ARGSORT, 'the window indices (searchsorted on the reversed axis) and the chunk loops of convolve_model_dir_monochromatic and the nearest-wavelength slice of '
                                        'Models._read_version_2 are decided by the EXHAUSTIVE bounded enumeration (every chunk size x every window for n_wav <= 5/8), not by E1']
PROPS['C16']['explanation'] = ('E2 (exhaustive for small n_wav) decides the property on the real function through real files. E1 proves only the row-integrity contract of sort_to_match that every '
                               'monochromatic file goes through. Level "other": bounded-exhaustive, not proved.')
PROPS['C08']['assumptions'] = COMMON + ['no function is proved specifically for C08: it is the composition of the contracts of C01/C02/C04/C07/C09 and is decided end-to-end by the bounded run']
PROPS['C08']['explanation'] = ('E2: planted (model, A_V, scale) recovered through convolve_model_dir -> fit -> write_parameters, both formats, 1/3 apertures, permuted tables, mixed wavelength grids. '
                               'The kernels it composes are proved under C01 (optimum), C02 (grid minimum), C04 (ranking), C09 (filter_table); the composition itself is bounded.')
PROPS['C11']['level'] = 'other'
PROPS['C11']['explanation'] = ('E1: frame obligations of every function on the fit path -- nothing reachable from the fitter state or the source is modified -- from which independence of history '
                               'follows for ALL histories (for the state the contracts describe). E2: paired runs for filter/model permutations, brightness scaling, histories incl. the resolved-model mask. '
                               'Level "other": the history half is proved, the permutation/scaling half is bounded.')

MONO = 'sedfitter.convolve.monochromatic.convolve_model_dir_monochromatic'
PROPS['C16'] = dict(
    level='other',
    e1=[MONO, CFX + 'sort_to_match', SEDC + 'read'],
    e2=('rtc.pipe_props', 'run_c16'),
    assumptions=COMMON + [T_EVENT, D_ARGSORT, D_FITS, 'dep: np.searchsorted (left partition of a sorted array; sortedness is an obligation)',
                          'assumed: parfile.read / load_parameter_table / glob / os (package directory I/O); every SED file of a per-file package is tabulated on one common wavelength grid '
                          '(the monochromatic mode indexes every SED with the first file\'s grid) and satisfies the domain conditions of SED.read (positive, strictly monotone axis)',
                          'output objects built by the list comprehension over range(chunk_size) are kept abstract: their constructor arguments and the bodies of ConvolvedFluxes.write are not '
                          'verified here (FITS I/O; bounded run), sort_to_match is verified separately',
                          'the window must hold at least one tabulated wavelength and max_ram must allow one wavelength per chunk (property quantifier); an empty window makes range() raise',
                          'the nearest-wavelength slice of Models._read_version_2 for cube packages is decided by the bounded run only'],
    explanation='E1 (every n_wav, n_models, n_ap, every max_ram / chunk size, every window): the real text of convolve_model_dir_monochromatic is executed symbolically. Proved: [jlo, jhi] is exactly '
                'the set of wavelength indices inside the window; chunk starts are jlo, jlo+chunk, ... and the chunks tile the window (each chunk inside it, not longer than the list of output '
                'objects, the next one starting right after); in chunk position j every field of output object j (central wavelength, model name, flux and error of row im, per aperture) is taken '
                'at wavelength index j+jmin of the SED just read, with no index out of range; object j is sorted to the parameter-table order and written exactly once to file number j+jmin+1, '
                'and that name is entered in row j+jmin of the returned table (other rows untouched). That these per-iteration facts compose to "exactly one file per in-window wavelength, '
                'independent of chunking" is the range-tiling lemma chunks_tile (proved in Lean for every chunk size, lemmas/SumLemmas.lean) on top of T-LOOP-EVENT. E2: EXHAUSTIVE chunk sizes x windows for n_wav <= 5/8 through real files, plus the cube slice.')

# ---- convolve_model_dir (both package formats) under contract ------------------------------------
CV1, CV2 = 'sedfitter.convolve.convolve._convolve_model_dir_1', 'sedfitter.convolve.convolve._convolve_model_dir_2'
A_CONV = ['assumed: parfile.read / load_parameter_table / glob / os / ConvolvedFluxes.write (package directory and FITS I/O); SED.read and SEDCube.read are used through their own (proved) contracts, '
          'their domain conditions (positive, strictly monotone spectral axis) are assumptions on the package data',
          'A-REAL reading of np.testing.assert_array_almost_equal_nulp(x, y, 100): no exception means the two grids are equal',
          'two filters stand for any number of filters (the filter loops are unrolled on a list of two symbolic filters)',
          'every SED file of a per-file package has the same number of apertures as the first one (the output arrays are sized from it); wavelength grids may differ between files']
PROPS['C07']['e1'] = [CV1, CV2, CFX + 'sort_to_match', CUBEN + 'SEDCube.get_sed', CUBEN + 'BaseCube.read', SEDC + 'read']
PROPS['C07']['assumptions'] = COMMON + [T_LOOP, T_EVENT, D_ARGSORT, D_FITS, 'np.char.strip = a function of the name'] + A_CONV + [
    'that a permutation of unique names never raises "Sorting failed", the FITS writers, the memmap path and the equality of the two formats end-to-end are decided by the bounded run']
PROPS['C07']['explanation'] = ('E1: _convolve_model_dir_1 (per-file): for the SED file at ANY position im and every filter i, row im of output i gets that SED\'s name and, per aperture, flux = sum_k F[a,k] R_i[k], '
                               'error = sqrt(sum_k (E[a,k] R_i[k])^2) with R_i = filter i re-binned to the frequencies of THAT SED whatever grids the earlier files had (ghost provenance of every re-binned filter; '
                               'the remembered grid is an invariant), other rows untouched; every output is then sorted to the parameter-table order (sort_to_match: row integrity) and written once to the file '
                               'named after its filter. _convolve_model_dir_2 (cube): flux[m,a] = sum_k val[m,a,k] R_i[k], error from unc in quadrature, unit factors, names/apertures of the cube, the filter\'s '
                               'central wavelength, refusal of a parameter table whose names differ. SEDCube.read / get_sed / SED.read as in C12. E2: packages x formats x memmap x mixed grids x permutations.')
PROPS['C06']['e1'] = PROPS['C06']['e1'] + [CV1, CV2]
PROPS['C06']['assumptions'] = PROPS['C06']['assumptions'] + [T_EVENT] + A_CONV
PROPS['C06']['explanation'] = PROPS['C06']['explanation'].replace('NOT proved (bounded only): sum R_i = integral over the overlap, flat-spectrum and linearity corollaries, convolve_model_dir regions.',
                                                                  'The convolve loops of both formats are proved to multiply each SED by the filter re-binned to THAT SED\'s frequencies and to add errors in quadrature '
                                                                  '(see C07). NOT proved (bounded only): sum R_i = integral over the overlap, flat-spectrum and linearity corollaries.')
PROPS['C08']['explanation'] = ('E2: planted (model, A_V, scale) recovered through convolve_model_dir -> fit -> write_parameters, both formats, 1/3 apertures, permuted tables, mixed wavelength grids. '
                               'Every kernel it composes is proved elsewhere: C06/C07 (convolve loops, rebin), C01 (optimum), C02 (grid minimum), C04 (ranking), C09 (filter_table), C10 (fit loop); '
                               'the end-to-end composition through files and text is bounded.')

# ---- Models._read_version_1/2 (distance grid, scaling) under contract ----------------------------
RV1, RV2 = MOD + '_read_version_1', MOD + '_read_version_2'
PROPS['C02']['e1'] = [RV1, RV2] + PROPS['C02']['e1']
PROPS['C02']['assumptions'] = COMMON + [T_LOOP, D_ARGMIN, 'A-UNIT: unit model of sedvc/units.py',
                                        'dep: np.logspace(a, b, n) = 10**(a + k (b-a)/(n-1)) with end points 10**a, 10**b; np.ceil / int; log10 strictly increasing, 10**x > 0, log10(10**x) = x '
                                        '(ground instances at the terms of each query, sedvc/solver.py math_instances)',
                                        'assumed: parfile.read, ConvolvedFluxes.read, os.path.exists (package I/O); SEDCube.read through its own contract; the domain conditions of '
                                        'ConvolvedFluxes.interpolate on the package tables (increasing apertures) are assumptions on the data',
                                        'two filters stand for any number; broadband filters given by name; memory mapping off (the memmap path stores float32 and is decided by the bounded run)',
                                        'a float ceil at an exact multiple may add one grid point (outside A-REAL); remove_resolved is decided by the bounded run']
PROPS['C02']['explanation'] = ('E1: Models._read_version_1 and _read_version_2 (separately): dmin == dmax gives the single distance dmin; otherwise n >= 2 log-uniform trial distances including both ends with '
                               '(n-1) step >= log10(dmax/dmin) > (n-2) step (spacing within the step with the FEWEST points); for every filter the fluxes handed to the fitter are the result of '
                               'ConvolvedFluxes.interpolate at the radii theta[arcsec] x d[pc] AU times (1 kpc/d)^2, logd = log10(d/kpc), filter wavelengths from the files. ConvolvedFluxes.interpolate '
                               '(C13: linear in aperture, largest beyond, refusal below). Models.fit on the (model, distance, filter) grid: clipped 1-D optimum at every distance, chi^2 = fit + penalties, '
                               'reported chi^2 <= chi^2 at every grid distance, scale = logd of the chosen distance. E2: the same through real packages, both formats, memmap on/off.')


# ---- Fitter.__init__ under contract -------------------------------------------------------------
FINIT = 'sedfitter.fit.Fitter.__init__'
for _p in ('C01', 'C10'):
    if FINIT not in PROPS[_p]['e1']:
        PROPS[_p]['e1'] = PROPS[_p]['e1'] + [FINIT]
PROPS['C01']['explanation'] += (' Fitter.__init__: the distance pattern handed to Models.fit is -2 for every filter and the extinction pattern is get_av of the model wavelengths '
                                '(Models.read assumed at that call site; its two readers are under contract in C02).')
PROPS['C10']['assumptions'] = [x.replace('Fitter.__init__ (Models.read: file I/O) is assumed; ', 'Models.read (dispatch on the package version) and delete_file are assumed at their call sites; ') for x in PROPS['C10']['assumptions']]


# ---- writers of SED / cube files under contract ----------------------------------------------------
PROPS['C12']['e1'] = PROPS['C12']['e1'] + [SEDC + 'write', CUBEN + 'BaseCube.write']
PROPS['C12']['assumptions'] = COMMON + [D_FITS, D_ARGSORT, 'A-UNIT: unit model of sedvc/units.py',
                                        'dep: astropy Table.sort(key) re-orders every column by np.argsort(column key); np.argsort is a function of its argument; fits HDU / HDUList constructors keep '
                                        'what they are given; HDUList.writeto stores it (byte format and read-back: bounded run)', 'assumed: table_to_hdu (Table -> BinTableHDU with units)',
                                        'ConvolvedFluxes files and the consumers of the order (convolve loops: C07) are not part of this check\'s proved set; Filter.rebin accepting either storage order is proved under C06']
PROPS['C12']['explanation'] = ('E1: SED.read (4 unit/order variants): wavelengths, frequencies, fluxes and errors come back as stored or reversed TOGETHER, each cell converted with the frequency of that cell, '
                               'the requested order holds along the whole axis. SED.write: ONE re-ordering (increasing frequency) applied to the spectral table and, per aperture, to fluxes and errors -- row k '
                               'and column k describe the same wavelength; name, distance in cm, apertures, units stored. SEDCube.read (4 variants): the same on the third axis, frequencies seen by a consumer '
                               'satisfy lambda nu = c; SEDCube.write: every extension cell for cell with its unit, frequencies derived from the wavelengths; SEDCube.get_sed: the SED of the first row with that '
                               'name. E2: write/read round trips through real files in both orders, cube vs per-file, convolved-flux files.')


# ---- cube packages with a wavelength instead of a filter name (C16, second half) ------------------------
FSC = 'sedfitter.convolved_fluxes.convolved_fluxes.MonochromaticFluxes.from_sed_cube'
PROPS['C16']['e1'] = PROPS['C16']['e1'] + [RV2, FSC]
PROPS['C16']['assumptions'] = [x for x in PROPS['C16']['assumptions'] if 'nearest-wavelength slice' not in x] + [D_ARGMIN]
PROPS['C16']['explanation'] += (' Cube packages: Models._read_version_2 with a wavelength instead of a filter name takes, through MonochromaticFluxes.from_sed_cube (flux[m,a] = val[m,a,k], error from unc, '
                                'names/apertures of the cube), the slice at an index k such that no tabulated wavelength is closer to the requested one, and reports the requested wavelength for the band.')
PROPS['C07']['e1'] = PROPS['C07']['e1'] + [FSC]


# ---- the three text writers of C09 under contract -----------------------------------------------------
WRS = ['sedfitter.write_parameters.write_parameters', 'sedfitter.write_parameter_ranges.write_parameter_ranges', 'sedfitter.extract_parameters.extract_parameters']
PROPS['C09']['e1'] = [FI + 'filter_table'] + WRS + [FI + 'keep', SRC + 'n_data']
PROPS['C09']['assumptions'] = COMMON + [T_LOOP, T_EVENT, D_ARGSORT, D_TABLE, D_PICKLE,
                                        'assumed: load_parameter_table (FITS table I/O); FitInfoFile through its own contracts; dep: astropy Table.sort(key) re-orders every column by np.argsort(key column); '
                                        'np.nanmin/np.nanmax = min/max (A-REAL: no NaN)',
                                        'the printed TEXT (number formatting, column widths, headers) is outside E1: what is proved is WHICH value is formatted WHERE; the text is parsed back by the bounded run',
                                        'that a parameter table holding every fitted model exactly once is never refused (totality) and the parameter plots are decided by the bounded run',
                                        'the numeric domain conditions of keep / filter_table / n_data on the records are assumptions on the data']
PROPS['C09']['explanation'] = ('E1: FitInfo.filter_table (any row order of the parameter table): on normal return row i is an ENTIRE input row whose MODEL_NAME is the name of fit i, additional parameters '
                               'attached by stripped name, otherwise an exception. write_parameters / extract_parameters: for an arbitrary record (cut by the given selector first) and an arbitrary selected fit i, '
                               'the line of fit i shows its rank, name, chi^2, A_V, scale and then entry i of every parameter column of the table filter_table returned for THAT record; one line per selected fit; '
                               'n_data and n_fits of the record in its header. write_parameter_ranges: for chi^2, A_V, scale and every parameter column the triple (minimum over the selected fits, value of the '
                               'rank-1 fit, maximum); placeholders only when nothing is selected. All three hand filter_table the package table with names stripped and rows sorted by name (whole rows moved '
                               'together). E2: the text of the three writers parsed back, exhaustive row permutations, sources as file/object/list.')


# ---- plot() under contract (what goes into the line collection) -------------------------------------------
PLOTF = 'sedfitter.plot.plot'
PROPS['C17']['level'] = 'other'
PROPS['C17']['e1'] = [PLOTF] + PROPS['C17']['e1'] + [CUBEN + 'SEDCube.get_sed', CUBEN + 'BaseCube.read']
PROPS['C17']['assumptions'] = COMMON + [T_EVENT, D_FITS, 'matplotlib is outside E1: figures, axes and line collections are uninterpreted values; what the drawn picture looks like is decided by the bounded run',
                                        'E1 covers plot() for cube packages with all fits of a source in one figure, sed_type="largest", figures returned (output_dir=None); the other display modes '
                                        '(interp: interpolate_variable; smallest+largest; all; one figure per fit; per-file packages; files written) are decided by the bounded run',
                                        'assumed: parfile.read (package configuration); FitInfoFile / keep through their own contracts; the domain conditions of the SED helpers on the package data',
                                        'KPC = 3.086e21 in plot.py vs astropy kpc differ by 2e-4: the curve passes through the stored predicted flux only to that precision (bounded-run tolerance 1e-3)']
PROPS['C17']['explanation'] = ('E1: plot(): for an arbitrary record and an arbitrary selected fit i the curve put into the line collection is (wavelengths, flux) of: the cube SED of the model NAMED in fit i '
                               '(get_sed), scaled to the fitted distance 10^sc[i] * KPC cm (scale_to_distance), reddened with A_V[i] through the extinction law stored with the fit (scale_to_av), '
                               'interpolated at the aperture theta_max * 10^sc[i] * 1000 AU (SED.interpolate) -- in that order, each step applied to the result of the previous one; fits are drawn from the last '
                               'selected one down to the best, the best in black and last; the figure of the source gets exactly the collected curves, once the best fit is in. The helpers (scale_to_distance: '
                               'inverse square; scale_to_av: 10^(A_V k); SED.interpolate; get_av; get_sed) are proved separately. E2: the drawn curves of the real plot() against the stored predicted fluxes, '
                               'all display modes.')


# ---- state completeness (what is handed to pickle / dict, and put back) ---------------------------------
ST_SRC = [SRC + '__getstate__', SRC + '__setstate__']
ST_FI = [FI + '__getstate__', FI + '__setstate__']
ST_EXT = [EXTN + '__getstate__', EXTN + '__setstate__']
PROPS['C10']['e1'] = PROPS['C10']['e1'] + ST_SRC + ST_EXT
PROPS['C14']['e1'] = PROPS['C14']['e1'] + ST_EXT
PROPS['C20']['e1'] = PROPS['C20']['e1'] + ST_SRC + [SRC + 'to_dict', SRC + 'from_dict']
PROPS['C17']['e1'] = PROPS['C17']['e1'] + ST_EXT
for _p in ('C10', 'C14', 'C20'):
    PROPS[_p]['explanation'] += (' State completeness: __getstate__ (to_dict) hands over every field of the object with its unit, __setstate__ (from_dict) puts every field back from the state of a '
                                 'well-formed object (that pickle preserves such a dictionary is the assumed dependency contract; exercised natively by the bounded run).')


# ---- ConvolvedFluxes.write under contract ---------------------------------------------------------------
PROPS['C07']['e1'] = PROPS['C07']['e1'] + [CFX + 'write']
PROPS['C12']['e1'] = PROPS['C12']['e1'] + [CFX + 'write']
PROPS['C12']['assumptions'] = [x.replace("ConvolvedFluxes files and the consumers of the order", "ConvolvedFluxes.read (astropy Column API) and the consumers of the order") for x in PROPS['C12']['assumptions']]
for _p in ('C07', 'C12'):
    PROPS[_p]['explanation'] += (' ConvolvedFluxes.write: names, fluxes, errors row for row with their units, apertures, central wavelength in micron '
                                 '(read-back through ConvolvedFluxes.read: bounded run).')
PROPS['C07']['assumptions'] = [x.replace(' / ConvolvedFluxes.write (package directory and FITS I/O)', ' (package directory and FITS I/O); ConvolvedFluxes.write through its own contract') for x in PROPS['C07']['assumptions']]


# ---- Models.read dispatch, Extinction table round trip ------------------------------------------------------
MREAD = MOD + 'read'
for _p in ('C01', 'C02', 'C10'):
    PROPS[_p]['e1'] = PROPS[_p]['e1'] + [MREAD]
PROPS['C10']['assumptions'] = [x.replace('Models.read (dispatch on the package version) and delete_file are assumed at their call sites; ', 'delete_file is assumed at its call site; ') for x in PROPS['C10']['assumptions']]
PROPS['C01']['explanation'] = PROPS['C01']['explanation'].replace('(Models.read assumed at that call site; its two readers are under contract in C02)', '(Models.read: hands its arguments to the reader of the package format; the two readers are under contract in C02)')
PROPS['C14']['e1'] = PROPS['C14']['e1'] + [EXTN + 'to_table', EXTN + 'from_table']
PROPS['C14']['explanation'] += ' to_table / from_table: the table round trip restores both fields (value and unit) for tables in micron/cgs and in Angstrom/SI.'


# ---- SED.interpolate_variable under contract ---------------------------------------------------------------
SIV = SEDC + 'interpolate_variable'
PROPS['C13']['e1'] = PROPS['C13']['e1'] + [SIV]
PROPS['C17']['e1'] = PROPS['C17']['e1'] + [SIV]
PROPS['C13']['assumptions'] = [x for x in PROPS['C13']['assumptions'] if 'interpolate_variable' not in x] + [
    'dep: log10 strictly increasing, 10**log10(t) = t, a chord of a linear interpolant lies between its end values (ground instances at the terms of each query)',
    'interpolate_variable: scipy\'s ValueError for an intermediate aperture that leaves the table may propagate (a refusal); tables narrower than 0.1% (0.999 a_max < a_min) are excluded']
PROPS['C13']['explanation'] = PROPS['C13']['explanation'].replace('E2: the same natively incl. interpolate_variable.',
    'SED.interpolate_variable: at an SED wavelength that is one of the filter wavelengths -- in whatever order the filters are given -- the value is the flux of that wavelength interpolated linearly '
    'in aperture to THAT filter\'s aperture (0.999 a_max beyond the table), refusal below the smallest aperture, the only row for a single-aperture SED. E2: the same natively.')
PROPS['C17']['assumptions'] = [x.replace('(interp: interpolate_variable; smallest+largest; all; one figure per fit; per-file packages; files written)', '(interp -- whose helper interpolate_variable is under contract --, smallest+largest, all, one figure per fit, per-file packages, files written)') for x in PROPS['C17']['assumptions']]


# ---- C08: the chain of contracts the planted-model recovery composes ------------------------------------------
PROPS['C08']['e1'] = [CV1, CV2, FLT + 'rebin', MOD + 'fit', FR + 'linear_regression', FR + 'optimal_scaling', FR + 'chi_squared', SRC + 'get_log_fluxes', EXTN + 'get_av',
                      FI + 'sort', FI + 'keep', FI + 'filter_table', 'sedfitter.write_parameters.write_parameters', 'sedfitter.fit.fit', FINIT]
PROPS['C08']['assumptions'] = COMMON + [T_LOOP, T_EVENT, D_ARGSORT, D_ARGMIN, D_TABLE, D_PICKLE, D_FITS, L_WCS] + A_CONV + [
    'C08 itself (a planted model comes back first, with its A_V, scale and own parameter row) is the COMPOSITION of the contracts listed: each link is proved here again; that the links compose through '
    'real files, text and floating point to an exact recovery is decided by the bounded end-to-end run (planted models incl. mixed wavelength grids)']
PROPS['C08']['explanation'] = ('E1: every link of the chain convolve_model_dir (both formats) -> Filter.rebin -> Models.fit (constrained optimum, chi^2) -> FitInfo.sort (ranking) -> keep -> fit() (one record per '
                               'source) -> filter_table -> write_parameters (which value is written where) is verified again under this property, so a change that breaks a link fails here too. '
                               'E2: planted (model, A_V, scale) recovered end-to-end through real files, both formats, 1/3 apertures, permuted tables, mixed wavelength grids.')


# ---- round 3 of seeded changes: functions on a property's path that were not re-verified under it --------------
# C03: the data-file path (flags and values as parsed from a line); C04: "the distance scaling implied by the reported scale" is the
# scale axis the package readers build (log10 of the trial distance in kpc whatever unit the range is given in)
PROPS['C03']['e1'] = PROPS['C03']['e1'] + [SRC + 'from_ascii']
PROPS['C04']['e1'] = PROPS['C04']['e1'] + [RV1, RV2]
PROPS['C04']['assumptions'] = PROPS['C04']['assumptions'] + [D_ARGMIN, 'A-UNIT: unit model of sedvc/units.py']
PROPS['C04']['explanation'] += (' Models._read_version_1/2: the scale axis is log10 of the trial distance in kpc for a range given in kpc or in pc. E2 also: models with infinite chi^2 '
                                '(rejected at every distance) placed before finite ones.')


# ---- round 4 of seeded changes -----------------------------------------------------------------------------------
# C08: a package read at one fixed distance / with the range in another unit is part of "planted distance recovered";
# C09: the writers iterate results through FitInfoFile.__iter__, whose copies are what keeps the caller's results intact
PROPS['C08']['e1'] = PROPS['C08']['e1'] + [RV1, RV2]
PROPS['C09']['e1'] = PROPS['C09']['e1'] + [FIFN + '__iter__', FIFN + '__init__']
