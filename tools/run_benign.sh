#!/bin/bash
# usage: run_benign.sh [ids...]  -- applies each property-PRESERVING refactor of benign/ to /repo, runs the check of the
# property named in its first line (quick), undoes the change.  Every line must say rc=0 violations=0 (UNDECIDED lines
# are allowed: a contract that can no longer interpret the code is "out of date", not an alarm).
cd "$(dirname "$0")/.."
ids="$@"; [ -z "$ids" ] && ids=$(ls benign | sed 's/\.diff$//')
bak=$(mktemp -d /var/tmp/sedverif_evbak.XXXXXX)
cp -r evidence "$bak/evidence"; [ -d replays ] && cp -r replays "$bak/replays"
restore() { rm -rf evidence replays; cp -r "$bak/evidence" evidence; [ -d "$bak/replays" ] && cp -r "$bak/replays" replays; rm -rf "$bak"; }
trap restore EXIT
for id in $ids; do
  f=$(pwd)/benign/$id.diff
  prop=$(head -1 "$f" | sed 's/.*property=\([A-Z0-9]*\).*/\1/')
  if ! git -C /repo diff --quiet; then echo "/repo is dirty, refusing"; exit 2; fi
  (cd /repo && tail -n +2 "$f" | patch -p1 -s) || { echo "$id: patch does not apply"; git -C /repo checkout -- .; continue; }
  out=$(./check $prop quick 2>&1); rc=$?
  git -C /repo checkout -- .
  v=$(echo "$out" | grep -c '^VIOLATION')
  und=$(echo "$out" | grep -c '^UNDECIDED')
  first=$(echo "$out" | grep -A1 -e '^VIOLATION' -e '^UNDECIDED' | head -2 | tr '\n' ' ' | cut -c1-220)
  echo "$id ($prop) rc=$rc violations=$v undecided=$und :: $first"
done
