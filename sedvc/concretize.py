"""From a refuted obligation to a native failing input (DESIGN.md 6).

A refuted obligation of the symbolic-size verification has its counter-model in "atom space" (sums are named
constants, lengths are symbolic).  To hand the user an input that fails on the REAL code:

  1. the same contract is verified again with every array LENGTH replaced by a small constant (2 or 3), so
     that sums unroll and every array element is a term of its own;
  2. the obligation with the same name is refuted again (if it is not, there is no small counterexample: give up);
     z3's model then assigns a number to every element of every input array and every scalar argument;
  3. the real function is imported from the repository and run on exactly those inputs (objects are built by
     filling the attributes the contract's set-up describes), and its outputs are compared with the outputs the
     verifier predicted in the counter-model.  If they agree, the counterexample is real: the real code, on this
     input, produces the values for which the clause is false.

Anything that does not fit (symbolic unit constants, abstract file contents, opaque strings that matter,
exceptions) makes the function return None and the violation is reported as before, marked
no-failing-input-found.
"""
import fractions
import importlib
import math

import z3

from . import sym, solver
from .sym import Sc, Forall, flatten, to_z3
from .values import ArrRef, ObjRef, ListRef, DictRef, PureArr, Masked, Quantity, Unit, Opaque, is_array
from . import npmodel as npm

SMALL = {'default': 2}


class GiveUp(Exception):
    pass


def _size_symbols(st, args):
    """names of the integer symbols that occur in the shape of some array reachable from the arguments"""
    names = set()
    seen = set()

    def dims(shape):
        for d in shape:
            if isinstance(d, Sc):
                for t in _consts(d.t):
                    names.add(t)

    def walk(v, depth=0):
        if depth > 4:
            return
        if isinstance(v, Quantity):
            walk(v.value, depth)
        elif isinstance(v, ArrRef):
            if v.addr in seen:
                return
            seen.add(v.addr)
            dims(st.heap[v.addr].shape)
        elif isinstance(v, PureArr):
            dims(v.shape)
        elif isinstance(v, ObjRef):
            if v.addr in seen:
                return
            seen.add(v.addr)
            for x in st.heap[v.addr].attrs.values():
                walk(x, depth + 1)
        elif isinstance(v, ListRef):
            for x in st.heap[v.addr].items:
                walk(x, depth + 1)
        elif isinstance(v, DictRef):
            for x in st.heap[v.addr].items.values():
                walk(x, depth + 1)
        elif isinstance(v, (tuple, list)):
            for x in v:
                walk(x, depth + 1)
    for v in args.values():
        walk(v)
    return names


def _consts(t):
    out = set()
    stack = [t]
    while stack:
        x = stack.pop()
        if z3.is_const(x) and x.decl().kind() == z3.Z3_OP_UNINTERPRETED and z3.is_int(x):
            out.add(x.decl().name())
        stack.extend(x.children())
    return out


def _num(model, v):
    """python number of a scalar value under the model"""
    if isinstance(v, bool):
        return v
    if isinstance(v, (int, float, fractions.Fraction)):
        return v
    if isinstance(v, Sc):
        n = model.num(v.t)          # `model` is a RealMath evaluator
        if isinstance(n, float):
            if math.isnan(n) or math.isinf(n):
                raise GiveUp("non-finite value")
            return fractions.Fraction(n)
        return n
    raise GiveUp("not a scalar: %r" % (v,))


def _concrete_shape(model, shape):
    out = []
    for d in shape:
        n = _num(model, d) if isinstance(d, Sc) else d
        if not isinstance(n, int) or n < 0 or n > 6:
            raise GiveUp("array dimension %r is not a small constant" % (d,))
        out.append(n)
    return tuple(out)


def _array(model, st, v):
    shape, fn, kind = npm.info(st, v)
    shape = _concrete_shape(model, shape)

    def rec(prefix, rest):
        if not rest:
            n = _num(model, fn(tuple(prefix)))
            return n if isinstance(n, (bool, int)) else dict(num=str(fractions.Fraction(n)))
        return [rec(prefix + [i], rest[1:]) for i in range(rest[0])]
    return dict(kind=kind, shape=list(shape), data=rec([], list(shape)))


def describe(model, st, v, depth=0):
    """JSON-able description of a symbolic value under the model"""
    if depth > 5:
        raise GiveUp("value too deep")
    if v is None or isinstance(v, (bool, int, str)):
        return v
    if isinstance(v, (float, fractions.Fraction)):
        return dict(num=str(fractions.Fraction(v)))
    if isinstance(v, Sc):
        n = _num(model, v)
        return n if isinstance(n, (bool, int)) else dict(num=str(n))
    if isinstance(v, Quantity):
        sc = v.unit.scale
        if isinstance(sc, Sc):
            sc = _num(model, sc)        # AU / pc / arcsec: the value fixed for the small-scope run
        return dict(quantity=describe(model, st, v.value, depth + 1), unit=dict(name=v.unit.name, scale=str(fractions.Fraction(sc)), dims=dict(v.unit.dims)))
    if isinstance(v, Masked):
        raise GiveUp("mask selection")
    if is_array(v):
        return dict(array=_array(model, st, v))
    if isinstance(v, ObjRef):
        cell = st.heap[v.addr]
        if cell.cls.startswith('<'):
            raise GiveUp("abstract record %s" % cell.cls)
        # `ref`: the same heap cell reached twice is the same native object (aliasing is part of the input)
        return dict(object=cell.cls, ref=v.addr, attrs=dict((k, describe(model, st, x, depth + 1)) for k, x in cell.attrs.items()))
    if isinstance(v, ListRef):
        return dict(list=[describe(model, st, x, depth + 1) for x in st.heap[v.addr].items])
    if isinstance(v, DictRef):
        return dict(dict=dict((str(k), describe(model, st, x, depth + 1)) for k, x in st.heap[v.addr].items.items()))
    if isinstance(v, tuple):
        return dict(tuple=[describe(model, st, x, depth + 1) for x in v])
    if isinstance(v, Opaque):
        return dict(opaque=v.tag, text=str(v.info) if isinstance(v.info, str) else v.tag)
    if type(v).__name__ == 'ClassVal':
        return dict(classref=v.qualname)            # the class a classmethod is called on
    if isinstance(v, Unit):
        sc = _num(model, v.scale) if isinstance(v.scale, Sc) else v.scale
        return dict(unit=dict(name=v.name, scale=str(fractions.Fraction(sc)), dims=dict(v.dims)))
    raise GiveUp("cannot describe %r" % (v,))



class RealMath(object):
    """Evaluate z3 terms of a concretised obligation with REAL mathematics for log10 / ln / 10**x / sqrt (which the
    solver only knows as uninterpreted functions) and the model's values for the input arrays and scalars."""

    def __init__(self, model):
        self.model = model
        self.cache = {}
        self.tight = None       # an inequality between reals evaluated with (nearly) equal sides: a floating-point boundary

    def _cmp(self, t, a, b, op):
        if not (isinstance(a, int) and isinstance(b, int)) and not isinstance(a, bool):
            try:
                if abs(float(a) - float(b)) <= 1e-9 * (1 + abs(float(a)) + abs(float(b))) and a != b or (a == b and not (isinstance(a, int) and isinstance(b, int))):
                    self.tight = self.tight or str(t)[:160]
            except (TypeError, ValueError, OverflowError):
                pass
        return op(a, b)

    def num(self, t):
        k = t.get_id()
        hit = self.cache.get(k)
        if hit is not None and hit[0].eq(t):
            return hit[1]
        v = self._num(t)
        self.cache[k] = (t, v)          # the term is kept alive: z3 re-uses the ids of freed terms
        return v

    def _num(self, t):
        if z3.is_int_value(t):
            return t.as_long()
        if z3.is_rational_value(t):
            return fractions.Fraction(t.numerator_as_long(), t.denominator_as_long())
        if z3.is_true(t):
            return True
        if z3.is_false(t):
            return False
        if not z3.is_app(t):
            raise GiveUp("cannot evaluate %s" % t)
        k = t.decl().kind()
        ch = t.children()
        K = z3
        if k == K.Z3_OP_ADD:
            return sum((self.num(c) for c in ch[1:]), self.num(ch[0]))
        if k == K.Z3_OP_SUB:
            v = self.num(ch[0])
            for c in ch[1:]:
                v = v - self.num(c)
            return v
        if k == K.Z3_OP_UMINUS:
            return -self.num(ch[0])
        if k == K.Z3_OP_MUL:
            v = self.num(ch[0])
            for c in ch[1:]:
                v = v * self.num(c)
            return v
        if k == K.Z3_OP_DIV:
            a, b = self.num(ch[0]), self.num(ch[1])
            if b == 0:
                raise GiveUp("division by zero in the counter-model")
            if isinstance(a, float) or isinstance(b, float):
                return a / b
            return fractions.Fraction(a) / fractions.Fraction(b)
        if k == K.Z3_OP_IDIV:
            a, b = self.num(ch[0]), self.num(ch[1])
            if b == 0:
                raise GiveUp("division by zero")
            return a // b if b > 0 else -(a // -b)
        if k == K.Z3_OP_MOD:
            a, b = self.num(ch[0]), self.num(ch[1])
            return a % abs(b)
        if k == K.Z3_OP_POWER:
            return self.num(ch[0]) ** self.num(ch[1])
        if k == K.Z3_OP_TO_REAL:
            return self.num(ch[0])
        if k == K.Z3_OP_TO_INT:
            return math.floor(self.num(ch[0]))
        if k == K.Z3_OP_ITE:
            return self.num(ch[1]) if self.num(ch[0]) else self.num(ch[2])
        import operator
        if k == K.Z3_OP_LE:
            return self._cmp(t, self.num(ch[0]), self.num(ch[1]), operator.le)
        if k == K.Z3_OP_LT:
            return self._cmp(t, self.num(ch[0]), self.num(ch[1]), operator.lt)
        if k == K.Z3_OP_GE:
            return self._cmp(t, self.num(ch[0]), self.num(ch[1]), operator.ge)
        if k == K.Z3_OP_GT:
            return self._cmp(t, self.num(ch[0]), self.num(ch[1]), operator.gt)
        if k == K.Z3_OP_EQ:
            a, b = self.num(ch[0]), self.num(ch[1])
            if isinstance(a, float) or isinstance(b, float):
                return abs(a - b) <= 1e-9 * (1 + abs(a) + abs(b))
            return a == b
        if k == K.Z3_OP_DISTINCT:
            vals = [self.num(c) for c in ch]
            return len(set(vals)) == len(vals)
        if k == K.Z3_OP_AND:
            return all(self.num(c) for c in ch)
        if k == K.Z3_OP_OR:
            return any(self.num(c) for c in ch)
        if k == K.Z3_OP_NOT:
            return not self.num(ch[0])
        if k == K.Z3_OP_IMPLIES:
            return (not self.num(ch[0])) or self.num(ch[1])
        if k == K.Z3_OP_UNINTERPRETED:
            name = t.decl().name()
            if name in ('log10', 'ln', 'pow10', 'sqrt') and len(ch) == 1:
                x = float(self.num(ch[0]))
                if name == 'log10':
                    if x <= 0:
                        raise GiveUp("log10 of a non-positive number in the counter-model")
                    return math.log10(x)
                if name == 'ln':
                    if x <= 0:
                        raise GiveUp("ln of a non-positive number in the counter-model")
                    return math.log(x)
                if name == 'pow10':
                    return 10. ** x
                if x < 0:
                    raise GiveUp("sqrt of a negative number")
                return math.sqrt(x)
            if name == 'ln10' and not ch:
                return math.log(10.)
            from .extmodels import INTERP_TABLES
            tab = INTERP_TABLES.get(name)
            if tab is not None:
                kind, pf, ff, n = tab
                n = n if isinstance(n, int) else int(self.num(n.t))
                xs = [self._val(pf((k,))) for k in range(n)]
                v = self.num(ch[-1])
                seg = None
                for k in range(n - 1):
                    if xs[k] <= v <= xs[k + 1]:
                        seg = k
                        break
                if kind == 'seg':
                    return seg if seg is not None else 0
                if seg is None:
                    raise GiveUp("interpolation outside the table in the counter-model")
                if kind == '1d':
                    y0, y1 = self._val(ff((seg,))), self._val(ff((seg + 1,)))
                else:
                    i = self.num(ch[0])
                    y0, y1 = self._val(ff((i, seg))), self._val(ff((i, seg + 1)))
                x0, x1 = xs[seg], xs[seg + 1]
                if x1 == x0:
                    return y0
                if any(isinstance(t_, float) for t_ in (v, x0, x1, y0, y1)):
                    v, x0, x1, y0, y1 = (float(t_) for t_ in (v, x0, x1, y0, y1))
                return y0 + (v - x0) * (y1 - y0) / (x1 - x0)
            sa = sym.SUMS.by_const.get(t.get_id())
            if sa is not None:
                n = self.num(sa.n)
                if int(n) > 256:
                    raise GiveUp("a sum over %d terms in the model" % int(n))
                return sum((self.num(z3.substitute(sa.body, (sa.bound, z3.IntVal(j)))) for j in range(int(n))), 0)
            ea = sym.EXTREMA.by_const.get(t.get_id())
            if ea is not None:
                n = int(self.num(ea.n))
                if n > 256:
                    raise GiveUp("an extremum over %d terms in the model" % n)
                vals = [self.num(z3.substitute(ea.body, (ea.bound, z3.IntVal(j)))) for j in range(n)]
                if ea.which == 'any':
                    return any(vals)
                if not vals:
                    raise GiveUp("extremum of an empty range")
                return min(vals) if ea.which == 'min' else max(vals)
            # an input: array element / scalar of the set-up -> the model's value at the evaluated arguments
            args = []
            for c in ch:
                v = self.num(c)
                if isinstance(v, bool):
                    args.append(z3.BoolVal(v))
                elif isinstance(v, int):
                    args.append(z3.IntVal(v) if z3.is_int(c) else z3.RealVal(v))
                else:
                    f = fractions.Fraction(v).limit_denominator(10 ** 12)
                    args.append(z3.RealVal(str(f)))
            r = self.model.eval(t.decl()(*args) if args else t, model_completion=True)
            if z3.is_int_value(r):
                return r.as_long()
            if z3.is_rational_value(r):
                return fractions.Fraction(r.numerator_as_long(), r.denominator_as_long())
            if z3.is_true(r):
                return True
            if z3.is_false(r):
                return False
            if z3.is_algebraic_value(r):
                a = r.approx(20)
                return fractions.Fraction(a.numerator_as_long(), a.denominator_as_long())
            raise GiveUp("no value for %s" % t)
        raise GiveUp("cannot evaluate operator of %s" % t.decl())

    def _val(self, x):
        return self.num(x.t) if isinstance(x, Sc) else x

    def truth(self, f):
        """truth of a formula (bool scalar | Forall with concrete ranges | list)"""
        import itertools
        if f is True or f is False:
            return f
        if isinstance(f, Sc):
            return bool(self.num(f.t))
        if isinstance(f, Forall):
            ranges = []
            for r in f.ranges:
                if r is None or (isinstance(r, str)):
                    raise GiveUp("unbounded quantifier in the clause")
                lo, hi = (0, r) if not isinstance(r, tuple) else r
                lo = lo if isinstance(lo, int) else int(self.num(lo.t))
                hi = hi if isinstance(hi, int) else int(self.num(hi.t))
                if hi - lo > 256:
                    raise GiveUp("a quantifier over %d values in the model" % (hi - lo))
                ranges.append(range(lo, hi))
            return all(self.truth(f.body(*idx)) for idx in itertools.product(*ranges))
        if isinstance(f, (list, tuple)):
            return all(self.truth(x) for x in f)
        if isinstance(f, dict):
            return all(self.truth(x) for x in f.values())
        raise GiveUp("cannot evaluate clause %r" % (f,))


def small_counterexample(name, variant, obligation, repo_root=None, timeout_ms=60000):
    """Re-verify `name` with small concrete array lengths; if `obligation` is refuted again return
    dict(inputs=..., predicted=..., path=..., sizes=...), else None."""
    from . import engine
    from .contractlib import Ctx
    short_ob = obligation.split('[')[0]
    for size in (2, 3):
        try:
            sym.reset_globals()
            it = engine.make_interp(repo_root)
            con = it.contracts[name]
            # pass 1: which integer symbols are array lengths?
            from .state import State
            st0 = State()
            st0.obligations = []
            found = it.repo.find_function(name)
            from .interp import Frame
            c0 = Ctx(it, st0, Frame(found[0], name, found[1]))
            a0 = con.setup(c0) if variant is None else con.setup(c0, variant)
            sizes = dict((n, size) for n in _size_symbols(st0, a0))
            if not sizes:
                return None
            # pass 2: the real thing, with those lengths fixed
            sym.reset_globals()
            it = engine.make_interp(repo_root)
            it.concrete_ints = sizes
            it.keep_states = True
            con = it.contracts[name]
            obs, info = con.verify(it, variant)
        except Exception:
            continue
        # in the small-scope run the astronomical constants have their real values (the symbolic-size proofs hold for
        # every value; a native counterexample needs the ones astropy uses)
        from . import units as _u
        ax = solver.global_axioms() + [_u.AU_M == z3.RealVal('149597870700'), _u.PC_M == z3.RealVal('30856775814913673'),
                                       _u.C_SI == z3.RealVal('299792458')]
        for ob in obs:
            nm = ob.name if '/' in ob.name else '%s/%s' % (name.split('.')[-1], ob.name)
            if not (nm == short_ob or nm.endswith('/' + short_ob.split('/')[-1]) and short_ob.split('/')[-1] in nm):
                continue
            if nm.split('/')[-1] != short_ob.split('/')[-1]:
                continue
            fs = getattr(ob, 'final_state', None)
            if fs is None:
                continue
            try:
                solver.LAST_QUERY[:] = []
                r = solver.prove(ob, timeout_ms=timeout_ms, global_axioms=ax, want_model=False, keep_query=True)
            except Exception:
                continue
            if r.status != 'refuted' or not solver.LAST_QUERY:
                continue
            s = z3.Solver()
            s.set('timeout', timeout_ms)
            for f in solver.LAST_QUERY:
                s.add(f)
            if s.check() != z3.sat:
                continue
            model = RealMath(s.model())
            try:
                # under REAL mathematics the clause must still be false for these inputs
                hyps_ok = all(model.truth(h) for h in ob.pc)
                if not hyps_ok or model.truth(ob.goal):
                    continue
                inputs = dict((k, describe(model, getattr(con, '_entry_state', fs), v)) for k, v in con._entry_args.items())
                if ob.kind in ('pre', 'safe'):
                    # a definedness obligation (precondition of a library call, division, logarithm, index): on the real
                    # code its violation shows as an exception or as nan/inf
                    return dict(inputs=inputs, predicted=dict(status='undefined', result=None, exc=None, args_after={}), path=ob.path, sizes=sizes,
                                function=name, variant=variant, obligation=obligation)
                predicted = dict(result=describe(model, fs, fs.retval) if fs.status == 'return' else None,
                                 status=fs.status, exc=fs.exc[0] if fs.exc else None,
                                 args_after=dict((k, describe(model, fs, v)) for k, v in con._entry_args.items()))
            except GiveUp:
                continue
            return dict(inputs=inputs, predicted=predicted, path=ob.path, sizes=sizes, function=name, variant=variant, obligation=obligation)
    return None


# ---------------------------------------------------------------------------------------------
# native side
# ---------------------------------------------------------------------------------------------

def _astropy_unit(d):
    """an astropy unit with exactly this SI scale and these dimensions (the named unit when astropy knows the name)"""
    from astropy import units as u
    table = {'m': u.m, 's': u.s, 'kg': u.kg, 'rad': u.rad, 'K': u.K}
    base = u.dimensionless_unscaled
    for k, p in d['dims'].items():
        base = base * table[k] ** int(p)
    scale = float(fractions.Fraction(d['scale']))
    for nm in (d.get('name'), {'AU': 'au'}.get(d.get('name'))):
        if not nm:
            continue
        try:
            cand = u.Unit(nm)
            dec = cand.decompose()
            if abs(dec.scale - scale) <= 1e-12 * abs(scale) and cand.is_equivalent(base):
                return cand
        except Exception:
            pass
    return u.Unit(scale * base)


_BUILD_MEMO = {}
NAME_ATTRS = ('_model_names', '_names', 'model_name', 'model_names', 'names')


def build(x):
    """real python value of a description"""
    import numpy as np
    if x is None or isinstance(x, (bool, int, str)):
        return x
    if 'num' in x:
        return float(fractions.Fraction(x['num']))
    if 'array' in x:
        a = x['array']
        kind = a['kind']
        data = _tofloat(a['data'])
        if kind in ('int', 'nat'):
            return np.array(data, dtype=int).reshape(a['shape'])
        if kind == 'bool':
            return np.array(data, dtype=bool).reshape(a['shape'])
        return np.array(data, dtype=float).reshape(a['shape'])
    if 'quantity' in x:
        from astropy import units as u
        return u.Quantity(build(x['quantity']), 1) * _astropy_unit(x['unit']) if False else build(x['quantity']) * _astropy_unit(x['unit'])
    if 'unit' in x and len(x) == 1:
        return _astropy_unit(x['unit'])
    if 'object' in x:
        mod, _, cls = x['object'].rpartition('.')
        klass = getattr(importlib.import_module(mod), cls)
        if x.get('ref') is not None and ('obj', x['ref']) in _BUILD_MEMO:
            return _BUILD_MEMO[('obj', x['ref'])]
        obj = klass.__new__(klass)
        if x.get('ref') is not None:
            _BUILD_MEMO[('obj', x['ref'])] = obj
        for k, v in x['attrs'].items():
            val = build(v)
            if k in NAME_ATTRS and isinstance(val, np.ndarray) and val.dtype.kind in 'iu':
                val = np.array(['m%d' % t for t in val.ravel()], dtype='U12').reshape(val.shape)     # names are integer codes in the verifier
            object.__setattr__(obj, k, val)
        return obj
    if 'classref' in x:
        mod, _, cls = x['classref'].rpartition('.')
        return getattr(importlib.import_module(mod), cls)
    if 'list' in x:
        return [build(v) for v in x['list']]
    if 'tuple' in x:
        return tuple(build(v) for v in x['tuple'])
    if 'dict' in x:
        return dict((k, build(v)) for k, v in x['dict'].items())
    if 'opaque' in x:
        return str(x.get('text') or x['opaque'])
    raise GiveUp("cannot build %r" % (x,))


def _tofloat(d):
    if isinstance(d, list):
        return [_tofloat(v) for v in d]
    if isinstance(d, dict) and 'num' in d:
        return float(fractions.Fraction(d['num']))
    if isinstance(d, (fractions.Fraction,)):
        return float(d)
    if isinstance(d, str):
        return float(fractions.Fraction(d))
    return d


def flat_numbers(x, out, strict_units=True):
    """numbers of a REAL python value, in the order `flat_predicted` lists those of a description"""
    import numpy as np
    if isinstance(x, (str, bytes)):
        t = (x.decode() if isinstance(x, bytes) else x).strip()
        if t[:1] == 'm' and t[1:].lstrip('-').isdigit():
            out.append(float(int(t[1:])))       # a name built from the verifier's integer code (see build)
        return out
    if x is None or isinstance(x, type):
        return out
    try:
        from astropy.units import UnitBase
        if isinstance(x, UnitBase):
            return out              # a unit passed as an argument carries no numbers
    except ImportError:
        pass
    if hasattr(x, 'unit') and hasattr(x, 'value'):
        v = x.to_value(x.unit.si.bases and x.unit.decompose().bases and x.unit) if False else x.value
        scale = float(x.unit.decompose().scale) if hasattr(x.unit, 'decompose') else 1.
        for t in np.ravel(np.asarray(x.value, dtype=float)) * scale:
            out.append(float(t))
        return out
    if isinstance(x, (bool, np.bool_)):
        out.append(float(bool(x)))
        return out
    if isinstance(x, (int, float, np.integer, np.floating)):
        out.append(float(x))
        return out
    if isinstance(x, np.ndarray):
        if x.dtype.kind in 'fiub':
            for t in np.ravel(x):
                out.append(float(t))
        elif x.dtype.kind in 'US':
            for t in np.ravel(x):           # names built from integer codes ('m<code>', see build)
                t = t.decode() if isinstance(t, bytes) else str(t)
                t = t.strip()
                out.append(float(int(t[1:])) if t[:1] == 'm' and t[1:].lstrip('-').isdigit() else float('nan'))
        return out
    if isinstance(x, (list, tuple)):
        for v in x:
            flat_numbers(v, out)
        return out
    if isinstance(x, dict):
        for k in sorted(x):
            flat_numbers(x[k], out)
        return out
    if hasattr(x, '__dict__'):
        for k in sorted(vars(x)):
            flat_numbers(vars(x)[k], out)
        return out
    return out


def flat_predicted(x, out):
    if x is None or isinstance(x, str):
        return out
    if isinstance(x, bool):
        out.append(float(x))
        return out
    if isinstance(x, int):
        out.append(float(x))
        return out
    if 'num' in x:
        out.append(float(fractions.Fraction(x['num'])))
    elif 'array' in x:
        def rec(d):
            if isinstance(d, list):
                for v in d:
                    rec(v)
            elif isinstance(d, dict):
                out.append(float(fractions.Fraction(d['num'])))
            elif isinstance(d, bool):
                out.append(float(d))
            else:
                out.append(float(fractions.Fraction(d)) if not isinstance(d, (int, float)) else float(d))
        rec(x['array']['data'])
    elif 'quantity' in x:
        tmp = []
        flat_predicted(x['quantity'], tmp)
        k = float(fractions.Fraction(x['unit']['scale']))
        out.extend(t * k for t in tmp)
    elif 'object' in x:
        for k in sorted(x['attrs']):
            flat_predicted(x['attrs'][k], out)
    elif 'list' in x or 'tuple' in x:
        for v in x.get('list', x.get('tuple')):
            flat_predicted(v, out)
    elif 'dict' in x:
        for k in sorted(x['dict']):
            flat_predicted(x['dict'][k], out)
    return out


def replay_native(cex, rtol=1e-6, atol=1e-9):
    """Run the real function on the counterexample's inputs.  Returns dict(agrees=bool, detail=str, native=...)"""
    import copy
    import numpy as np
    name = cex['function']
    _BUILD_MEMO.clear()
    inputs = dict((k, build(v)) for k, v in cex['inputs'].items())
    for k, v in list(inputs.items()):
        if 'name' in k and isinstance(v, np.ndarray) and v.dtype.kind in 'iu':
            inputs[k] = np.array(['m%d' % t for t in v.ravel()], dtype='U12').reshape(v.shape)
        elif 'name' in k and isinstance(v, int) and not isinstance(v, bool):
            inputs[k] = 'm%d' % v
    mod, _, fn = name.rpartition('.')
    try:
        target = getattr(importlib.import_module(mod), fn)
        call_args = dict(inputs)
        bound = None
    except (ImportError, ModuleNotFoundError):
        mod2, _, cls = mod.rpartition('.')
        klass = getattr(importlib.import_module(mod2), cls)
        if 'self' in inputs:
            bound = inputs['self']
            attr = klass.__dict__.get(fn)
            if isinstance(attr, property):
                target = lambda **kw: getattr(bound, fn)
            else:
                target = getattr(bound, fn)
            call_args = dict((k, v) for k, v in inputs.items() if k != 'self')
        elif 'cls' in inputs:
            target = getattr(klass, fn)
            call_args = dict((k, v) for k, v in inputs.items() if k != 'cls')
        else:
            raise GiveUp("do not know how to call %s" % name)
    status, exc, result = 'return', None, None
    import io
    import os
    import shutil
    import tempfile
    import contextlib
    # (a function that writes files does so in a scratch directory which is removed straight afterwards)
    here, scratch = os.getcwd(), tempfile.mkdtemp(prefix='sedvc_native_', dir=os.environ.get('SEDVC_SCRATCH') or None)
    import signal
    import sys as _sys

    class _TooLong(Exception):
        pass

    def _alarm(signum, frame):
        raise _TooLong()
    old_stdin, old_handler = _sys.stdin, None
    try:
        os.chdir(scratch)
        _sys.stdin = open(os.devnull)           # a function that asks the user a question gets EOF, not a hang
        try:
            old_handler = signal.signal(signal.SIGALRM, _alarm)
            signal.setitimer(signal.ITIMER_REAL, 60)
        except (ValueError, AttributeError):    # not in the main thread
            old_handler = None
        with contextlib.redirect_stdout(io.StringIO()), np.errstate(all='ignore'):
            result = target(**call_args)
    except _TooLong:
        raise GiveUp('the real function did not finish within 60 s on this input')
    except Exception as e:       # noqa
        status, exc = 'raise', type(e).__name__
    finally:
        try:
            signal.setitimer(signal.ITIMER_REAL, 0)
            if old_handler is not None:
                signal.signal(signal.SIGALRM, old_handler)
        except (ValueError, AttributeError):
            pass
        try:
            _sys.stdin.close()
        except Exception:       # noqa
            pass
        _sys.stdin = old_stdin
        os.chdir(here)
        shutil.rmtree(scratch, ignore_errors=True)
    pred = cex['predicted']
    if pred['status'] == 'undefined':
        nums = []
        if status == 'return':
            flat_numbers(result, nums)
            for k in sorted(inputs):
                flat_numbers(inputs[k], nums)
        bad = status == 'raise' or any(math.isnan(t) or math.isinf(t) for t in nums)
        return dict(agrees=bad, detail=('the real function raised %s' % exc) if status == 'raise' else ('the real function returned nan/inf' if bad else 'the real function returned finite values'),
                    native=dict(status=status, exc=exc))
    if status != pred['status']:
        got = []
        if status == 'return':
            flat_numbers(result, got)
            for k in sorted(inputs):
                flat_numbers(inputs[k], got)
        return dict(agrees=False, detail='the real function %s, the verifier predicted %s' % ('raised ' + str(exc) if status == 'raise' else 'returned', pred['status']),
                    native=dict(status=status, exc=exc), all_numbers=got)
    if status == 'raise':
        return dict(agrees=(exc == pred['exc']) or pred['exc'] in (None, 'Exception'), detail='raised %s' % exc, native=dict(status='raise', exc=exc))
    got, want = [], []
    flat_numbers(result, got)
    flat_predicted(pred['result'], want)
    for k in sorted(inputs):
        flat_numbers(inputs[k], got)
        flat_predicted(pred['args_after'].get(k), want)
    if len(got) != len(want):
        return dict(agrees=False, detail='outputs have another shape than predicted (%d numbers, predicted %d)' % (len(got), len(want)),
                    native=dict(status='return', numbers=got[:50]), all_numbers=got)
    worst = 0.
    for g, w in zip(got, want):
        if math.isnan(g) or math.isinf(g):
            return dict(agrees=False, detail='the real function produced nan/inf (outside A-REAL)')
        worst = max(worst, abs(g - w) / (atol / rtol + abs(w)))
    return dict(agrees=worst <= rtol, detail='largest relative deviation between the real outputs and the verifier\'s counter-model: %.2e' % worst,
                native=dict(status='return', numbers=got[:50]), all_numbers=got)
