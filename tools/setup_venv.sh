#!/bin/sh
# Build the overlay interpreter /verif/.venv offline: /venv's Python 3.12 and
# site-packages (numpy, scipy, astropy, matplotlib, the repo) plus z3-solver,
# cvc5, hypothesis, deal, icontract, jsonschema from the offline wheelhouse.
set -e
HERE="$(cd "$(dirname "$0")/.." && pwd)"
V="$HERE/.venv"
if [ -x "$V/bin/python" ] && "$V/bin/python" -c "import z3, hypothesis, jsonschema, numpy, astropy" 2>/dev/null; then
    exit 0
fi
rm -rf "$V"
/venv/bin/python -m venv --without-pip "$V"
SP="$V/lib/python3.12/site-packages"
echo "import site; site.addsitedir('/venv/lib/python3.12/site-packages')" > "$SP/_base.pth"
PIP_NO_INDEX=1 /venv/bin/python -m pip --python "$V/bin/python" install -q --no-index \
    --find-links /opt/veriftools/wheels z3-solver cvc5 hypothesis deal icontract jsonschema >/dev/null
"$V/bin/python" -c "import z3, hypothesis, jsonschema, numpy, astropy; print('overlay venv ok', z3.get_version_string())"
