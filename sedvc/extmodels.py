"""Models of external (numpy / builtins / astropy.units) functions and of methods on
built-in values.  These are the *assumed dependency contracts* of DESIGN.md 5.2;
each one used in a run is listed in the evidence."""
import z3

from . import npmodel as npm, units, sym
from .sym import (Sc, Unsupported, to_z3, wrap, ite, band, bor, bnot, compare, arith, implies,
                  fresh_int, fresh_real, fresh_bool, fresh_name, Forall, smin, smax, mathfn)
from .values import (ArrRef, ObjRef, ListRef, DictRef, PureArr, Masked, Quantity, Unit, Opaque,
                     ArrCell, ObjCell, ListCell, DictCell, is_array, uf_array)
from .npmodel import Raised

USED = set()


def model(name):
    def deco(f):
        EXT[name] = f
        return f
    return deco


EXT = {}


def _arr(interp, st, v):
    if isinstance(v, ListRef):
        return npm.from_list(st, st.heap[v.addr].items)
    if isinstance(v, (list, tuple)):
        return npm.from_list(st, list(v))
    return v


def _unary(name, f, kind='real', domain=None):
    def m(interp, st, fr, args, kw):
        USED.add(name)
        x = _arr(interp, st, args[0])
        if isinstance(x, Quantity):
            if x.unit.dims:
                raise Raised('UnitTypeError', name)
            x = x.value
        if domain is not None:
            from .interp import safe_domain
            safe_domain(st, x, 'safe.%s_domain' % name.split('.')[-1], domain)
        return npm.elementwise(st, f, x, kind=kind)
    EXT[name] = m


def _log10(x):
    return mathfn('log10', x)


def _ln(x):
    return sym.ln_const(x)


_unary('numpy.log10', _log10, domain=lambda x: compare('>', x, 0))
_unary('numpy.log', _ln, domain=lambda x: compare('>', x, 0))
_unary('numpy.sqrt', lambda x: mathfn('sqrt', x), domain=lambda x: compare('>=', x, 0))
_unary('numpy.isinf', lambda x: False, kind='bool')      # A-REAL: inputs are finite reals
_unary('numpy.isnan', lambda x: False, kind='bool')
_unary('numpy.isfinite', lambda x: True, kind='bool')
_unary('numpy.floor', sym.floor)
_unary('numpy.ceil', sym.ceil)
_unary('numpy.isreal', lambda x: True, kind='bool')


_plain_sqrt = EXT['numpy.sqrt']


@model('numpy.sqrt')
def np_sqrt(interp, st, fr, args, kw):
    x = _arr(interp, st, args[0])
    if isinstance(x, Quantity) and x.unit.dims:
        try:
            unit = units.unit_sqrt(x.unit)
        except ValueError:
            raise Raised('UnitTypeError', 'sqrt')
        return Quantity(_plain_sqrt(interp, st, fr, [x.value], kw), unit)
    return _plain_sqrt(interp, st, fr, args, kw)


@model('numpy.abs')
def np_abs(interp, st, fr, args, kw):
    x = _arr(interp, st, args[0])
    if isinstance(x, Quantity):
        return Quantity(npm.elementwise(st, sym.sabs, x.value), x.unit)
    return npm.elementwise(st, sym.sabs, x)


EXT['numpy.absolute'] = np_abs
EXT['builtins.abs'] = np_abs


@model('numpy.sum')
def np_sum(interp, st, fr, args, kw):
    a = _arr(interp, st, args[0])
    axis = kw.get('axis', args[1] if len(args) > 1 else None)
    return npm.reduce_sum(st, a, axis)


@model('numpy.any')
def np_any(interp, st, fr, args, kw):
    a = _arr(interp, st, args[0])
    if isinstance(a, Quantity):
        a = a.value
    if 'axis' in kw or len(args) > 1:
        raise Unsupported("np.any with axis")
    return npm.reduce_any(st, a)


@model('numpy.all')
def np_all(interp, st, fr, args, kw):
    a = _arr(interp, st, args[0])
    if isinstance(a, Quantity):
        a = a.value
    if 'axis' in kw or len(args) > 1:
        raise Unsupported("np.all with axis")
    return npm.reduce_all(st, a)


EXT['builtins.any'] = np_any
EXT['builtins.all'] = np_all


@model('numpy.min')
def np_min(interp, st, fr, args, kw):
    return npm.reduce_minmax(st, _arr(interp, st, args[0]), 'min')


@model('numpy.max')
def np_max(interp, st, fr, args, kw):
    return npm.reduce_minmax(st, _arr(interp, st, args[0]), 'max')


EXT['numpy.nanmin'] = np_min
EXT['numpy.nanmax'] = np_max


@model('numpy.zeros')
def np_zeros(interp, st, fr, args, kw):
    shape = args[0]
    dt = kw.get('dtype', args[1] if len(args) > 1 else None)
    kind, val = _dtype_kind(dt)
    if isinstance(shape, ListRef):
        shape = tuple(st.heap[shape.addr].items)
    return npm.zeros(shape if isinstance(shape, tuple) else (shape,), val, kind)


def _dtype_kind(dt):
    if dt is None:
        return 'real', 0.0
    name = getattr(dt, 'name', dt)
    if isinstance(name, str):
        if 'bool' in name:
            return 'bool', False
        if 'int' in name:
            return 'int', 0
        if name.startswith(('U', 'S', '<U', '|S')) or 'str' in name:
            return 'int', 0          # strings held in arrays are abstract integer codes; 0 is the empty string
    return 'real', 0.0


@model('numpy.zeros_like')
def np_zeros_like(interp, st, fr, args, kw):
    x = args[0]
    if isinstance(x, Quantity):
        return Quantity(npm.zeros(tuple(npm.shape_of(st, x.value)), 0.0, 'real'), x.unit)
    return npm.zeros(tuple(npm.shape_of(st, x)), 0.0, 'real')


@model('numpy.ones')
def np_ones(interp, st, fr, args, kw):
    shape = args[0]
    return npm.zeros(shape if isinstance(shape, tuple) else (shape,), 1.0, 'real')


@model('numpy.arange')
def np_arange(interp, st, fr, args, kw):
    if len(args) != 1:
        raise Unsupported("np.arange with start/step")
    return npm.arange(args[0])


@model('numpy.array')
def np_array(interp, st, fr, args, kw):
    x = args[0]
    dt = kw.get('dtype', args[1] if len(args) > 1 else None)
    from .interp import SymSeq
    if isinstance(x, SymSeq):
        return interp_parse_seq(st, x, dt)
    if isinstance(x, ListRef):
        return npm.from_list(st, st.heap[x.addr].items)
    if isinstance(x, (list, tuple)):
        return npm.from_list(st, list(x))
    if is_array(x):
        shape, fn, kind = npm.info(st, x)
        return PureArr(shape, fn, kind)
    if isinstance(x, Quantity):
        return x
    if is_table(st, x):
        return x            # the record array of a table: its rows, column by column
    raise Unsupported("np.array(%r)" % (x,))


PARSE_INT = z3.Function('parse_int', z3.IntSort(), z3.IntSort())
PARSE_FLOAT = z3.Function('parse_float', z3.IntSort(), z3.RealSort())


def interp_parse_seq(st, seq, dt):
    """np.array(list of column strings, dtype=int|float): element k is the number
    parsed from that column (uninterpreted function of the column token)."""
    name = getattr(dt, 'name', dt)
    item = seq.item
    if name in ('builtins.int', 'int'):
        return PureArr((seq.length,), lambda idx: Sc(PARSE_INT(to_z3(item(idx[0]).info, 'int'))), 'int')
    if name in ('builtins.float', 'float'):
        return PureArr((seq.length,), lambda idx: Sc(PARSE_FLOAT(to_z3(item(idx[0]).info, 'int'))), 'real')
    raise Unsupported("np.array of strings with dtype %r" % (dt,))


@model('numpy.nonzero')
def np_nonzero(interp, st, fr, args, kw):
    return (WhereIdx(_arr(interp, st, args[0])),)


@model('numpy.where')
def np_where(interp, st, fr, args, kw):
    if len(args) != 1:
        a = [_arr(interp, st, x) for x in args]
        return npm.elementwise(st, ite, *a)
    m = _arr(interp, st, args[0])
    return (WhereIdx(m),)


class WhereIdx(object):
    """np.where(mask)[0]: the increasing sequence of indices where a 1-d mask holds."""

    def __init__(self, mask):
        self.mask = mask


@model('numpy.testing.assert_array_almost_equal_nulp')
def np_assert_nulp(interp, st, fr, args, kw):
    """A-REAL reading of "equal to within a few units in the last place": on normal return the two arrays have
    the same length and are equal element by element; otherwise AssertionError (or ValueError for shapes that
    do not broadcast).  Whether it raises is left open (both continuations are explored)."""
    USED.add('numpy.testing.assert_array_almost_equal_nulp')
    x, y = _arr(interp, st, args[0]), _arr(interp, st, args[1])
    xs, xf, _ = npm.info(st, x)
    ys, yf, _ = npm.info(st, y)
    if len(xs) != 1 or len(ys) != 1:
        raise Unsupported("assert_array_almost_equal_nulp on n-d arrays")
    rs = st.fork()
    rs.assume_pc(Sc(fresh_bool('grids_differ')))
    rs.status = 'raise'
    rs.exc = ('AssertionError', 'arrays differ', 0)
    rs.path += 'D'
    interp._pending_forks.append(rs)
    st.assume([compare('==', xs[0], ys[0]), Forall([xs[0]], lambda k: compare('==', xf((k,)), yf((k,))), name='nulp.equal')])
    return None


@model('numpy.hstack')
def np_hstack(interp, st, fr, args, kw):
    parts = args[0]
    if isinstance(parts, ListRef):
        parts = st.heap[parts.addr].items
    return npm.hstack(st, list(parts))


@model('numpy.isscalar')
def np_isscalar(interp, st, fr, args, kw):
    x = args[0]
    import fractions
    return isinstance(x, (int, float, Sc, bool, str, fractions.Fraction))


@model('numpy.searchsorted')
def np_searchsorted(interp, st, fr, args, kw):
    """np.searchsorted(x, v) (side='left') for x sorted ascending:
    result i in [0, n] with x[k] < v for k < i and x[k] >= v for k >= i."""
    USED.add('numpy.searchsorted')
    x, v = _arr(interp, st, args[0]), args[1]
    side = kw.get('side', 'left')
    if isinstance(x, Quantity):
        if isinstance(v, Quantity):
            v = npm.quantity_to(st, v, x.unit).value
        x = x.value
    elif isinstance(v, Quantity):
        raise Raised('UnitConversionError', 'searchsorted')
    shape, fn, _ = npm.info(st, x)
    n = shape[0]
    lt = '<' if side == 'left' else '<='
    ge = '>=' if side == 'left' else '>'
    # the contract below is only meaningful for a sorted array: that is an obligation
    st.oblige('safe.searchsorted_sorted', Forall([n, n], lambda k, l: implies(compare('<=', k, l), compare('<=', fn((k,)), fn((l,)))), name='sorted'), kind='safe')

    def one(val):
        i = fresh_int('ss')
        st.assume(band(compare('<=', 0, Sc(i)), compare('<=', Sc(i), n)))
        st.assume(Forall([n], lambda k: implies(compare('<', k, Sc(i)), compare(lt, fn((k,)), val)), name='searchsorted.below'))
        st.assume(Forall([n], lambda k: implies(compare('>=', k, Sc(i)), compare(ge, fn((k,)), val)), name='searchsorted.above'))
        return Sc(i)
    if is_array(v):
        vs, vf, _ = npm.info(st, v)
        if len(vs) == 0:
            return one(vf(()))
        # vectorised: an uninterpreted index array with the same contract per element
        name = fresh_name('ssv')
        F = z3.Function(name, z3.IntSort(), z3.IntSort())
        if len(vs) != 1:
            raise Unsupported("searchsorted on n-d values")
        st.assume(Forall([vs[0]], lambda q: band(compare('<=', 0, Sc(F(to_z3(q, 'int')))), compare('<=', Sc(F(to_z3(q, 'int'))), n)), name='searchsorted.range'))
        st.assume(Forall([vs[0], n], lambda q, k: implies(compare('<', k, Sc(F(to_z3(q, 'int')))), compare(lt, fn((k,)), vf((q,)))), name='searchsorted.below'))
        st.assume(Forall([vs[0], n], lambda q, k: implies(compare('>=', k, Sc(F(to_z3(q, 'int')))), compare(ge, fn((k,)), vf((q,)))), name='searchsorted.above'))
        return PureArr((vs[0],), lambda idx: Sc(F(to_z3(idx[0], 'int'))), 'nat')
    return one(v)


@model('numpy.argsort')
def np_argsort(interp, st, fr, args, kw):
    """A permutation `order` of range(n) with x[order[k]] non-decreasing (stable or
    not is left open, as numpy's default quicksort does)."""
    USED.add('numpy.argsort')
    x = _arr(interp, st, args[0])
    if isinstance(x, Quantity):
        x = x.value
    shape, fn, kind = npm.info(st, x)
    if len(shape) != 1:
        raise Unsupported("argsort of n-d array")
    n = shape[0]
    # argsort is a function of its argument: the same values (the same element term) give the same permutation
    probe = Sc(z3.Int('AS!'))
    pv = fn((probe,))
    akey = (str(getattr(n, 't', n)), to_z3(pv, 'real').sexpr() if isinstance(pv, Sc) else repr(pv))
    if akey in _ARGSORT_MEMO:
        return _ARGSORT_MEMO[akey][0]
    name = fresh_name('order')
    O = z3.Function(name, z3.IntSort(), z3.IntSort())
    Oinv = z3.Function(name + '_inv', z3.IntSort(), z3.IntSort())
    o = lambda k: Sc(O(to_z3(k, 'int')))
    oi = lambda k: Sc(Oinv(to_z3(k, 'int')))
    st.assume(Forall([n], lambda k: band(band(compare('<=', 0, o(k)), compare('<', o(k), n)), compare('==', oi(o(k)), k)), name='argsort.perm'))
    st.assume(Forall([n], lambda k: band(band(compare('<=', 0, oi(k)), compare('<', oi(k), n)), compare('==', o(oi(k)), k)), name='argsort.perm_inv'))
    if kind != 'str':
        st.assume(Forall([n, n], lambda a, b: implies(compare('<=', a, b), compare('<=', fn((o(a),)), fn((o(b),)))), name='argsort.sorted'))
    res = PureArr((n,), lambda idx: o(idx[0]), 'nat')
    res_meta = ('argsort', name, x)
    PERMS[name] = (O, Oinv, n)
    if kind != 'str':
        _ARGSORT_MEMO[akey] = (res, st)
    return res


PERMS = {}
_ARGSORT_MEMO = {}
sym.RESET_HOOKS.append(_ARGSORT_MEMO.clear)


@model('numpy.argmin')
def np_argmin(interp, st, fr, args, kw):
    USED.add('numpy.argmin')
    x = _arr(interp, st, args[0])
    axis = kw.get('axis', args[1] if len(args) > 1 else None)
    if isinstance(x, Quantity):
        x = x.value
    shape, fn, _ = npm.info(st, x)
    if len(shape) == 1 and axis in (None, 0, -1):
        n = shape[0]
        b = fresh_int('argmin')
        st.assume(band(compare('<=', 0, Sc(b)), compare('<', Sc(b), n)))
        st.assume(Forall([n], lambda k: compare('<=', fn((Sc(b),)), fn((k,))), name='argmin.min'))
        st.oblige('safe.argmin_nonempty', compare('>', n, 0), kind='safe')
        return Sc(b)
    if len(shape) == 2 and axis in (1, -1):
        m, n = shape
        B = z3.Function(fresh_name('argmin'), z3.IntSort(), z3.IntSort())
        bb = lambda i: Sc(B(to_z3(i, 'int')))
        st.assume(Forall([m], lambda i: band(compare('<=', 0, bb(i)), compare('<', bb(i), n)), name='argmin.range'))
        st.assume(Forall([m, n], lambda i, k: compare('<=', fn((i, bb(i))), fn((i, k))), name='argmin.min'))
        st.oblige('safe.argmin_nonempty', compare('>', n, 0), kind='safe')
        return PureArr((m,), lambda idx: bb(idx[0]), 'nat')
    raise Unsupported("argmin with this shape/axis")


@model('numpy.repeat')
def np_repeat(interp, st, fr, args, kw):
    a, r = args[0], args[1]
    unit = None
    if isinstance(a, Quantity):
        unit, a = a.unit, a.value
    if not is_array(a):
        res = PureArr((r,) if not isinstance(r, tuple) else r, lambda idx: a, 'real')
    else:
        shape, fn, kind = npm.info(st, a)
        total = 1
        for d in shape:
            total = arith('*', total, d)
        # flattened (C order) then each element repeated r times
        if len(shape) == 1:
            res = PureArr((arith('*', shape[0], r),), lambda idx: fn((_div(idx[0], r),)), kind)
        elif len(shape) == 2:
            n2 = shape[1]

            def g(idx):
                q = _div(idx[0], r)
                return fn((_div(q, n2), _mod(q, n2)))
            res = PureArr((arith('*', total, r),), g, kind)
        else:
            raise Unsupported("np.repeat of rank > 2")
    return Quantity(res, unit) if unit is not None else res


def _div(a, b):
    if isinstance(a, int) and isinstance(b, int):
        return a // b
    if isinstance(b, int) and b == 1:
        return a
    return wrap(to_z3(a, 'int') / to_z3(b, 'int'))


def _mod(a, b):
    if isinstance(a, int) and isinstance(b, int):
        return a % b
    if isinstance(b, int) and b == 1:
        return 0
    return wrap(to_z3(a, 'int') % to_z3(b, 'int'))


_PL = {}
sym.RESET_HOOKS.append(_PL.clear)


INTERP_TABLES = {}       # name of a named interpolant -> (kind, abscissae, ordinates, length): its table (for sedvc/concretize.py)
sym.RESET_HOOKS.append(INTERP_TABLES.clear)


def interp_function(st, xp, fp):
    """The piecewise-linear interpolant F of the table (xp, fp) as a named function Real -> Real
    (one symbol per table), with np.interp's dependency contract as hypotheses:
      for every tabulated segment [xp[k], xp[k+1]] containing v:  F(v) = the line through its end points at v;
      every v inside [xp[0], xp[-1]] lies in some tabulated segment (xp strictly increasing)."""
    ps, pf, _ = npm.info(st, xp)
    fs, ff, _ = npm.info(st, fp)
    n = ps[0]
    K0 = Sc(z3.Int('K!'))
    key = '|'.join(str(getattr(v, 't', v)) for v in (pf((K0,)), ff((K0,)))) + '|' + str(getattr(n, 't', n))
    if key not in _PL:
        idx = len(_PL)
        _PL[key] = (z3.Function('PL%d' % idx, z3.RealSort(), z3.RealSort()), z3.Function('PLseg%d' % idx, z3.RealSort(), z3.IntSort()))
    F, SEG = _PL[key]
    INTERP_TABLES[F.name()] = ('1d', pf, ff, n)
    INTERP_TABLES[SEG.name()] = ('seg', pf, ff, n)
    f = lambda v: Sc(F(to_z3(v, 'real')))
    seg = lambda v: Sc(SEG(to_z3(v, 'real')))
    tag = ('pl', key)
    if tag not in st.tags:
        st.tags.add(tag)
        nm1 = arith('-', n, 1)

        def ax(v, k):
            x0, x1 = pf((k,)), pf((arith('+', k, 1),))
            y0, y1 = ff((k,)), ff((arith('+', k, 1),))
            lin = arith('+', y0, arith('*', arith('-', v, x0), arith('/', arith('-', y1, y0), arith('-', x1, x0))))
            return implies(band(compare('<=', x0, v), compare('<=', v, x1)), compare('==', f(v), lin))
        fa = Forall(['real', nm1], ax, name='np.interp.linear')
        st.assume(fa)

        def ex(v):
            k = seg(v)
            inside = band(compare('>=', v, pf((0,))), compare('<=', v, pf((nm1,))))
            y0, y1 = ff((k,)), ff((arith('+', k, 1),))
            between = band(compare('>=', f(v), smin(y0, y1)), compare('<=', f(v), smax(y0, y1)))      # a chord lies between its end values
            return implies(band(inside, compare('>=', n, 2)), band(band(band(compare('<=', 0, k), compare('<', k, nm1)),
                                                                       band(compare('<=', pf((k,)), v), compare('<=', v, pf((arith('+', k, 1),))))), between))
        fb = Forall(['real'], ex, name='np.interp.bracket')
        fb.extra_pos = [{(F.name(), 0)}]        # trigger: wherever the interpolant is applied
        st.assume(fb)
    return f


class Interp1d(object):
    """scipy.interpolate.interp1d(x, y) (linear, along the last axis of y, bounds_error=True)."""

    def __init__(self, x, y, bounds_error=True, fill_value=None):
        self.x, self.y = x, y
        self.bounds_error = bounds_error
        self.fill_value = fill_value


def row_interpolant(st, xp, fp2):
    """Named interpolants of the rows of a 2-d table fp2[i, k] over abscissae xp[k]:
    G(i, v), with the same dependency contract as interp_function for every row."""
    ps, pf, _ = npm.info(st, xp)
    fs, ff, _ = npm.info(st, fp2)
    n = ps[0]
    K0, I0 = Sc(z3.Int('K!')), Sc(z3.Int('I!'))
    key = '|'.join(str(getattr(v, 't', v)) for v in (pf((K0,)), ff((I0, K0)))) + '|' + str(getattr(n, 't', n))
    if key not in _PL:
        idx = len(_PL)
        _PL[key] = (z3.Function('PLrow%d' % idx, z3.IntSort(), z3.RealSort(), z3.RealSort()), z3.Function('PLrowseg%d' % idx, z3.RealSort(), z3.IntSort()))
    G, SEG = _PL[key]
    INTERP_TABLES[G.name()] = ('row', pf, ff, n)
    INTERP_TABLES[SEG.name()] = ('seg', pf, ff, n)
    g = lambda i, v: Sc(G(to_z3(i, 'int'), to_z3(v, 'real')))
    seg = lambda v: Sc(SEG(to_z3(v, 'real')))
    tag = ('plrow', key)
    if tag not in st.tags:
        st.tags.add(tag)
        nm1 = arith('-', n, 1)

        def ax(i, v, k):
            x0, x1 = pf((k,)), pf((arith('+', k, 1),))
            y0, y1 = ff((i, k)), ff((i, arith('+', k, 1)))
            lin = arith('+', y0, arith('*', arith('-', v, x0), arith('/', arith('-', y1, y0), arith('-', x1, x0))))
            return implies(band(compare('<=', x0, v), compare('<=', v, x1)), compare('==', g(i, v), lin))
        st.assume(Forall([fs[0], 'real', nm1], ax, name='interp1d.linear'))

        def ex(v):
            k = seg(v)
            inside = band(compare('>=', v, pf((0,))), compare('<=', v, pf((nm1,))))
            return implies(band(inside, compare('>=', n, 2)), band(band(compare('<=', 0, k), compare('<', k, nm1)),
                                                                  band(compare('<=', pf((k,)), v), compare('<=', v, pf((arith('+', k, 1),))))))
        fb = Forall(['real'], ex, name='interp1d.bracket')
        fb.extra_pos = [{(G.name(), 1)}]
        st.assume(fb)
    return g


@model('scipy.interpolate.interp1d')
def sp_interp1d(interp, st, fr, args, kw):
    USED.add('scipy.interpolate.interp1d')
    x, y = args[0], args[1]
    if isinstance(x, Quantity):
        x = x.value         # interp1d drops units
    if isinstance(y, Quantity):
        y = y.value
    xs, xf, _ = npm.info(st, x)
    inc = Forall([xs[0], xs[0]], lambda k, l: implies(compare('<', k, l), compare('<', xf((k,)), xf((l,)))), name='increasing')
    st.oblige('safe.interp1d_x_increasing', inc, kind='safe')
    st.oblige('safe.interp1d_two_points', compare('>=', xs[0], 2), kind='safe')
    # once obliged, the facts may be used on the rest of the path (assert-then-assume)
    st.assume([inc, compare('>=', xs[0], 2)])
    return Interp1d(x, y, kw.get('bounds_error', True), kw.get('fill_value'))


def call_interp1d(interp, st, fr, f, args, kw):
    xn = args[0]
    if isinstance(xn, Quantity):
        xn = xn.value
    xs, xf, _ = npm.info(st, f.x)
    ys, yf, _ = npm.info(st, f.y)
    n = xs[0]
    nm1 = arith('-', n, 1)
    if len(ys) == 1:
        # a single curve: the named interpolant of the table; outside the table an exception (bounds_error) or the
        # fill value -- modelled as an unspecified number when it is not a number of the reals (nan)
        F = interp_function(st, f.x, f.y)
        qs, qf, _ = npm.info(st, xn)
        if len(qs) != 1:
            raise Unsupported("interp1d called with a non 1-d argument")
        inside = lambda v: band(compare('>=', v, xf((0,))), compare('<=', v, xf((nm1,))))
        if f.bounds_error:
            st.oblige('call.interp1d/pre.inside_table', Forall([qs[0]], lambda q: inside(qf((q,))), name='inside'), kind='pre')
            return PureArr((qs[0],), lambda idx: F(qf((idx[0],))), 'real')
        fill = f.fill_value
        if not isinstance(fill, (int, Sc)) or isinstance(fill, bool):
            U_ = z3.Function(fresh_name('fill'), z3.RealSort(), z3.RealSort())
            fillv = lambda v: Sc(U_(to_z3(v, 'real')))
        else:
            fillv = lambda v: fill
        return PureArr((qs[0],), lambda idx: ite(inside(qf((idx[0],))), F(qf((idx[0],))), fillv(qf((idx[0],)))), 'real')
    if len(ys) != 2:
        raise Unsupported("interp1d over a table of rank %d" % len(ys))
    G = row_interpolant(st, f.x, f.y)
    qs, qf, _ = npm.info(st, xn)
    if len(qs) != 1:
        raise Unsupported("interp1d called with a non 1-d argument")
    if f.bounds_error and getattr(interp, 'interp1d_outside', None) == 'raise':
        # scipy raises ValueError for an argument outside the table: modelled as that exception (the contract of
        # the function under verification says whether it may propagate)
        rs = st.fork()
        rs.assume_pc(Sc(fresh_bool('outside_table')))
        rs.status = 'raise'
        rs.exc = ('ValueError', 'A value in x_new is outside the interpolation range', 0)
        rs.path += 'O'
        interp._pending_forks.append(rs)
        st.assume(Forall([qs[0]], lambda q: band(compare('>=', qf((q,)), xf((0,))), compare('<=', qf((q,)), xf((nm1,)))), name='inside'))
    elif f.bounds_error:
        # outside the table scipy raises ValueError: in-range is an obligation at the call
        st.oblige('call.interp1d/pre.inside_table', Forall([qs[0]], lambda q: band(compare('>=', qf((q,)), xf((0,))), compare('<=', qf((q,)), xf((nm1,)))), name='inside'), kind='pre')
    return PureArr((ys[0], qs[0]), lambda idx: G(idx[0], qf((idx[1],))), 'real')


@model('numpy.interp')
def np_interp(interp, st, fr, args, kw):
    """np.interp(x, xp, fp, left, right) for strictly increasing xp (an obligation): F(x) with F
    the named interpolant of the table (see interp_function); `left`/`right` (default
    fp[0]/fp[-1]) outside the table."""
    USED.add('numpy.interp')
    x, xp, fp = [_arr(interp, st, a) for a in args[:3]]
    left = kw.get('left')
    right = kw.get('right')
    if isinstance(xp, Quantity) or isinstance(x, Quantity):
        if not (isinstance(xp, Quantity) and isinstance(x, Quantity)):
            raise Raised('UnitConversionError', 'np.interp')
        x = npm.quantity_to(st, x, xp.unit).value
        xp = xp.value
    funit = None
    if isinstance(fp, Quantity):
        funit, fp = fp.unit, fp.value
    ps, pf, _ = npm.info(st, xp)
    fs, ff, _ = npm.info(st, fp)
    n = ps[0]
    npm.same_dim(st, n, fs[0])
    nm1 = arith('-', n, 1)
    st.oblige('safe.interp_xp_increasing', Forall([n, n], lambda k, l: implies(compare('<', k, l), compare('<', pf((k,)), pf((l,)))), name='increasing'), kind='safe')
    st.oblige('safe.interp_nonempty', compare('>=', n, 1), kind='safe')
    F = interp_function(st, xp, fp)
    lo = ff((0,)) if left is None else left
    hi = ff((nm1,)) if right is None else right

    def val(v):
        return ite(compare('<', v, pf((0,))), lo, ite(compare('>', v, pf((nm1,))), hi, F(v)))
    if is_array(x):
        xs, xf, _ = npm.info(st, x)
        res = PureArr(tuple(xs), lambda idx: val(xf(tuple(idx))), 'real')
    else:
        res = val(x)
    return Quantity(res, funit) if funit is not None else res


# --- builtins ---------------------------------------------------------------

@model('builtins.len')
def b_len(interp, st, fr, args, kw):
    x = args[0]
    from .interp import SymSeq, TableVal
    if isinstance(x, ListRef):
        return len(st.heap[x.addr].items)
    if isinstance(x, DictRef):
        return len(st.heap[x.addr].items)
    if isinstance(x, (str, tuple, list)):
        return len(x)
    if isinstance(x, SymSeq):
        return x.length
    if isinstance(x, TableVal):
        return x.nrows
    if isinstance(x, ObjRef) and st.heap[x.addr].cls == '<table>':
        return st.heap[x.addr].attrs['@n']
    if isinstance(x, Quantity):
        x = x.value
    if isinstance(x, Masked):
        raise Unsupported("len of a mask selection")
    if is_array(x):
        shape = npm.shape_of(st, x)
        if not shape:
            raise Raised('TypeError', 'len() of unsized object')
        return shape[0]
    raise Unsupported("len(%r)" % (x,))


@model('builtins.range')
def b_range(interp, st, fr, args, kw):
    from .interp import SymRange
    if len(args) == 1:
        return SymRange(0, args[0], 1)
    if len(args) == 2:
        return SymRange(args[0], args[1], 1)
    return SymRange(args[0], args[1], args[2])


@model('builtins.enumerate')
def b_enumerate(interp, st, fr, args, kw):
    from .interp import EnumerateVal
    return EnumerateVal(args[0], kw.get('start', args[1] if len(args) > 1 else 0))


@model('builtins.zip')
def b_zip(interp, st, fr, args, kw):
    from .interp import ZipVal
    return ZipVal(list(args))


@model('builtins.int')
def b_int(interp, st, fr, args, kw):
    x = args[0]
    if isinstance(x, (Opaque, str)):
        raise Unsupported("int() of a string")
    if is_array(x):
        x = npm.info(st, x)[1](())
    return sym.to_int(x)


for _n in ('numpy.int32', 'numpy.int64'):
    EXT[_n] = b_int
EXT['builtins.int'].name = 'builtins.int'


@model('builtins.float')
def b_float(interp, st, fr, args, kw):
    x = args[0]
    if isinstance(x, Opaque) and x.tag == 'token':
        return Sc(PARSE_FLOAT(to_z3(x.info, 'int')))
    if isinstance(x, Opaque):
        return Sc(z3.Real(fresh_name('parsed')))
    if isinstance(x, str):
        return float(x)
    if isinstance(x, bool):
        return int(x)
    if isinstance(x, int):
        return x
    if isinstance(x, Sc) and x.is_int:
        return wrap(z3.ToReal(x.t))
    if is_array(x):
        return npm.info(st, x)[1](())
    return x


EXT['numpy.float64'] = b_float
EXT['numpy.float32'] = b_float


@model('builtins.min')
def b_min(interp, st, fr, args, kw):
    if len(args) == 1:
        return npm.reduce_minmax(st, _arr(interp, st, args[0]), 'min')
    r = args[0]
    for a in args[1:]:
        r = smin(r, a)      # python: min(a, b) keeps a unless b < a
    return r


@model('builtins.max')
def b_max(interp, st, fr, args, kw):
    if len(args) == 1:
        return npm.reduce_minmax(st, _arr(interp, st, args[0]), 'max')
    r = args[0]
    for a in args[1:]:
        r = smax(r, a)
    return r


@model('builtins.slice')
def b_slice(interp, st, fr, args, kw):
    """slice(stop) / slice(start, stop[, step]): the same key object the executor builds for a[start:stop:step]"""
    if kw or not 1 <= len(args) <= 3:
        raise Unsupported('slice() with these arguments')
    vals = [None if a is None else interp._idx(a, st) for a in args]
    if len(vals) == 1:
        return slice(None, vals[0], None)
    return slice(*vals)


@model('builtins.getattr')
def b_getattr(interp, st, fr, args, kw):
    """getattr(obj, name[, default]) for a constant name: the attribute, or the default where Python would raise
    AttributeError (plain numbers and strings have no data attributes the executor knows)."""
    from .interp import Raised
    if len(args) < 2 or not isinstance(args[1], str):
        raise Unsupported('getattr with a computed attribute name')
    obj, name = args[0], args[1]
    try:
        if isinstance(obj, (int, float, str, bool, Sc)) or type(obj).__name__ == 'Fraction' or obj is None:
            raise Raised('AttributeError', name)
        return interp.get_attribute(obj, name, st, fr)
    except Raised as e:
        if e.exc == 'AttributeError' and len(args) > 2:
            return args[2]
        raise


@model('builtins.hasattr')
def b_hasattr(interp, st, fr, args, kw):
    from .interp import Raised
    if len(args) != 2 or not isinstance(args[1], str):
        raise Unsupported('hasattr with a computed attribute name')
    try:
        b_getattr(interp, st, fr, args, kw)
        return True
    except Raised as e:
        if e.exc == 'AttributeError':
            return False
        raise


@model('builtins.isinstance')
def b_isinstance(interp, st, fr, args, kw):
    from .interp import ClassVal, TypeVal, ExtFunc
    x, t = args
    ts = t if isinstance(t, tuple) else (t,)
    for tt in ts:
        name = getattr(tt, 'name', None) or getattr(tt, 'qualname', None)
        if name in ('builtins.str',) and isinstance(x, (str,)):
            return True
        if name in ('builtins.str',) and isinstance(x, Opaque) and x.tag in ('str', 'token'):
            return True
        if name in ('builtins.list',) and isinstance(x, ListRef):
            return True
        if name in ('builtins.tuple',) and isinstance(x, tuple):
            return True
        if name in ('builtins.dict',) and isinstance(x, DictRef):
            return True
        if name in ('builtins.float',) and (isinstance(x, float) or type(x).__name__ == 'Fraction'):
            return True
        if name in ('builtins.int',) and isinstance(x, int) and not isinstance(x, bool):
            return True
        if name == 'numpy.ndarray' and (is_array(x) or isinstance(x, Quantity)):
            return True
        if name == 'astropy.units.Quantity' and isinstance(x, Quantity):
            return True
        if isinstance(tt, ClassVal) and isinstance(x, ObjRef):
            ci = interp.class_of(x, st)
            if ci is not None and any(c.qualname == tt.qualname for c in interp.repo.mro(ci)):
                return True
    return False


@model('builtins.type')
def b_type(interp, st, fr, args, kw):
    from .interp import TypeVal, ClassVal
    x = args[0]
    if isinstance(x, ListRef):
        return TypeVal('builtins.list')
    if isinstance(x, tuple):
        return TypeVal('builtins.tuple')
    if isinstance(x, str):
        return TypeVal('builtins.str')
    if is_array(x):
        return TypeVal('numpy.ndarray')
    if isinstance(x, Quantity):
        return TypeVal('astropy.units.Quantity')
    if isinstance(x, ObjRef):
        return TypeVal(st.heap[x.addr].cls)
    if x is None:
        return TypeVal('NoneType')
    if isinstance(x, (float,)) or type(x).__name__ == 'Fraction' or (isinstance(x, Sc) and x.is_real):
        return TypeVal('builtins.float')
    if isinstance(x, bool):
        return TypeVal('builtins.bool')
    if isinstance(x, int) or (isinstance(x, Sc) and x.is_int):
        return TypeVal('builtins.int')
    return TypeVal('?')


for _n, _t in (('builtins.list', 'builtins.list'), ('builtins.tuple', 'builtins.tuple'), ('builtins.str', 'builtins.str'),
               ('builtins.dict', 'builtins.dict')):
    pass


@model('builtins.list')
def b_list(interp, st, fr, args, kw):
    if not args:
        return st.alloc_list([])
    seq = interp.concrete_iter(args[0], st)
    if seq is None:
        raise Unsupported("list() of a symbolic iterable")
    return st.alloc_list(seq)


@model('builtins.tuple')
def b_tuple(interp, st, fr, args, kw):
    seq = interp.concrete_iter(args[0], st) if args else []
    if seq is None:
        raise Unsupported("tuple() of a symbolic iterable")
    return tuple(seq)


@model('builtins.str')
def b_str(interp, st, fr, args, kw):
    if args and isinstance(args[0], str):
        return args[0]
    return Opaque('str')


@model('builtins.sorted')
def b_sorted(interp, st, fr, args, kw):
    return Opaque('sorted', args[0])


@model('builtins.bool')
def b_bool(interp, st, fr, args, kw):
    return interp.truth(args[0], st)


@model('builtins.open')
def b_open(interp, st, fr, args, kw):
    from . import files
    mode = args[1] if len(args) > 1 else kw.get('mode', 'r')
    if isinstance(mode, str):
        return files.open_file(st, args[0], mode)
    return Opaque('file', (args[0], mode))


@model('pickle.dump')
def pk_dump(interp, st, fr, args, kw):
    from . import files
    return files.pickle_dump(interp, st, args[0], args[1])


@model('pickle.load')
def pk_load(interp, st, fr, args, kw):
    from . import files
    return files.pickle_load(interp, st, args[0])


EXT['cPickle.dump'] = pk_dump
EXT['cPickle.load'] = pk_load


@model('builtins.input')
def b_input(interp, st, fr, args, kw):
    return Opaque('str')


@model('os.path.exists')
def os_exists(interp, st, fr, args, kw):
    return Sc(z3.Bool(fresh_name('exists')))


@model('os.path.join')
def os_join(interp, st, fr, args, kw):
    if all(isinstance(a, str) for a in args):
        return '/'.join(args)
    return Opaque('str', ('join',) + tuple(args))


@model('os.path.basename')
def os_basename(interp, st, fr, args, kw):
    return Opaque('str')


@model('os.mkdir')
def os_mkdir(interp, st, fr, args, kw):
    return None


@model('os.remove')
def os_remove(interp, st, fr, args, kw):
    st.events.append(('remove', args[0]))
    return None


@model('sys.exit')
def sys_exit(interp, st, fr, args, kw):
    raise Raised('SystemExit')


@model('copy.deepcopy')
def copy_deepcopy(interp, st, fr, args, kw):
    memo = {}

    def clone(v):
        if isinstance(v, Quantity):
            return Quantity(clone(v.value), v.unit)
        if isinstance(v, ArrRef):
            if ('a', v.addr) in memo:
                return ArrRef(memo[('a', v.addr)], v.view)
            shape, fn, kind = npm.info(st, ArrRef(v.addr))
            new = st.alloc_arr(shape, fn, kind)
            memo[('a', v.addr)] = new.addr
            return ArrRef(new.addr, v.view)
        if isinstance(v, PureArr):
            return v
        if isinstance(v, ObjRef):
            if ('o', v.addr) in memo:
                return ObjRef(memo[('o', v.addr)])
            cell = st.heap[v.addr]
            new = st.alloc_obj(cell.cls, {})
            memo[('o', v.addr)] = new.addr
            for k, x in cell.attrs.items():
                st.set_attr(new, k, clone(x))
            return new
        if isinstance(v, ListRef):
            return st.alloc_list([clone(x) for x in st.heap[v.addr].items])
        if isinstance(v, tuple):
            return tuple(clone(x) for x in v)
        return v
    return clone(args[0])


class SpecCallable(object):
    """A callable given to the function under verification by the contract (e.g. the
    extinction law handed to SED.scale_to_av)."""

    def __init__(self, fn):
        self.fn = fn


# --- astropy.units ------------------------------------------------------------

@model('astropy.units.Quantity')
def u_quantity(interp, st, fr, args, kw):
    v, unit = args[0], (args[1] if len(args) > 1 else kw.get('unit'))
    if isinstance(v, Quantity):
        return npm.quantity_to(st, v, unit) if unit is not None else v
    return Quantity(_arr(interp, st, v), unit)


@model('astropy.units.spectral')
def u_spectral(interp, st, fr, args, kw):
    return 'spectral'


@model('astropy.units.spectral_density')
def u_spectral_density(interp, st, fr, args, kw):
    return ('spectral_density', args[0])


# --- methods on values -----------------------------------------------------------

def call_method(interp, st, fr, obj, name, args, kw):
    from .interp import SymSeq, TableVal
    if isinstance(obj, Quantity):
        return quantity_method(interp, st, fr, obj, name, args, kw)
    if isinstance(obj, Sc) and obj.is_int and name == 'strip' and not args:
        return strip_code(obj)          # a name code: the code of the stripped name
    if isinstance(obj, Unit):
        if name == 'is_equivalent':
            return units.is_equivalent(obj, args[0])
        if name == 'to':
            return npm.unit_factor(obj, args[0])
        if name == 'to_string':
            return Opaque('unitstr', obj)
        raise Unsupported("Unit.%s" % name)
    if is_array(obj):
        return array_method(interp, st, fr, obj, name, args, kw)
    if isinstance(obj, ListRef):
        items = st.heap[obj.addr].items
        if name == 'append':
            st.heap[obj.addr] = ListCell(items + [st.box(args[0])])
            return None
        if name == 'extend':
            st.heap[obj.addr] = ListCell(items + interp.concrete_iter(args[0], st))
            return None
        if name == 'index':
            return items.index(args[0])
        raise Unsupported("list.%s" % name)
    if isinstance(obj, DictRef):
        items = st.heap[obj.addr].items
        if name == 'get':
            k = interp._dkey(args[0])
            return items.get(k, args[1] if len(args) > 1 else None)
        if name == 'keys':
            return st.alloc_list(list(items.keys()))
        if name == 'values':
            return st.alloc_list(list(items.values()))
        if name == 'items':
            return st.alloc_list([(k, v) for k, v in items.items()])
        raise Unsupported("dict.%s" % name)
    if isinstance(obj, str):
        if name == 'split' and not args:
            return st.alloc_list(obj.split())
        if name in ('strip', 'lower', 'upper', 'center', 'format', 'replace', 'startswith', 'endswith', 'join'):
            try:
                if all(isinstance(a, (str, int, float)) for a in args) and not kw:
                    return getattr(obj, name)(*args)
            except Exception:
                pass
            if name == 'format':
                return Opaque('format', (obj, tuple(args)))     # the template and its arguments are kept
            if name == 'join' and args:
                seq = interp.concrete_iter(args[0], st)
                if seq is not None:
                    return Opaque('str', ('join', obj, tuple(seq)))     # the pieces are kept, in order
            return Opaque('str')
        raise Unsupported("str.%s" % name)
    if isinstance(obj, ObjRef) and st.heap[obj.addr].cls == '<table>':
        return table_method(interp, st, fr, obj, name, args, kw)
    if isinstance(obj, ObjRef) and st.heap[obj.addr].cls.startswith('<') and st.heap[obj.addr].cls != '<file>':
        # abstract record objects built by contract set-ups (e.g. the content of a FITS file):
        # method m is the attribute '%m' holding a SpecCallable
        fn = st.heap[obj.addr].attrs.get('%' + name)
        if fn is None:
            raise Unsupported("method %s of abstract record %s" % (name, st.heap[obj.addr].cls))
        return fn.fn(interp, st, args, kw)
    if isinstance(obj, ObjRef) and st.heap[obj.addr].cls == '<file>':
        from . import files
        if name == 'close':
            st.events.append(('close', obj.addr))
            st.set_attr(obj, 'closed', True)
            return None
        if name == 'readline':
            return files.readline(st, obj)
        if name == 'write':
            st.events.append(('file.write', obj.addr, args[0] if args else None))
            return None
        raise Unsupported("file.%s" % name)
    if isinstance(obj, Opaque):
        return opaque_method(interp, st, fr, obj, name, args, kw)
    if isinstance(obj, SymSeq):
        raise Unsupported("method %s of a symbolic sequence" % name)
    raise Unsupported("method %s of %r" % (name, obj))


LINE_TOKENS = None


def opaque_method(interp, st, fr, obj, name, args, kw):
    from .interp import SymSeq
    if obj.tag == 'line' and name == 'split' and not args:
        # tokens of a data line: symbolic count L >= 0, token k identified by its position
        L = obj.info
        return SymSeq(Sc(L), lambda k: Opaque('token', k), 'str')
    if obj.tag in ('str', 'token', 'unitstr', 'item') and name in ('strip', 'lower', 'upper', 'center', 'format', 'split', 'astype'):
        return Opaque('str', (name, obj))
    if obj.tag == 'file':
        if name == 'readline':
            return Opaque('line', z3.Int(fresh_name('L')))
        if name == 'write':
            st.events.append(('file.write', obj, args[0] if args else None))
            return None
        if name == 'close':
            st.events.append(('file.close', obj))
            return None
    if obj.tag in ('ProgressBar', 'Timer', 'log'):
        return None
    raise Unsupported("method %s of opaque %s" % (name, obj.tag))


def quantity_method(interp, st, fr, q, name, args, kw):
    if name == 'to':
        unit = args[0]
        eq = kw.get('equivalencies', args[1] if len(args) > 1 else None)
        return npm.quantity_to(st, q, unit, eq)
    if name in ('min', 'max'):
        return Quantity(npm.reduce_minmax(st, q.value, name), q.unit)
    if name in ('swapaxes', 'copy', 'reshape', 'astype', 'sum', 'diagonal'):
        r = array_method(interp, st, fr, q.value, name, args, kw)
        return Quantity(r, q.unit)
    if name == 'searchsorted':
        return EXT['numpy.searchsorted'](interp, st, fr, [q] + list(args), kw)
    raise Unsupported("Quantity.%s" % name)


def array_method(interp, st, fr, a, name, args, kw):
    if name == 'astype':
        return a
    if name == 'copy':
        shape, fn, kind = npm.info(st, a)
        return PureArr(shape, fn, kind)
    if name in ('min', 'max'):
        return npm.reduce_minmax(st, a, name)
    if name == 'sum':
        return npm.reduce_sum(st, a, kw.get('axis', args[0] if args else None))
    if name == 'any':
        return npm.reduce_any(st, a)
    if name == 'all':
        return npm.reduce_all(st, a)
    if name == 'searchsorted':
        return EXT['numpy.searchsorted'](interp, st, fr, [a] + list(args), kw)
    if name == 'swapaxes':
        shape, fn, kind = npm.info(st, a)
        i, j = args
        perm = list(range(len(shape)))
        perm[i], perm[j] = perm[j], perm[i]
        return PureArr(tuple(shape[p] for p in perm), lambda idx: fn(tuple(idx[perm.index(k)] for k in range(len(shape)))), kind)
    if name == 'reshape':
        shape, fn, kind = npm.info(st, a)
        new = args[0] if len(args) == 1 and isinstance(args[0], tuple) else tuple(args)
        if len(shape) == 1 and len(new) == 2:
            n2 = new[1]
            tot = arith('*', new[0], new[1])
            npm.same_dim(st, shape[0], tot)
            return PureArr(new, lambda idx: fn((arith('+', arith('*', idx[0], n2), idx[1]),)), kind)
        if len(shape) == 1 and len(new) == 1:
            return PureArr(new, fn, kind)
        raise Unsupported("reshape %r -> %r" % (shape, new))
    if name == 'diagonal':
        shape, fn, kind = npm.info(st, a)
        if len(shape) != 2:
            raise Unsupported("diagonal of non 2-d")
        return PureArr((smin(shape[0], shape[1]),), lambda idx: fn((idx[0], idx[0])), kind)
    if name == 'sort':
        # in-place sort of a 1-d array: afterwards the cell holds SOME non-decreasing array of the same length
        # (over-approximation: which permutation of the old values it is, is not tracked)
        if not isinstance(a, ArrRef) or a.view is not None:
            raise Unsupported("in-place sort of a view / temporary")
        shape, fn, kind = npm.info(st, a)
        if len(shape) != 1:
            raise Unsupported("in-place sort of an n-d array")
        new = uf_array(fresh_name('sorted'), shape, kind, fresh=True)
        st.heap[a.addr] = ArrCell(shape, new.fn, kind)
        nf = new.fn
        st.assume(Forall([shape[0], shape[0]], lambda k, l: implies(compare('<=', k, l), compare('<=', nf((k,)), nf((l,)))), name='sorted in place'))
        return None
    raise Unsupported("ndarray.%s" % name)


# --- numpy.char ------------------------------------------------------------------------------
# Names are abstract codes (integers); stripping is a named function of the code (STRIP(code) is the
# code of the stripped string), idempotent.
STRIP = z3.Function('STRIP', z3.IntSort(), z3.IntSort())


def strip_code(x):
    return Sc(STRIP(to_z3(x, 'int')))


def strip_axioms():
    k = z3.Int('k!strip')
    return [z3.ForAll([k], STRIP(STRIP(k)) == STRIP(k), patterns=[STRIP(STRIP(k))])]


_FMT = {}


def format_code(template, args):
    """The (abstract, integer) code of the string template.format(*args) for integer arguments."""
    key = (template, len(args))
    if key not in _FMT:
        import hashlib
        nm = 'FMT[%s]' % hashlib.md5(template.encode()).hexdigest()[:8]
        _FMT[key] = z3.Function(nm, *([z3.IntSort()] * len(args) + [z3.IntSort()]))
    return Sc(_FMT[key](*[to_z3(a, 'int') for a in args]))


@model('numpy.char.strip')
def np_char_strip(interp, st, fr, args, kw):
    USED.add('numpy.char.strip')
    a = _arr(interp, st, args[0])
    shape, fn, kind = npm.info(st, a)
    return PureArr(shape, lambda idx: strip_code(fn(idx)), kind)


# --- astropy Table (rows as a unit) -------------------------------------------------------------
# A table is a heap record '<table>' with attrs: '@cols' (dict name -> array value), '@n' (row count),
# '@origin' (row -> row of the ROOT table it was taken from, a ghost map), '@root' (an id), 'columns',
# 'dtype'.  Dependency contract (assumed): boolean selection keeps the selected rows in order, integer
# selection gathers whole rows; both raise IndexError instead of returning rows that do not exist.

_TABLE_ROOT = [0]


def table_new(st, cols, nrows, origin=None, root=None):
    if root is None:
        _TABLE_ROOT[0] += 1
        root = _TABLE_ROOT[0]
    cols = dict((k, st.box(v)) for k, v in cols.items())
    names = tuple(cols)
    dt = st.alloc_obj('<dtype>', {'names': names})
    return st.alloc_obj('<table>', {'@cols': cols, '@n': nrows, '@origin': origin or (lambda k: k), '@root': root,
                                    'columns': _columns_view(st, names), 'colnames': names, 'dtype': dt})


def _columns_view(st, names):
    """Table.columns: an ordered mapping name -> column (iteration, `in`, .keys() give the names)."""
    return st.alloc_dict(dict((nm, Opaque('column', nm)) for nm in names))


def is_table(st, v):
    return isinstance(v, ObjRef) and st.heap[v.addr].cls == '<table>'


def table_getitem(interp, st, t, key):
    cell = st.heap[t.addr]
    cols, n, origin = cell.attrs['@cols'], cell.attrs['@n'], cell.attrs['@origin']
    if isinstance(key, str):
        if key not in cols:
            raise Raised('KeyError', key)
        return cols[key]
    if isinstance(key, (int, Sc)) and not isinstance(key, bool):
        # one row: a record giving, for every column, the entry at that row
        i = npm.norm_index(st, key, n)
        row = {}
        for name, col in cols.items():
            inner = col.value if isinstance(col, Quantity) else col
            v = npm.getitem(st, inner, i) if True else None
            row[name] = Quantity(v, col.unit) if isinstance(col, Quantity) else v
        return st.alloc_obj('<row>', {'[]': row, '@index': i, '@table': t})
    if not is_array(key):
        raise Unsupported("table subscript %r" % (key,))
    kshape, kfn, kind = npm.info(st, key)
    if len(kshape) != 1:
        raise Unsupported("table row selection with an n-d key")
    if kind == 'bool':
        npm.same_dim(st, kshape[0], n)
        nm = fresh_name('sel')
        NTH = z3.Function(nm + '_nth', z3.IntSort(), z3.IntSort())
        RANK = z3.Function(nm + '_rank', z3.IntSort(), z3.IntSort())
        cnt = Sc(z3.Int(nm + '_count'))
        nth = lambda k: Sc(NTH(to_z3(k, 'int')))
        rank = lambda i: Sc(RANK(to_z3(i, 'int')))
        st.assume([compare('<=', 0, cnt), compare('<=', cnt, n)])
        st.assume(Forall([cnt], lambda k: band(band(compare('<=', 0, nth(k)), compare('<', nth(k), n)), band(kfn((nth(k),)), compare('==', rank(nth(k)), k))), name='select.nth'))
        st.assume(Forall([n], lambda i: implies(kfn((i,)), band(band(compare('<=', 0, rank(i)), compare('<', rank(i), cnt)), compare('==', nth(rank(i)), i))), name='select.rank'))
        st.assume(Forall([cnt, cnt], lambda k, l: implies(compare('<', k, l), compare('<', nth(k), nth(l))), name='select.order'))
        new_cols = {}
        for name, col in cols.items():
            cshape, cfn, ckind = npm.info(st, col)
            new_cols[name] = PureArr((cnt,) + tuple(cshape[1:]), (lambda cfn: lambda idx: cfn((nth(idx[0]),) + tuple(idx[1:])))(cfn), ckind)
        return table_new(st, new_cols, cnt, (lambda origin: lambda k: origin(nth(k)))(origin), cell.attrs['@root'])
    # integer gather: numpy raises IndexError for a row that does not exist
    m = kshape[0]
    rs = st.fork()
    rs.assume_pc(Sc(fresh_bool('row_out_of_range')))
    rs.status = 'raise'
    rs.exc = ('IndexError', 'index out of bounds for the table')
    rs.path += 'I'
    interp._pending_forks.append(rs)
    st.assume(Forall([m], lambda k: band(compare('<=', 0, kfn((k,))), compare('<', kfn((k,)), n)), name='gather.in_range'))
    new_cols = {}
    for name, col in cols.items():
        cshape, cfn, ckind = npm.info(st, col)
        new_cols[name] = PureArr((m,) + tuple(cshape[1:]), (lambda cfn: lambda idx: cfn((kfn((idx[0],)),) + tuple(idx[1:])))(cfn), ckind)
    return table_new(st, new_cols, m, (lambda origin: lambda k: origin(kfn((k,))))(origin), cell.attrs['@root'])


def table_setitem(interp, st, t, key, val):
    if not isinstance(key, str):
        raise Unsupported("table store with key %r" % (key,))
    cell = st.heap[t.addr]
    cols = dict(cell.attrs['@cols'])
    val = _arr(interp, st, val)
    inner = val.value if isinstance(val, Quantity) else val
    n = cell.attrs['@n']
    if is_array(inner):
        if n is None:
            n = npm.shape_of(st, inner)[0]
        else:
            npm.same_dim(st, npm.shape_of(st, inner)[0], n)
    if isinstance(val, ArrRef):
        # the table stores its own copy of the column
        shape, fn, kind = npm.info(st, val)
        val = PureArr(shape, fn, kind)
    elif isinstance(val, Quantity) and isinstance(val.value, ArrRef):
        shape, fn, kind = npm.info(st, val.value)
        val = Quantity(PureArr(shape, fn, kind), val.unit)
    cols[key] = st.box(val)
    attrs = dict(cell.attrs)
    attrs['@cols'] = cols
    attrs['@n'] = n
    attrs['colnames'] = tuple(cols)
    attrs['columns'] = _columns_view(st, tuple(cols))
    attrs['dtype'] = st.alloc_obj('<dtype>', {'names': tuple(cols)})
    st.heap[t.addr] = ObjCell('<table>', attrs)


@model('numpy.isin')
def np_isin(interp, st, fr, args, kw):
    """isin(a, b)[i]  <=>  exists k: b[k] == a[i]   (named predicate with a witness function)."""
    USED.add('numpy.isin')
    a, b = _arr(interp, st, args[0]), _arr(interp, st, args[1])
    ashape, afn, _ = npm.info(st, a)
    bshape, bfn, _ = npm.info(st, b)
    if len(ashape) != 1 or len(bshape) != 1:
        raise Unsupported("isin of n-d arrays")
    nm = fresh_name('isin')
    IN = z3.Function(nm, z3.IntSort(), z3.BoolSort())
    WIT = z3.Function(nm + '_wit', z3.IntSort(), z3.IntSort())
    isin = lambda i: Sc(IN(to_z3(i, 'int')))
    wit = lambda i: Sc(WIT(to_z3(i, 'int')))
    st.assume(Forall([ashape[0], bshape[0]], lambda i, k: implies(compare('==', bfn((k,)), afn((i,))), isin(i)), name='isin.intro'))
    st.assume(Forall([ashape[0]], lambda i: implies(isin(i), band(band(compare('<=', 0, wit(i)), compare('<', wit(i), bshape[0])), compare('==', bfn((wit(i),)), afn((i,))))), name='isin.elim'))
    return PureArr((ashape[0],), lambda idx: isin(idx[0]), 'bool')


@model('numpy.logspace')
def np_logspace(interp, st, fr, args, kw):
    """np.logspace(a, b, n): n >= 1 points 10**(a + k (b - a)/(n - 1)); the end points are 10**a and 10**b."""
    USED.add('numpy.logspace')
    a, b = args[0], args[1]
    n = args[2] if len(args) > 2 else kw.get('num', 50)
    from .sym import mathfn

    def expo(k):
        return arith('+', a, arith('/', arith('*', k, arith('-', b, a)), arith('-', n, 1)))
    fn = lambda idx: ite(compare('==', idx[0], arith('-', n, 1)), ite(compare('==', n, 1), mathfn('pow10', a), mathfn('pow10', b)), mathfn('pow10', expo(idx[0])))
    # log10 is the inverse of 10**x on the points of the grid
    st.assume(Forall([n], lambda k: compare('==', mathfn('log10', fn((k,))), ite(compare('==', k, arith('-', n, 1)), ite(compare('==', n, 1), a, b), expo(k))), name='logspace.log10'))
    for e in (a, b):
        # 10**log10(t) = t for t > 0 (used when the end points are given as log10 of the range limits)
        if isinstance(e, Sc) and z3.is_app(e.t) and e.t.decl().name() == 'log10':
            t = Sc(e.t.arg(0))
            st.assume(implies(compare('>', t, 0), compare('==', mathfn('pow10', e), t)))
    return PureArr((n,), fn, 'real')


def table_method(interp, st, fr, t, name, args, kw):
    cell = st.heap[t.addr]
    if name == 'sort':
        # Table.sort(key): every column is re-ordered by np.argsort(column key) (assumed dependency contract)
        key = args[0]
        cols = cell.attrs['@cols']
        if key not in cols:
            raise Raised('KeyError', key)
        order = np_argsort(interp, st, fr, [cols[key]], {})
        oshape, ofn, _ = npm.info(st, order)
        new_cols = {}
        for nm, col in cols.items():
            inner = col.value if isinstance(col, Quantity) else col
            cshape, cfn, ckind = npm.info(st, inner)
            g = PureArr(tuple(cshape), (lambda cfn: lambda idx: cfn((ofn((idx[0],)),) + tuple(idx[1:])))(cfn), ckind)
            new_cols[nm] = st.box(Quantity(g, col.unit) if isinstance(col, Quantity) else g)
        attrs = dict(cell.attrs)
        attrs['@cols'] = new_cols
        origin = cell.attrs['@origin']
        attrs['@origin'] = lambda k: origin(ofn((k,)))
        st.heap[t.addr] = ObjCell('<table>', attrs)
        return None
    raise Unsupported("Table.%s" % name)


def _new_hdu(st, data=None):
    cols = []
    if data is not None and is_table(st, data):
        cols = [st.alloc_obj('<column>', {'unit': None, 'name': nm}) for nm in st.heap[data.addr].attrs['@cols']]
    return st.alloc_obj('<hdu>', {'data': data, 'header': st.alloc_dict({}), 'columns': st.alloc_list(cols), 'name': None})


@model('astropy.io.fits.PrimaryHDU')
def fits_primary(interp, st, fr, args, kw):
    return _new_hdu(st, kw.get('data', args[0] if args else None))


@model('astropy.io.fits.BinTableHDU')
def fits_bintable(interp, st, fr, args, kw):
    h = _new_hdu(st, kw.get('data', args[0] if args else None))
    if 'name' in kw:
        st.set_attr(h, 'name', kw['name'])
    return h


@model('astropy.io.fits.ImageHDU')
def fits_image(interp, st, fr, args, kw):
    return _new_hdu(st, kw.get('data', args[0] if args else None))


@model('astropy.io.fits.HDUList')
def fits_hdulist(interp, st, fr, args, kw):
    items = args[0] if args else st.alloc_list([])
    if isinstance(items, (list, tuple)):
        items = st.alloc_list(list(items))
    def writeto(interp_, st_, a_, kw_):
        st_.events.append(('fits.writeto', a_[0] if a_ else kw_.get('name'), list(st_.heap[items.addr].items), dict(kw_)))
        return None
    def append(interp_, st_, a_, kw_):
        st_.heap[items.addr] = ListCell(st_.heap[items.addr].items + [a_[0]])
        return None
    return st.alloc_obj('<hdulist>', {'items': items, '%writeto': SpecCallable(writeto), '%append': SpecCallable(append)})


@model('astropy.table.Table')
def astropy_table(interp, st, fr, args, kw):
    if args or kw:
        raise Unsupported("Table(...) with arguments")
    return table_new(st, {}, None)


@model('numpy.unique')
def np_unique(interp, st, fr, args, kw):
    """sorted distinct values: modelled only as an array of unknown length (not used by the contracts so far)"""
    n = Sc(z3.Int(fresh_name('n_unique')))
    st.assume(compare('>=', n, 0))
    return st.box(uf_array(fresh_name('unique'), (n,), 'real', fresh=True))


@model('numpy.column_stack')
def np_column_stack(interp, st, fr, args, kw):
    parts = args[0]
    if isinstance(parts, ListRef):
        parts = st.heap[parts.addr].items
    return Opaque('column_stack', tuple(parts))        # the columns are kept (matplotlib input)


@model('matplotlib.collections.LineCollection')
def mpl_linecollection(interp, st, fr, args, kw):
    return Opaque('LineCollection', (args[0] if args else None, kw.get('colors')))


EXT['numpy.asarray'] = EXT['numpy.array']
EXT['numpy.asanyarray'] = EXT['numpy.array']


@model('numpy.sort')
def np_sort(interp, st, fr, args, kw):
    """np.sort(x) for a 1-d array: x gathered by np.argsort(x)"""
    x = _arr(interp, st, args[0])
    unit = None
    if isinstance(x, Quantity):
        unit, x = x.unit, x.value
    order = np_argsort(interp, st, fr, [x], {})
    _, ofn, _ = npm.info(st, order)
    shape, fn, kind = npm.info(st, x)
    res = PureArr(tuple(shape), lambda idx: fn((ofn((idx[0],)),)), kind)
    return Quantity(res, unit) if unit is not None else res
