"""Bounded (E2) checks of C12 (file round trips), C13 (aperture interpolation), C14 (extinction
law), C15 (flux units), C19 (truncated fit files), C20 (source lines) on the real code."""
import copy
import io
import itertools
import math
import os
import pickle

import numpy as np
from astropy import units as u
from astropy.table import Table

from . import pkg
from .core import Recorder, close, jsonable, unjson_floats

UNITS = {'mJy': u.mJy, 'Jy': u.Jy, 'erg/cm2/s': u.erg / u.cm ** 2 / u.s, 'erg/s': u.erg / u.s, 'W/m2': u.W / u.m ** 2}


# ---------------------------------------------------------------------------
# C12
# ---------------------------------------------------------------------------

def _sed_from(c, rng):
    from sedfitter.sed import SED
    n_ap, n_wav = c['n_ap'], c['n_wav']
    wav = np.sort(10. ** rng.uniform(-1, 2.5, n_wav))
    if len(np.unique(np.float32(wav))) < n_wav:
        wav = np.logspace(-1, 2.5, n_wav)
    if c['desc']:
        wav = wav[::-1]
    unit = UNITS[c['unit']]
    s = SED()
    s.name = 'model_x'
    s.distance = c.get('dist_kpc', 1.) * u.kpc
    s.wav = wav * u.micron
    s.nu = s.wav.to(u.Hz, equivalencies=u.spectral())
    s.apertures = None if not c['with_ap'] else np.sort(10. ** rng.uniform(1, 4, n_ap)) * u.au
    na = n_ap if c['with_ap'] else 1
    s.flux = 10. ** rng.uniform(-2, 2, (na, n_wav)) * unit
    s.error = s.flux * 0.1
    return s


def c12_sed(rec, case):
    from sedfitter.sed import SED
    c = unjson_floats(case)
    rng = np.random.default_rng(c['pseed'])
    s = _sed_from(c, rng)
    unit = UNITS[c['unit']]
    ok = True
    with pkg.scratch() as d:
        fn = os.path.join(d, 's.fits')
        try:
            s.write(fn)
            out = {}
            for order in ('nu', 'wav'):
                out[order] = SED.read(fn, unit_wav=u.micron, unit_freq=u.Hz, unit_flux=unit, order=order)
        except Exception as e:
            rec.fail('sed_roundtrip_crash', 'SED write/read raised %s: %s' % (type(e).__name__, e), case)
            return False
    w_in = s.wav.to(u.micron).value
    f_in, e_in = s.flux.to(unit).value, s.error.to(unit).value
    for order, r in out.items():
        w = r.wav.to(u.micron).value
        asc = bool(np.all(np.diff(w) > 0))
        ok &= rec.expect(asc == (order == 'wav') or len(w) < 2, 'requested_order', 'order=%s not honoured' % order, case)
        # every (aperture, wavelength) cell: look the wavelength up in the input
        idx = [int(np.argmin(np.abs(w_in - x))) for x in w]
        ok &= rec.expect(close(w, w_in[idx], 1e-6), 'wavelengths', 'wavelengths changed in the round trip', case)
        ok &= rec.expect(close(r.nu.to(u.Hz).value, (r.wav).to(u.Hz, equivalencies=u.spectral()).value, 1e-5), 'nu_matches_wav',
                         'order=%s: frequencies and wavelengths of the SED read back do not describe the same axis' % order, case)
        ok &= rec.expect(close(r.flux.to(unit).value, f_in[:, idx], 2e-6), 'cells',
                         'order=%s stored %s axis: flux cells differ from what was stored' % (order, 'descending' if c['desc'] else 'ascending'), case)
        ok &= rec.expect(close(r.error.to(unit).value, e_in[:, idx], 2e-6), 'error_cells', 'order=%s: error cells differ' % order, case)
        if c['with_ap']:
            ok &= rec.expect(close(r.apertures.to(u.au).value, s.apertures.to(u.au).value, 1e-6), 'apertures', 'apertures changed', case)
        ok &= rec.expect(r.name == s.name and close(r.distance.to(u.kpc).value, s.distance.to(u.kpc).value, 1e-6), 'metadata', 'name/distance changed', case)
    a, b = out['nu'], out['wav']
    ok &= rec.expect(close(a.flux.value[:, ::-1], b.flux.value, 0, 0) and close(a.wav.value[::-1], b.wav.value, 0, 0) and close(a.nu.value[::-1], b.nu.value, 0, 0)
                     and close(a.error.value[:, ::-1], b.error.value, 0, 0), 'other_order_is_pure_reversal',
                     'reading in the other order is not a pure reversal of the spectral axis', case)
    return ok


def c12_cube(rec, case):
    from sedfitter.sed import SEDCube
    c = unjson_floats(case)
    rng = np.random.default_rng(c['pseed'])
    n_m, n_ap, n_wav = c['n_models'], c['n_ap'], c['n_wav']
    wav = np.logspace(-1, 2.5, n_wav) * (1 + 0.01 * rng.uniform(-1, 1, n_wav))
    wav = np.sort(wav)[::-1] if c['desc'] else np.sort(wav)
    unit = UNITS[c['unit']]
    cube = SEDCube()
    nm_ = (lambda i: 'm%02d' % i) if not c.get('long_names') else (lambda i: 'envelope_disk_cavity_ambient_grid_%07d' % i)      # 41 characters, same first 34
    cube.names = np.array([nm_(i) for i in range(n_m)])
    cube.distance = 1. * u.kpc
    cube.wav = wav * u.micron
    cube.apertures = None if not c['with_ap'] else np.logspace(1, 4, n_ap) * u.au
    na = n_ap if c['with_ap'] else 1
    val = 10. ** rng.uniform(-2, 2, (n_m, na, n_wav))
    cube.val = val * unit
    if c['with_unc']:
        cube.unc = 0.1 * val * unit
    ok = True
    with pkg.scratch() as d:
        fn = os.path.join(d, 'c.fits')
        try:
            cube.write(fn)
            out = dict((order, SEDCube.read(fn, order=order, memmap=c['memmap'])) for order in ('nu', 'wav'))
            for order, r in out.items():
                w = r.wav.to(u.micron).value
                idx = [int(np.argmin(np.abs(wav - x))) for x in w]
                asc = bool(np.all(np.diff(w) > 0))
                ok &= rec.expect(asc == (order == 'wav'), 'requested_order', 'cube order=%s not honoured' % order, case)
                ok &= rec.expect(close(np.asarray(r.val.to(unit).value), val[:, :, idx], 2e-6), 'cube_cells',
                                 'cube order=%s stored %s: value cells differ from what was stored' % (order, 'desc' if c['desc'] else 'asc'), case)
                ok &= rec.expect(close(r.nu.to(u.Hz).value, r.wav.to(u.Hz, equivalencies=u.spectral()).value, 1e-5), 'cube_nu_matches_wav', 'cube nu/wav disagree', case)
                if c['with_unc']:
                    ok &= rec.expect(close(np.asarray(r.unc.to(unit).value), 0.1 * val[:, :, idx], 2e-6), 'cube_unc_cells', 'cube order=%s: uncertainty cells differ' % order, case)
                else:
                    ok &= rec.expect(r.unc is None, 'cube_unc_absent', 'uncertainties appeared from nowhere', case)
                if c['with_ap']:
                    ok &= rec.expect(close(r.apertures.to(u.au).value, cube.apertures.to(u.au).value, 1e-6), 'cube_apertures', 'cube apertures changed', case)
                ok &= rec.expect(list(r.names) == list(cube.names), 'cube_names', 'cube names changed', case)
                # extracting one model gives the SED that was put in
                m = int(rng.integers(0, n_m))
                sed = r.get_sed(nm_(m))
                ok &= rec.expect(close(np.asarray(sed.flux.to(unit).value), val[m][:, idx], 2e-6) and close(sed.wav.to(u.micron).value, w, 1e-6)
                                 and close(sed.nu.to(u.Hz).value, sed.wav.to(u.Hz, equivalencies=u.spectral()).value, 1e-5), 'get_sed',
                                 'get_sed does not return the stored SED of the named model', case)
                if c['with_unc']:
                    ok &= rec.expect(close(np.asarray(sed.error.to(unit).value), 0.1 * val[m][:, idx], 2e-6), 'get_sed_error', 'get_sed errors wrong', case)
        except Exception as e:
            rec.fail('cube_roundtrip_crash', 'cube write/read/get_sed raised %s: %s' % (type(e).__name__, e), case)
            return False
    return ok


def c12_conv(rec, case):
    from sedfitter.convolved_fluxes import ConvolvedFluxes
    c = unjson_floats(case)
    rng = np.random.default_rng(c['pseed'])
    n_m, n_ap = c['n_models'], c['n_ap']
    cf = ConvolvedFluxes(wavelength=3.6 * u.micron, model_names=np.array(['m%02d' % i for i in range(n_m)]),
                         apertures=None if not c['with_ap'] else np.logspace(1, 4, n_ap) * u.au,
                         flux=10. ** rng.uniform(-2, 2, (n_m, n_ap if c['with_ap'] else 1)) * u.mJy,
                         error=10. ** rng.uniform(-3, 1, (n_m, n_ap if c['with_ap'] else 1)) * u.mJy)
    if c.get('mixed_units'):
        cf.flux = cf.flux.to(u.Jy)          # every column is stored with its own unit
    with pkg.scratch() as d:
        fn = os.path.join(d, 'cf.fits')
        try:
            cf.write(fn)
            r = ConvolvedFluxes.read(fn)
        except Exception as e:
            rec.fail('conv_roundtrip_crash', 'ConvolvedFluxes write/read raised %s: %s' % (type(e).__name__, e), case)
            return False
    ok = rec.expect(close(r.flux.to(u.mJy).value, cf.flux.to(u.mJy).value, 2e-6) and close(r.error.to(u.mJy).value, cf.error.to(u.mJy).value, 2e-6), 'conv_cells', 'convolved flux cells changed', case)
    ok &= rec.expect([str(x).strip() for x in r.model_names] == list(cf.model_names), 'conv_names', 'model names changed', case)
    ok &= rec.expect(close(r.central_wavelength.to(u.micron).value, 3.6, 1e-6), 'conv_wav', 'central wavelength changed', case)
    if c['with_ap']:
        ok &= rec.expect(close(r.apertures.to(u.au).value, cf.apertures.value, 1e-6), 'conv_ap', 'apertures changed', case)
    return ok


def run_c12(tier, seed):
    rec = Recorder('C12', 'write->read round trips of SED (1..5 apertures, 2..40 wavelengths, axis asc/desc, both read orders, units mJy/Jy/erg cm-2 s-1/erg s-1, '
                          'with/without apertures), SEDCube (1..6 models, with/without apertures and uncertainties, memmap on/off, get_sed) and ConvolvedFluxes; '
                          'every cell compared by wavelength value; distinct = configuration tuple')
    rng = np.random.default_rng(seed + 12)
    n = 40 if tier == 'quick' else 1200
    units = ['mJy', 'Jy', 'erg/cm2/s', 'erg/s']
    for t in range(n):
        case = dict(seed=seed, tag='c12-sed', pseed=int(rng.integers(1, 10 ** 6)), n_ap=int(rng.integers(1, 6)), n_wav=int(rng.integers(2, 41)),
                    desc=bool(t % 2), unit=units[(t // 2) % 4], with_ap=bool((t // 8) % 2 == 0))
        c12_sed(rec, case)
        rec.case(key=('sed', case['desc'], case['unit'], case['with_ap'], case['n_ap'] > 1), nontrivial=True, sample=case if t < 2 else None)
    for t in range(n // 2):
        case = dict(seed=seed, tag='c12-cube', pseed=int(rng.integers(1, 10 ** 6)), n_models=int(rng.integers(1, 7)), n_ap=int(rng.integers(1, 6)),
                    n_wav=int(rng.integers(2, 41)), desc=bool(t % 2), unit=units[(t // 2) % 4], with_ap=bool((t // 8) % 2 == 0), with_unc=bool((t // 4) % 2 == 0),
                    memmap=bool((t // 16) % 2), long_names=bool(t % 5 == 3))
        c12_cube(rec, case)
        rec.case(key=('cube', case['desc'], case['unit'], case['with_ap'], case['with_unc'], case['memmap']), nontrivial=True, sample=case if t < 1 else None)
    for t in range(max(4, n // 8)):
        case = dict(seed=seed, tag='c12-conv', pseed=int(rng.integers(1, 10 ** 6)), n_models=int(rng.integers(1, 7)), n_ap=int(rng.integers(1, 6)), with_ap=bool(t % 2), mixed_units=bool(t % 3 == 1))
        c12_conv(rec, case)
        rec.case(key=('conv', case['with_ap'], case['n_ap']), nontrivial=True)
    return rec, REPLAY


# ---------------------------------------------------------------------------
# C13
# ---------------------------------------------------------------------------

def _interp_oracle(ap, table, req):
    """table: (..., n_ap); linear between, exact at nodes, clamped above; req >= ap[0]."""
    out = []
    for r in req:
        r = min(r, ap[-1])
        k = int(np.searchsorted(ap, r, side='right') - 1)
        k = min(max(k, 0), len(ap) - 2)
        t = (r - ap[k]) / (ap[k + 1] - ap[k])
        out.append(table[..., k] + t * (table[..., k + 1] - table[..., k]))
    return np.stack(out, axis=-1)


def c13_conv(rec, case):
    from sedfitter.convolved_fluxes import ConvolvedFluxes
    c = unjson_floats(case)
    rng = np.random.default_rng(c['pseed'])
    n_m, n_ap = c['n_models'], c['n_ap']
    tab_unit = {'au': u.au, 'pc': u.pc}[c['table_unit']]
    req_unit = {'au': u.au, 'pc': u.pc, 'cm': u.cm}[c['req_unit']]
    ap_au = np.sort(10. ** rng.uniform(2, 5, n_ap)) if n_ap > 1 else None
    flux = 10. ** rng.uniform(-1, 2, (n_m, max(n_ap, 1)))
    err = flux * 0.1
    names = np.array(['m%02d' % i for i in range(n_m)])
    cf = ConvolvedFluxes(wavelength=2.2 * u.micron, model_names=names, apertures=None if ap_au is None else (ap_au * u.au).to(tab_unit), flux=flux * u.mJy, error=err * u.mJy)
    req_au = np.array(c['req_au'], dtype=float)
    if ap_au is not None:
        req_au = np.array([ap_au[int(x[1:])] if isinstance(x, str) else x for x in c['req_spec']], dtype=float)
    req = (req_au * u.au).to(req_unit)
    below = ap_au is not None and bool(np.any(req_au < ap_au[0] * (1 - 1e-12)))
    try:
        r = cf.interpolate(req.copy())
    except Exception as e:
        if below:
            return True
        rec.fail('conv_interp_crash', 'ConvolvedFluxes.interpolate raised %s: %s (request %s %s, table %s)' % (type(e).__name__, e, jsonable(req.value), c['req_unit'], c['table_unit']), case)
        return False
    ok = rec.expect(not below, 'refuses_below_min', 'a request below the smallest tabulated aperture was accepted', case)
    if below:
        return ok
    if ap_au is None:
        exp_f = np.repeat(flux, len(req_au), axis=1)
        exp_e = np.repeat(err, len(req_au), axis=1)
    else:
        exp_f, exp_e = _interp_oracle(ap_au, flux, req_au), _interp_oracle(ap_au, err, req_au)
    ok &= rec.expect(close(r.flux.to(u.mJy).value, exp_f, 1e-8), 'conv_interp_values', 'interpolated fluxes wrong (table in %s, request in %s)' % (c['table_unit'], c['req_unit']), case)
    ok &= rec.expect(close(r.error.to(u.mJy).value, exp_e, 1e-8), 'conv_interp_errors', 'interpolated errors wrong', case)
    ok &= rec.expect(list(r.model_names) == list(names) and close(r.central_wavelength.to(u.micron).value, 2.2, 1e-12), 'conv_interp_identity', 'names/wavelength/order changed', case)
    return ok


def c13_sed(rec, case):
    from sedfitter.sed import SED
    c = unjson_floats(case)
    rng = np.random.default_rng(c['pseed'])
    n_ap, n_wav = c['n_ap'], c['n_wav']
    ap_au = np.sort(10. ** rng.uniform(2, 5, n_ap))
    s = SED()
    s.name = 'x'
    s.distance = 1 * u.kpc
    wav = np.logspace(0, 2, n_wav)[::-1]
    s.wav = wav * u.micron
    s.nu = s.wav.to(u.Hz, equivalencies=u.spectral())
    s.apertures = None if n_ap == 1 else (ap_au * u.au).to(u.pc if c['table_pc'] else u.au)
    flux = 10. ** rng.uniform(-1, 2, (n_ap, n_wav))
    s.flux = flux * u.mJy
    s.error = 0.1 * flux * u.mJy
    if n_ap > 1:
        ap_au = np.asarray(s.apertures.to(u.au).value, dtype=float)     # the table as stored (a pc table is not bit-identical after the round trip)
    req_au = np.array([ap_au[int(x[1:])] if isinstance(x, str) else x for x in c['req_spec']], dtype=float)
    below = n_ap > 1 and bool(np.any(req_au < ap_au[0] * (1 - 1e-12)))
    req = req_au.copy() if not c['as_quantity'] else (req_au * u.au).to(u.pc)
    ok = True
    try:
        got = s.interpolate(req)
    except Exception as e:
        if below:
            return True
        rec.fail('sed_interp_crash', 'SED.interpolate raised %s: %s' % (type(e).__name__, e), case)
        return False
    ok &= rec.expect(not below, 'sed_refuses_below_min', 'SED.interpolate accepted a request below the smallest aperture', case)
    if below:
        return ok
    got = np.asarray(getattr(got, 'value', got))
    exp = np.repeat(flux[0][:, None], len(req_au), axis=1) if n_ap == 1 else _interp_oracle(ap_au, flux.T, req_au)
    ok &= rec.expect(got.shape == exp.shape and close(got, exp, 1e-8), 'sed_interp_values', 'SED.interpolate values wrong (request as %s)' % ('Quantity in pc' if c['as_quantity'] else 'bare AU'), case)
    # the table of THIS SED at the time of the call: re-scaled copies and re-assigned tables are interpolated
    # on their own values, whatever was interpolated before
    if n_ap > 1:
        try:
            s2 = s.scale_to_distance((2.5 * u.kpc).to(u.cm).value)
            got2 = s2.interpolate(req_au.copy())
            got2 = np.asarray(getattr(got2, 'value', got2))
            ok &= rec.expect(close(got2, exp / 2.5 ** 2, 1e-8), 'sed_interp_current_table', 'SED.interpolate on a copy re-scaled to 2.5 kpc (after an earlier '
                             'interpolation of the original) does not return the re-scaled table\'s interpolant', case)
            s.flux = 3. * flux * u.mJy
            got3 = s.interpolate(req_au.copy())
            got3 = np.asarray(getattr(got3, 'value', got3))
            ok &= rec.expect(close(got3, 3. * exp, 1e-8), 'sed_interp_current_table', 'SED.interpolate after the fluxes were re-assigned returns the interpolant of the OLD table', case)
            s.flux = flux * u.mJy
        except Exception as e:
            rec.fail('sed_interp_crash', 'SED.interpolate on a re-scaled / re-assigned SED raised %s: %s' % (type(e).__name__, e), case)
            return False
    # wavelength-dependent variant: at every filter wavelength equal to an SED wavelength, the value is the
    # interpolant at that filter's aperture
    if n_ap > 1 and c.get('variable'):
        fidx = sorted(rng.choice(n_wav, size=min(3, n_wav), replace=False).tolist())
        fw = wav[fidx]
        fap = np.clip(10. ** rng.uniform(np.log10(ap_au[0]), np.log10(ap_au[-1]), len(fidx)), ap_au[0], max(ap_au[0], ap_au[-1] * 0.99))      # (a table narrower than 1% keeps the lower end)
        perm = rng.permutation(len(fidx))
        try:
            v = s.interpolate_variable(fw[perm].copy(), fap[perm].copy())
            v = np.asarray(getattr(v, 'value', v))
        except Exception as e:
            rec.fail('interp_variable_crash', 'interpolate_variable raised %s: %s' % (type(e).__name__, e), case)
            return False
        for j, wi in enumerate(fidx):
            e1 = _interp_oracle(ap_au, flux[:, wi], [fap[j]])[0]
            ok &= rec.expect(abs(v[wi] - e1) <= 1e-6 * abs(e1), 'interp_variable_at_filters',
                             'interpolate_variable at filter wavelength %g: %g, interpolant at that filter\'s aperture: %g' % (wav[wi], v[wi], e1), case)
    return ok


def run_c13(tier, seed):
    rec = Recorder('C13', 'tables with 1..8 increasing apertures x 1..6 models; requests on nodes, inside, above (clamped), below (must be refused), in the '
                          'table unit or another length unit (AU/pc/cm), bare AU numbers or quantities for SED.interpolate; interpolate_variable at filter '
                          'wavelengths (filters in random order); distinct = (n_ap, units, request kinds)')
    rng = np.random.default_rng(seed + 13)
    n = 400 if tier == 'quick' else 4000
    for t in range(n):
        n_ap = int(rng.integers(1, 9))
        kinds = []
        spec = []
        for _ in range(int(rng.integers(1, 6))):
            k = int(rng.integers(0, 4)) if t % 5 else int(rng.integers(0, 5))
            kinds.append(k)
            if k == 0 and n_ap > 1 and t % 6 in (0, 1):     # exact nodes only when request and table share the unit (t%2 == t%3)
                spec.append('n%d' % int(rng.integers(0, n_ap)))
            elif k == 3:
                spec.append(float(10. ** rng.uniform(5.2, 6.5)))        # above the table
            elif k == 4:
                spec.append(float(10. ** rng.uniform(0, 1.9)))          # below the table
            else:
                spec.append(float(10. ** rng.uniform(2.1, 4.9)))
        tu, ru = ('au', 'pc')[t % 2], ('au', 'pc', 'cm')[t % 3]
        case = dict(seed=seed, tag='c13-conv', pseed=int(rng.integers(1, 10 ** 6)), n_models=int(rng.integers(1, 7)), n_ap=n_ap, table_unit=tu, req_unit=ru,
                    req_spec=spec, req_au=[x if not isinstance(x, str) else 0. for x in spec])
        if n_ap > 1 and not any(isinstance(x, str) for x in spec):
            # keep requests inside unless the kind says otherwise: recompute after the table is drawn is not possible here, so accept
            pass
        c13_conv(rec, case)
        rec.case(key=('conv', n_ap, tu, ru, tuple(sorted(set(kinds)))), nontrivial=n_ap > 1, sample=case if t < 2 else None)
        spec_sed = spec if t % 2 == 0 else [x if not isinstance(x, str) else float(10. ** rng.uniform(2.1, 4.9)) for x in spec]
        case2 = dict(seed=seed, tag='c13-sed', pseed=int(rng.integers(1, 10 ** 6)), n_ap=n_ap, n_wav=int(rng.integers(3, 12)), req_spec=spec_sed,
                     as_quantity=bool(t % 2), table_pc=bool((t // 2) % 2), variable=bool(t % 3 == 0))
        c13_sed(rec, case2)
        rec.case(key=('sed', n_ap, case2['as_quantity'], case2['table_pc'], tuple(sorted(set(kinds)))), nontrivial=n_ap > 1)
    # interpolate_variable as its caller uses it: the default display of plot() on aperture-dependent cubes, with the
    # (monochromatic) filters given in micron or in nm -- the curve passes through each filter's predicted flux
    from . import pipe_props
    for t in range(3 if tier == 'quick' else 30):
        n_f = int(rng.integers(2, 4))
        case3 = dict(seed=seed, tag='c17', pseed=int(rng.integers(1, 10 ** 6)), n_ap=int(rng.integers(3, 5)), n_f=n_f, n_models=int(rng.integers(2, 5)), n_wav=int(rng.integers(8, 16)),
                     theta=[float(x) for x in 10. ** rng.uniform(-0.3, 0.8, 4)], m=int(rng.integers(0, 4)), nsel=1 + t % 2, as_file=False, modes=['interp'],
                     filter_order_desc=bool(t % 2), ext_unit='micron', names_unsorted=False, ap_desc=False, filt_unit=('nm' if t % 2 == 0 else 'micron'))
        try:
            pipe_props.c17_one(rec, case3)
        except Exception as e:
            rec.fail('c13_plot_crash', 'raised %s: %s' % (type(e).__name__, e), case3)
        rec.case(key=('plot-interp', case3['filt_unit'], n_f), nontrivial=True)
    replay = dict(REPLAY)
    replay['c17'] = pipe_props.c17_one
    return rec, replay


# ---------------------------------------------------------------------------
# C14
# ---------------------------------------------------------------------------

def c14_one(rec, case):
    from sedfitter.extinction import Extinction
    c = unjson_floats(case)
    rng = np.random.default_rng(c['pseed'])
    n = c['n']
    # well separated nodes (nearly coincident nodes make the table ill-conditioned w.r.t. the
    # 12-digit text file and unit round trips, which is not what the property is about)
    wav_um = np.logspace(-1.5, 2.5, n) * (1 + rng.uniform(-0.3, 0.3, n) * min(0.05, 2. / n))
    wav_um = np.sort(wav_um)
    if c.get('v_on_node'):
        wav_um[n // 2] = 0.55
        wav_um = np.unique(wav_um)
        n = len(wav_um)
    if n <= 12:
        chi = 10. ** rng.uniform(0, 4, n)
    else:
        # long tables: neighbouring opacities within a factor ~1.4 (a 4-decade jump over a 2% step in wavelength
        # amplifies the 12-digit text file and one-ulp unit round trips beyond any fixed tolerance; that is
        # conditioning, not the property)
        chi = 10. ** (2. + np.cumsum(rng.uniform(-0.15, 0.15, n)))
    wu = {'micron': u.micron, 'AA': u.AA, 'cm': u.cm, 'nm': u.nm, 'm': u.m}[c['wav_unit']]
    cu = {'cgs': u.cm ** 2 / u.g, 'si': u.m ** 2 / u.kg}[c['chi_unit']]
    e = Extinction()
    e.wav = (wav_um * u.micron).to(wu)
    e.chi = (chi * u.cm ** 2 / u.g).to(cu)
    chi_v = np.interp(0.55, wav_um, chi)

    def oracle(q_um):
        q_um = np.asarray(q_um, float)
        inside = (q_um >= wav_um[0] * (1 - 1e-12)) & (q_um <= wav_um[-1] * (1 + 1e-12))
        return np.where(inside, -0.4 * np.interp(q_um, wav_um, chi) / chi_v, 0.)
    q = np.concatenate([rng.choice(wav_um[1:-1], size=min(3, max(n - 2, 1))) if n > 2 else [0.55], 10. ** rng.uniform(np.log10(wav_um[0] * 1.001), np.log10(wav_um[-1] * 0.999), 4),
                        [wav_um[0] * 0.5, wav_um[-1] * 2., 0.55]])
    qu = {'micron': u.micron, 'AA': u.AA, 'cm': u.cm, 'nm': u.nm, 'm': u.m}[c['q_unit']]
    if c.get('near_nodes') and n >= 3:
        # as many queries as the table has nodes, each a little off its node (between nodes: never outside)
        off = min(0.002, 0.2 * float(np.min(np.diff(wav_um))))       # 2 nm, or a fifth of the smallest step
        q = np.concatenate([wav_um[:-1] + off, [wav_um[-1] - off]])
    ok = True
    try:
        got = np.asarray(e.get_av((q * u.micron).to(qu)))
        exp = oracle(q)
        if qu != wu:
            # a query that coincides with the first/last tabulated wavelength and goes through a unit conversion may land
            # one ulp outside the table (float rounding, outside the property): accept "outside" for exactly those
            at_end = (np.abs(q - wav_um[0]) <= 1e-12 * wav_um[0]) | (np.abs(q - wav_um[-1]) <= 1e-12 * wav_um[-1])
            exp = np.where(at_end & (got == 0.), 0., exp)
        ok &= rec.expect(close(got, exp, 1e-8, 1e-12), 'pattern', 'extinction pattern differs from -0.4 chi/chi_V (table in %s/%s, query in %s)' % (c['wav_unit'], c['chi_unit'], c['q_unit']), case)
        ok &= rec.expect(abs(float(np.asarray(e.get_av([0.55] * u.micron))[0]) + 0.4) <= 1e-12, 'normalised_at_V', 'pattern is not -0.4 at 0.55 micron', case)
        # exactly on the end nodes (bit-equal queries)
        ends = np.asarray(e.get_av(u.Quantity([e.wav[0], e.wav[-1]])))
        ok &= rec.expect(close(ends, -0.4 * np.array([chi[0], chi[-1]]) / chi_v, 1e-8), 'end_nodes_inside', 'the first/last tabulated wavelength is treated as outside the table', case)
        # homogeneity, after an evaluation (re-assigning chi on the same object)
        e.chi = e.chi * 7.5
        ok &= rec.expect(close(np.asarray(e.get_av((q * u.micron).to(qu))), got, 1e-10, 1e-14), 'chi_scale_invariant', 'multiplying chi by a constant changed the pattern', case)
        # pickle / table round trips
        e2 = pickle.loads(pickle.dumps(e))
        ok &= rec.expect(close(np.asarray(e2.get_av(q * u.micron)), oracle(q), 1e-8, 1e-12), 'pickle', 'pattern changed by pickling', case)
        e3 = Extinction.from_table(e.to_table())
        ok &= rec.expect(close(np.asarray(e3.get_av(q * u.micron)), oracle(q), 1e-8, 1e-12), 'table', 'pattern changed by to_table/from_table', case)
        with pkg.scratch() as d:
            fn = os.path.join(d, 'law.txt')
            cols = c['cols']
            with open(fn, 'w') as fh:
                for a, b in zip(wav_um, chi):
                    row = [0., 0., 0.]
                    row[cols[0]], row[cols[1]] = a, b
                    fh.write('%.12e %.12e %.12e\n' % tuple(row))
            e4 = Extinction.from_file(fn, columns=tuple(cols))
            ok &= rec.expect(close(np.asarray(e4.get_av(q * u.micron)), oracle(q), 1e-8, 1e-12), 'from_file', 'text-file reader gives a different law (columns %s)' % (cols,), case)
    except Exception as ex:
        rec.fail('extinction_crash', 'raised %s: %s' % (type(ex).__name__, ex), case)
        return False
    return ok


def c14_vend(rec, case):
    """A table whose FIRST or LAST node is 0.55 micron, written directly in another length unit (5500 Angstrom, 550 nm):
    the table covers V, so the pattern inside it is -0.4 chi/chi(V) with chi(V) the opacity of that end node.  (Queries
    exactly at that end are left out: whether 0.55 micron converted to Angstrom is inside a table starting at 5500
    Angstrom is decided by one ulp -- DESIGN.md 11 (4).)"""
    from sedfitter.extinction import Extinction
    c = unjson_floats(case)
    rng = np.random.default_rng(c['pseed'])
    n = c['n']
    unit, v = {'AA': (u.AA, 5500.), 'nm': (u.nm, 550.), 'm': (u.m, 5.5e-7)}[c['wav_unit']]
    if c['end'] == 'first':
        wav = v * np.concatenate([[1.], np.cumprod(1. + rng.uniform(0.05, 0.6, n - 1))])
    else:
        wav = v / np.concatenate([[1.], np.cumprod(1. + rng.uniform(0.05, 0.6, n - 1))])[::-1]
    chi = 10. ** rng.uniform(0, 3, n)
    e = Extinction()
    e.wav = wav * unit
    e.chi = chi * u.cm ** 2 / u.g
    chi_v = chi[0] if c['end'] == 'first' else chi[-1]
    q = np.concatenate([wav[1:-1], rng.uniform(wav[0] * 1.001, wav[-1] * 0.999, 4)]) if n > 2 else rng.uniform(wav[0] * 1.001, wav[-1] * 0.999, 4)
    try:
        got = np.asarray(e.get_av(q * unit))
        got_um = np.asarray(e.get_av((q * unit).to(u.micron)))
    except Exception as ex:
        rec.fail('extinction_crash', 'raised %s: %s' % (type(ex).__name__, ex), case)
        return False
    exp = -0.4 * np.interp(q, wav, chi) / chi_v
    ok = rec.expect(bool(np.all(np.isfinite(got))) and close(got, exp, 1e-8, 1e-12), 'pattern_v_at_table_end',
                    'table in %s whose %s node is 0.55 micron: pattern inside the table is not -0.4 chi/chi(V) (got %s, expected %s)' % (c['wav_unit'], c['end'], got[:4], exp[:4]), case)
    ok &= rec.expect(bool(np.all(np.isfinite(got_um))) and close(got_um, exp, 1e-8, 1e-12), 'pattern_v_at_table_end', 'the same with queries in micron', case)
    return ok


def run_c14(tier, seed):
    rec = Recorder('C14', 'tables with 2..200 rows, positive opacities, wavelengths in micron/Angstrom/cm/nm, opacities in cm2/g or m2/kg; queries on nodes '
                          '(incl. bit-equal end nodes), inside, outside, at V, in any length unit; chi re-assigned after an evaluation; pickle, table and '
                          'text-file (column selections) round trips; tables whose first/last node is 0.55 micron written in Angstrom/nm/m; distinct = (units, n)')
    rng = np.random.default_rng(seed + 14)
    n = 40 if tier == 'quick' else 1500
    wus, cus = ['micron', 'AA', 'cm', 'nm'], ['cgs', 'si']
    colsel = [[0, 1], [1, 0], [0, 2], [2, 1]]
    for t in range(n):
        case = dict(seed=seed, tag='c14', pseed=int(rng.integers(1, 10 ** 6)), n=int(rng.integers(2, 201 if t % 4 else 6)), wav_unit=wus[t % 4], chi_unit=cus[(t // 4) % 2],
                    q_unit=wus[(t // 2) % 4], cols=colsel[t % 4], v_on_node=bool(t % 7 == 0), near_nodes=bool(t % 5 == 2))
        if t % 10 == 7:
            case.update(wav_unit='m', q_unit='m', near_nodes=True, n=int(rng.integers(3, 12)))      # (a table in metres: numbers of order 1e-6)
        c14_one(rec, case)
        rec.case(key=(case['wav_unit'], case['chi_unit'], case['q_unit'], tuple(case['cols']), case['n'] > 5), nontrivial=True, sample=case if t < 2 else None)
    for t in range(12 if tier == 'quick' else 300):
        case = dict(seed=seed, tag='c14-vend', pseed=int(rng.integers(1, 10 ** 6)), n=int(rng.integers(2, 9)), wav_unit=['AA', 'nm', 'm'][t % 3], end=['first', 'last'][(t // 3) % 2])
        c14_vend(rec, case)
        rec.case(key=('v-at-end', case['wav_unit'], case['end']), nontrivial=True)
    return rec, REPLAY


# ---------------------------------------------------------------------------
# C15
# ---------------------------------------------------------------------------

def _to_ref(val, unit_name, nu, d_cm):
    """value in the named unit -> erg/cm2/s (the reference family), from the statement:
    F = nu*F_nu, L = F*d^2."""
    if unit_name == 'mJy':
        return val * 1e-26 * nu
    if unit_name == 'Jy':
        return val * 1e-23 * nu
    if unit_name == 'erg/cm2/s':
        return val
    if unit_name == 'W/m2':
        return val * 1e3
    if unit_name == 'erg/s':
        return val / d_cm ** 2
    raise ValueError(unit_name)


def _from_ref(ref, unit_name, nu, d_cm):
    if unit_name == 'mJy':
        return ref / nu / 1e-26
    if unit_name == 'Jy':
        return ref / nu / 1e-23
    if unit_name == 'erg/cm2/s':
        return ref
    if unit_name == 'W/m2':
        return ref / 1e3
    if unit_name == 'erg/s':
        return ref * d_cm ** 2
    raise ValueError(unit_name)


def c15_one(rec, case):
    from sedfitter.sed.helpers import convert_flux
    from sedfitter.sed import SED
    c = unjson_floats(case)
    rng = np.random.default_rng(c['pseed'])
    n_ap, n_wav = c['n_ap'], c['n_wav']
    A, B, C = c['A'], c['B'], c['C']
    nu = np.sort(10. ** rng.uniform(11, 15, n_wav))
    if c['nu_desc']:
        nu = nu[::-1]
    d = c['d_kpc'] * u.kpc
    d_cm = d.to(u.cm).value
    val = 10. ** rng.uniform(-2, 2, (n_ap, n_wav))
    ok = True
    try:
        ab = convert_flux(nu * u.Hz, val * UNITS[A], UNITS[B], distance=d)
    except Exception as e:
        rec.fail('convert_crash', 'convert_flux %s->%s raised %s: %s' % (A, B, type(e).__name__, e), case)
        return False
    exp = _from_ref(_to_ref(val, A, nu, d_cm), B, nu, d_cm)
    if c.get('float32'):
        # the same values held in single precision (how FITS 'E' columns arrive): the relation to single-precision accuracy
        try:
            ab32 = convert_flux(nu * u.Hz, val.astype(np.float32) * UNITS[A], UNITS[B], distance=d)
            g32 = np.asarray(ab32.to(UNITS[B]).value, dtype=float)
            ok &= rec.expect(bool(np.all(np.isfinite(g32))) and close(g32, exp, 1e-5), 'relation_float32', 'convert_flux %s->%s on single-precision fluxes violates F=nu*F_nu / L=F*d^2 (got %s, expected %s)' % (A, B, g32.ravel()[:3], exp.ravel()[:3]), case)
        except Exception as e:
            rec.fail('convert_crash', 'convert_flux %s->%s on single-precision fluxes raised %s: %s' % (A, B, type(e).__name__, e), case)
    ok &= rec.expect(close(ab.to(UNITS[B]).value, exp, 1e-9), 'relation', 'convert_flux %s->%s violates F=nu*F_nu / L=F*d^2 (shape %s)' % (A, B, val.shape), case)
    aba = convert_flux(nu * u.Hz, ab, UNITS[A], distance=d)
    ok &= rec.expect(close(aba.to(UNITS[A]).value, val, 1e-9), 'roundtrip', '%s->%s->%s is not the identity' % (A, B, A), case)
    abc = convert_flux(nu * u.Hz, ab, UNITS[C], distance=d)
    ac = convert_flux(nu * u.Hz, val * UNITS[A], UNITS[C], distance=d)
    ok &= rec.expect(close(abc.to(UNITS[C]).value, ac.to(UNITS[C]).value, 1e-9), 'transitive', '%s->%s->%s differs from %s->%s' % (A, B, C, A, C), case)
    # unsupported unit is refused
    try:
        convert_flux(nu * u.Hz, val * UNITS[A], u.K, distance=d)
        ok &= rec.expect(False, 'unsupported_refused', 'an unsupported target unit (K) was accepted', case)
    except Exception:
        pass
    # through the real SED.read, both read orders
    if c.get('through_file'):
        s = SED()
        s.name = 'x'
        s.distance = d
        s.nu = nu * u.Hz
        s.wav = s.nu.to(u.micron, equivalencies=u.spectral())
        s.apertures = None if n_ap == 1 else np.logspace(1, 3, n_ap) * u.au
        s.flux = val * UNITS[A]
        s.error = 0.1 * val * UNITS[A]
        with pkg.scratch() as dd:
            fn = os.path.join(dd, 's.fits')
            s.write(fn)
            for order in ('nu', 'wav'):
                r = SED.read(fn, unit_flux=UNITS[B], order=order)
                rn = r.nu.to(u.Hz).value
                idx = [int(np.argmin(np.abs(np.log(nu) - np.log(x)))) for x in rn]
                ok &= rec.expect(close(r.flux.to(UNITS[B]).value, exp[:, idx], 5e-6), 'read_relation',
                                 'SED.read(unit_flux=%s, order=%s) of a file stored in %s violates the unit relation' % (B, order, A), case)
                ok &= rec.expect(close(r.error.to(UNITS[B]).value, 0.1 * exp[:, idx], 5e-6), 'read_relation_error', 'SED.read errors violate the unit relation', case)
    return ok


def run_c15(tier, seed):
    rec = Recorder('C15', 'all 25 (stored, requested) pairs over {mJy, Jy, erg/cm2/s, erg/s, W/m2} x third unit for transitivity x shapes (1..5 apertures incl. '
                          'square n_ap==n_wav) x frequency order x distances; a subset through the real SED.write/SED.read in both read orders; '
                          'distinct = (A, B, C, square, order)')
    rng = np.random.default_rng(seed + 15)
    names = list(UNITS)
    reps = 1 if tier == 'quick' else 12
    t = 0
    for rep in range(reps):
        for A, B in itertools.product(names, repeat=2):
            t += 1
            n_ap = int(rng.integers(1, 6))
            n_wav = n_ap if t % 3 == 0 else int(rng.integers(2, 9))
            case = dict(seed=seed, tag='c15', pseed=int(rng.integers(1, 10 ** 6)), A=A, B=B, C=names[t % 5], n_ap=n_ap, n_wav=max(n_wav, 2) if n_ap > 1 else n_wav,
                        nu_desc=bool(t % 2), d_kpc=float(10. ** rng.uniform(-1, 1)), through_file=(A != 'W/m2' and (t % 4 == 0 or tier != 'quick')), float32=True)
            if case['n_ap'] > 1 and t % 3 == 0:
                case['n_wav'] = case['n_ap']
            try:
                c15_one(rec, case)
            except Exception as e:
                rec.fail('c15_crash', 'raised %s: %s' % (type(e).__name__, e), case)
            rec.case(key=(A, B, case['C'], case['n_ap'] == case['n_wav'], case['nu_desc']), nontrivial=A != B, sample=case if t < 3 else None)
    rec.exhaustive = True
    return rec, REPLAY


# ---------------------------------------------------------------------------
# C20
# ---------------------------------------------------------------------------

def c20_layout(rec, case):
    from sedfitter.source import Source
    c = unjson_floats(case)
    cols = c['cols']
    line = ' '.join(cols)
    L = len(cols)
    try:
        s = Source.from_ascii(line)
        outcome = 'ok'
    except EOFError:
        outcome = 'eof'
    except Exception as e:
        outcome = 'error'
    n = c['n']
    flags_ok = all(f in ('0', '1', '2', '3', '4', '9') for f in cols[3:3 + max((L - 3) // 3, 0)]) if L >= 3 else True      # (a flag column holds one of these integers: '2.5' or '1.0' is not a flag)
    if L < 3:
        return rec.expect(outcome == 'eof', 'short_line_ends_input', 'a line with %d columns gave %s, expected end of input' % (L, outcome), case)
    if L % 3 != 0:
        return rec.expect(outcome == 'error', 'layout_rejected', 'a line with %d columns (not 3*(n+1)) was %s instead of rejected' % (L, 'accepted' if outcome == 'ok' else outcome), case)
    if not flags_ok:
        return rec.expect(outcome == 'error', 'bad_flag_rejected', 'a line with a flag outside {0,1,2,3,4,9} was %s' % outcome, case)
    ok = rec.expect(outcome == 'ok', 'layout_accepted', 'a well-formed line with %d columns was rejected' % L, case)
    if not ok:
        return False
    n = L // 3 - 1
    ok &= rec.expect(s.name == cols[0] and s.x == float(cols[1]) and s.y == float(cols[2]), 'name_coords', 'name/coordinates mis-assigned', case)
    ok &= rec.expect(list(s.valid) == [int(x) for x in cols[3:3 + n]], 'flags', 'flags mis-assigned', case)
    ok &= rec.expect(close(s.flux, [float(x) for x in cols[3 + n::2]], 0, 0) and close(s.error, [float(x) for x in cols[4 + n::2]], 0, 0), 'column_association',
                     'flux/error columns mis-assigned', case)
    return ok


def c20_roundtrip(rec, case):
    from sedfitter.source import Source
    c = unjson_floats(case)
    s = pkg.make_source(c['name'], c['valid'], c['flux'], c['error'], x=c['x'], y=c['y'])
    ok = True
    try:
        r = Source.from_ascii(s.to_ascii())
    except Exception as e:
        rec.fail('ascii_roundtrip_crash', 'from_ascii(to_ascii(s)) raised %s: %s' % (type(e).__name__, e), case)
        return False
    ok &= rec.expect(r.name == s.name, 'name_roundtrip', 'name %r read back as %r' % (s.name, r.name), case)
    ok &= rec.expect(list(r.valid) == list(s.valid), 'flags_roundtrip', 'flags changed', case)
    ok &= rec.expect(close(r.flux, s.flux, 6e-4, 0) and close(r.error, s.error, 6e-4, 0) and abs(r.x - s.x) <= 6e-6 and abs(r.y - s.y) <= 6e-6,
                     'values_to_printed_precision', 'values not preserved to the printed precision', case)
    d = Source.from_dict(s.to_dict())
    p = pickle.loads(pickle.dumps(s))
    for nm, o in (('dict', d), ('pickle', p)):
        ok &= rec.expect(o.name == s.name and o.x == s.x and o.y == s.y and np.array_equal(o.valid, s.valid) and np.array_equal(o.flux, s.flux)
                         and np.array_equal(o.error, s.error), nm + '_lossless', '%s round trip is not lossless' % nm, case)
    return ok


def run_c20(tier, seed):
    nmax = 5 if tier == 'quick' else 12
    rec = Recorder('C20', 'EXHAUSTIVE column counts 0..3n+6 for n=0..%d (well-formed tokens) + every single bad flag value in {5,6,7,8,-1,10}; to_ascii/from_ascii, '
                          'dict and pickle round trips for n<=12 with values over 60 decades incl. negatives and -999, names up to 40 characters; '
                          'distinct = (n, column count) / (n, name length)' % nmax)
    rng = np.random.default_rng(seed + 20)
    for n in range(0, nmax + 1):
        for L in range(0, 3 * n + 7):
            cols = ['name', '1.5', '-2.25'][:min(L, 3)]
            k = max(L - 3, 0)
            nn = k // 3
            body = [str(int(rng.choice([0, 1, 2, 3, 4, 9]))) for _ in range(nn)] + ['%.4e' % (10. ** rng.uniform(-3, 3)) for _ in range(k - nn)]
            cols = cols + body
            case = dict(seed=seed, tag='c20-layout', n=n, cols=cols)
            c20_layout(rec, case)
            rec.case(key=('layout', n, L), nontrivial=L >= 3, sample=dict(n=n, columns=L) if (n, L) == (2, 9) else None)
        for bad in ('5', '6', '7', '8', '-1', '10', '2.5', '1.0', '9.9', '0.5'):
            if n == 0:
                continue
            cols = ['nm', '0', '0'] + ['1'] * n + ['1.0', '0.1'] * n
            cols[3 + int(rng.integers(0, n))] = bad
            c20_layout(rec, dict(seed=seed, tag='c20-layout', n=n, cols=cols))
            rec.case(key=('badflag', n, bad))
    rec.exhaustive = True
    for t in range(60 if tier == 'quick' else 1500):
        n = int(rng.integers(0, 13))
        ln = int(rng.integers(1, 41))
        name = ''.join(rng.choice(list('abcXYZ0123_-.+'), size=ln))
        flux = np.sign(rng.uniform(-0.2, 1, n)) * 10. ** rng.uniform(-30, 30, n)
        err = 10. ** rng.uniform(-30, 30, n)
        for j in range(n):
            if rng.uniform() < 0.15:
                flux[j], err[j] = -999., -999.
        case = dict(seed=seed, tag='c20-roundtrip', name=name, valid=rng.choice([0, 1, 2, 3, 4, 9], size=n), flux=flux, error=err, x=float(rng.uniform(0, 360)) if t % 3 else float(np.round(rng.uniform(-4000, 4000), 3)), y=float(rng.uniform(-90, 90)) if t % 3 else float(np.round(rng.uniform(-4000, 4000), 3)))
        case = jsonable(case)
        c20_roundtrip(rec, case)
        rec.case(key=('rt', n, ln), nontrivial=n > 0, sample=dict(n=n, name=name) if t < 2 else None)
    return rec, REPLAY


# ---------------------------------------------------------------------------
# C19
# ---------------------------------------------------------------------------

def _fitinfo_equal(a, b):
    if a.source != b.source:
        return False
    for nm in ('av', 'sc', 'chi2', 'model_id'):
        if not close(getattr(a, nm), getattr(b, nm), 0, 0):
            return False
    if list(a.model_name) != list(b.model_name):
        return False
    if (a.model_fluxes is None) != (b.model_fluxes is None):
        return False
    return a.model_fluxes is None or close(a.model_fluxes, b.model_fluxes, 0, 0)


def _make_records(rng, k, with_fluxes, sizes=None):
    from sedfitter.fit_info import FitInfo, FitInfoMeta
    meta = FitInfoMeta()
    meta.model_dir = '/some/models'
    meta.filters = [{'aperture_arcsec': 3., 'name': 'F1', 'wav': 1.2 * u.micron}, {'aperture_arcsec': 3., 'name': 'F2', 'wav': 2.2 * u.micron}]
    meta.extinction_law = pkg.simple_extinction(n=5)
    recs = []
    for i in range(k):
        m = int(sizes[i]) if sizes is not None else int(rng.integers(0, 6))
        info = FitInfo()
        info.source = pkg.make_source('s%d' % i, [1, 1], [1. + i, 2.], [.1, .2])
        info.av = rng.uniform(0, 5, m)
        info.sc = rng.uniform(-1, 1, m)
        info.chi2 = np.sort(rng.uniform(0, 9, m))
        if m > 1 and i % 2:
            info.chi2[-1] = np.nan
        info.model_name = np.array(['model_%04d' % j for j in rng.permutation(m)])
        info.model_id = rng.permutation(m)
        info.model_fluxes = rng.uniform(-1, 1, (m, 2)) if with_fluxes else None
        info.meta = meta
        recs.append(info)
    return recs


def _clone_records(recs):
    """records that pickle to EXACTLY the same number of bytes as the first one (same shapes, names of the same length,
    other numbers)"""
    out = [recs[0]]
    for i in range(1, len(recs)):
        r = pickle.loads(pickle.dumps(recs[0], 2))
        r.meta = recs[0].meta
        # (numpy arrays pickle to a length that depends on their bytes under protocol 2, Python floats and strings of
        #  equal length do not: the records differ in the source's name and position only)
        r.source.name = recs[0].source.name[:-1] + str(i % 10)
        r.source.x = float(recs[0].source.x) + 1.5 * i
        r.source.y = float(recs[0].source.y) - 0.25 * i
        out.append(r)
    return out


def c19_file(rec, case):
    from sedfitter.fit_info import FitInfoFile
    c = unjson_floats(case)
    rng = np.random.default_rng(c['pseed'])
    recs = _make_records(rng, c['k'], c['with_fluxes'], c.get('sizes'))
    if c.get('clones'):
        recs = _clone_records(recs)
    ok = True
    with pkg.scratch() as d:
        fn = os.path.join(d, 'out.fitinfo')
        f = FitInfoFile(fn, 'w')
        for r in recs:
            f.write(r)
        f.close()
        data = open(fn, 'rb').read()
        offsets = c.get('offsets') or range(len(data))
        if c.get('frame_cuts'):
            # additionally cut at (and next to) every boundary between the pickle frames actually present in
            # the file, however the writer chose to split its records into frames
            import pickle
            cuts = set()
            with open(fn, 'rb') as fh:
                while True:
                    try:
                        pickle.load(fh)
                    except EOFError:
                        break
                    except Exception:       # noqa  (a writer that puts something else than pickles between the frames:
                        break               #        the boundaries found so far are used)
                    cuts.add(fh.tell())
            offsets = sorted(set(offsets) | set(b + e for b in cuts for e in (-1, 0, 1) if 0 <= b + e < len(data)))
        n_read = 0
        for off in offsets:
            tn = os.path.join(d, 'cut.fitinfo')
            with open(tn, 'wb') as fh:
                fh.write(data[:off])
            got = []
            try:
                fin = FitInfoFile(tn, 'r')
                try:
                    for info in fin:
                        got.append(info)
                finally:
                    fin.close()
            except Exception:
                pass        # failing with an error is allowed; whatever was yielded before must still be right
            n_read += 1
            good = len(got) <= len(recs) and all(_fitinfo_equal(g, r) for g, r in zip(got, recs))
            if not good:
                ok = rec.expect(False, 'prefix_or_error', 'file with %d records truncated at byte %d/%d yielded %d records that are not an exact prefix of what was written'
                                % (len(recs), off, len(data), len(got)), dict(case, offsets=[off]))
                break
        # the untruncated file gives everything back, with the metadata
        fin = FitInfoFile(fn, 'r')
        full = list(fin)
        ok &= rec.expect(len(full) == len(recs) and all(_fitinfo_equal(g, r) for g, r in zip(full, recs)), 'complete_file', 'the complete file does not read back every record', case)
        ok &= rec.expect(fin.meta.model_dir == '/some/models' and [f_['name'] for f_ in fin.meta.filters] == ['F1', 'F2'], 'meta', 'metadata not read back', case)
        fin.close()
    rec.notes.append('%d truncation offsets' % n_read) if len(rec.notes) < 3 else None
    return ok


def run_c19(tier, seed):
    kmax = 3 if tier == 'quick' else 4
    rec = Recorder('C19', 'EXHAUSTIVE truncation at every byte offset 0..len-1 of fit output files written by the real FitInfoFile with 1..%d records of varying '
                          'size (0..5 fits, NaN chi2), with and without stored predicted fluxes; plus one file holding a record of 70000 fits cut at a strided '
                          'sample of offsets and at/next to every pickle-frame boundary found in the file; outcome must be an error or an exact prefix; distinct = (records, with_fluxes, offset)' % kmax)
    rng = np.random.default_rng(seed + 19)
    total = 0
    for k in range(1, kmax + 1):
        for wf in (False, True):
            case = dict(seed=seed, tag='c19', pseed=int(rng.integers(1, 10 ** 6)), k=k, with_fluxes=wf)
            try:
                c19_file(rec, case)
            except Exception as e:      # noqa
                rec.fail('c19_crash', 'writing / reading back a complete file raised %s: %s' % (type(e).__name__, e), case)
            rec.case(key=(k, wf), nontrivial=True, sample=case if k == 2 else None)
    # records of EQUAL size (a reader that re-uses a buffer between records shows its stale bytes only then)
    for wf in (False, True):
        case = dict(seed=seed, tag='c19', pseed=int(rng.integers(1, 10 ** 6)), k=3, with_fluxes=wf, sizes=[3, 3, 3], clones=True)
        try:
            c19_file(rec, case)
        except Exception as e:      # noqa
            rec.fail('c19_crash', 'writing / reading back a complete file raised %s: %s' % (type(e).__name__, e), case)
        rec.case(key=('equal-size', wf), nontrivial=True)
    # count offsets as evaluations
    rec.exhaustive = True
    big = dict(seed=seed, tag='c19', pseed=7, k=2, with_fluxes=True, sizes=[3, 70000], frame_cuts=True)
    from sedfitter.fit_info import FitInfoFile
    # strided offsets for the big file (computed from its length inside the replay function: give explicit list)
    big['offsets'] = list(range(2000, 2600000, 1 if False else 65521))[:40 if tier == 'quick' else 400]
    try:
        c19_file(rec, big)
    except Exception as e:      # noqa
        rec.fail('c19_crash', 'writing / reading back a complete file raised %s: %s' % (type(e).__name__, e), big)
    rec.case(key=('big', 70000), nontrivial=True)
    rec.evaluations += sum(int(x.split()[0]) for x in rec.notes if x.split()[0].isdigit())
    for i in range(max(2, rec.evaluations // 50)):
        rec.nontrivial.add(('offset-block', i))
    return rec, REPLAY


REPLAY = {'c12-sed': c12_sed, 'c12-cube': c12_cube, 'c12-conv': c12_conv, 'c13-conv': c13_conv, 'c13-sed': c13_sed, 'c14': c14_one, 'c14-vend': c14_vend, 'c15': c15_one,
          'c20-layout': c20_layout, 'c20-roundtrip': c20_roundtrip, 'c19': c19_file}
