"""Model of binary files holding a sequence of pickle frames, and of text files read line by line
(assumed dependency contracts, DESIGN.md 5.2):

  * a file opened 'wb' starts empty; pickle.dump appends exactly one self-delimiting frame;
  * a file opened 'rb' holds n >= 0 complete frames, possibly followed by an incomplete one (`tail`);
    pickle.load returns the next complete frame; at the end of the complete frames it raises EOFError
    if nothing follows, and EOFError or UnpicklingError (never anything else, never an object) if an
    incomplete frame follows;
  * readline() on a text file returns the next line.
"""
import z3

from .sym import Sc, fresh_int, fresh_bool, band, bnot, compare, arith, wrap, to_z3
from .values import ObjRef, Opaque
from .npmodel import Raised

FILE = '<file>'


def open_file(st, name, mode):
    if 'w' in mode:
        return st.alloc_obj(FILE, dict(name=name, mode=mode, n=0, pos=0, tail=False, written=0, log=()))
    n = Sc(fresh_int('n_frames'))
    st.assume(compare('>=', n, 0))
    return st.alloc_obj(FILE, dict(name=name, mode=mode, n=n, pos=0, tail=Sc(fresh_bool('partial_frame_follows')), written=0, log=(),
                                   tail_eof=Sc(fresh_bool('partial_frame_reports_eof')), lines=0))


def given_file(st, name, mode, n, tail):
    """A readable file with a stated content (used by contract setups)."""
    return st.alloc_obj(FILE, dict(name=name, mode=mode, n=n, pos=0, tail=tail, written=0, log=(), tail_eof=Sc(fresh_bool('partial_frame_reports_eof')), lines=0))


def pickle_dump(interp, st, obj, fh):
    cell = st.heap[fh.addr]
    if cell.cls != FILE:
        raise Raised('TypeError', 'dump to a non-file')
    log = cell.attrs['log'] + (obj,)
    st.set_attr(fh, 'log', log)
    st.set_attr(fh, 'written', arith('+', cell.attrs['written'], 1))
    st.events.append(('dump', fh.addr, obj))
    return None


def pickle_load(interp, st, fh):
    cell = st.heap[fh.addr]
    pos, n, tail = cell.attrs['pos'], cell.attrs['n'], cell.attrs['tail']
    at_end = compare('>=', pos, n)
    teof = cell.attrs.get('tail_eof', True)
    # EOFError: nothing follows, or an incomplete frame that the unpickler reports as EOF
    eof = band(at_end, wrap_or(bnot(tail), teof))
    bad = band(at_end, band(tail, bnot(teof)))
    for cond, exc in ((eof, 'EOFError'), (bad, 'UnpicklingError')):
        if cond is False:
            continue
        rs = st.fork()
        rs.assume_pc(cond)
        rs.path += 'X'
        rs.status = 'raise'
        rs.exc = (exc, 'pickle.load', 0)
        interp._pending_forks.append(rs)
    st.assume_pc(bnot(at_end))
    st.set_attr(fh, 'pos', arith('+', pos, 1))
    return Opaque('frame', (fh.addr, pos))


def wrap_or(a, b):
    from .sym import bor
    return bor(a, b)


def readline(st, fh):
    cell = st.heap[fh.addr]
    k = cell.attrs.get('lines', 0)
    st.set_attr(fh, 'lines', arith('+', k, 1))
    L = z3.Int('n_columns!%s' % (k if isinstance(k, int) else 'k'))
    return Opaque('line', fresh_int('L'))
